'''Compare the stand-in marshaller with real dbus-python on a probe corpus.
Run with the system python (which has dbus-python): the stand-in package is
loaded under the alias `vdbus` so that it does not shadow the real one.'''
import importlib.util
import ipaddress
import sys


def load_shim():
    spec = importlib.util.spec_from_file_location(
        'vdbus', '/verif/shims/dbus/__init__.py',
        submodule_search_locations=['/verif/shims/dbus'])
    mod = importlib.util.module_from_spec(spec)
    sys.modules['vdbus'] = mod
    spec.loader.exec_module(mod)
    return mod


def norm(val):
    name = type(val).__name__
    lvl = getattr(val, 'variant_level', 0)
    if isinstance(val, dict):
        return (name, lvl, str(getattr(val, 'signature', None)),
                sorted((norm(k), norm(v)) for (k, v) in val.items()))
    if isinstance(val, (list, tuple)):
        sig = getattr(val, 'signature', None)
        return (name, lvl, None if name == 'Struct' else str(sig), [norm(v) for v in val])
    if isinstance(val, bool) or name == 'Boolean':
        return ('Boolean', lvl, bool(val))
    if isinstance(val, int):
        return (name, lvl, int(val))
    if isinstance(val, float):
        return (name, lvl, float(val))
    if isinstance(val, str):
        return (name, lvl, str(val))
    return (name, lvl, repr(val))


class I:
    def __int__(self):
        return 5


class X:
    def __index__(self):
        return 6


def corpus(D):
    nvals = len(_build_vals(D))
    # 'o' and 'g' are left out: real libdbus abort()s on invalid paths/signatures
    sigs = ['y', 'b', 'n', 'q', 'i', 'u', 'x', 't', 'd', 's', 'v', 'ay', 'as', 'a{sv}', 'av', '(ss)', 'at',
            'a{ss}', 'ai', 'aay', 'a{sa{sv}}', '(iv)']
    for sig in sigs:
        for idx in range(nvals):
            yield (sig, idx)


def multi_cases(D):
    return [
        ('st', ('a',)), ('st', ('a', 1, 2)), ('sts', (1, 'refused with code %s', 3)),
        ('sts', ('1', 'refused', 3)), ('sts', ('1', 3, 'ok')), ('sv', ('1', D.String())), ('sv', ('1', 5)),
        ('sv', ('1', 2 ** 31)), ('sv', ('1', None)), ('o', ('/ok/path',)), ('o', (D.ObjectPath('/ok/path'),)),
        ('ao', (['/a', '/b'],)), ('ao', ({'/a': 1}.keys(),)), ('xissq', (1, 2, 'n', 'a', 3)),
        ('xissq', (1, 2, 5, 'a', 3)), ('xissq', (1, 2 ** 31, 'n', 'a', 3)), ('xissq', (1, 2, 'n', 'a', 65536)),
        ('sta{sv}', ('0', 10, {'address': '1.2.3.4', 'port': 4556})),
        ('sta{sv}', ('0', 10, {'address': '1.2.3.4', 'port': 2 ** 31})),
        ('sta{sv}', ('0', None, {})), ('', ()), ('s', ()), ('aya{sv}', (b'abc', {'address': 'h'})),
        ('aya{sv}', (D.ByteArray(b'abc'), D.Dictionary({'address': 'h', 'mtu': 5}, signature='sv'))),
        (None, ('a', 1)), (None, ([],)), (None, (None,)), (None, ()), (None, (D.Array([], signature='s'),)),
    ]


def run():
    try:
        import dbus
        import dbus.lowlevel
    except ImportError:
        print('dbus marshal selftest: real dbus-python not importable with', sys.executable, '- skipped')
        return None
    if not hasattr(dbus, 'lowlevel') or 'verif-shim' in getattr(dbus, '__version__', ''):
        print('dbus marshal selftest: only the stand-in is importable here - skipped')
        return None
    V = load_shim()

    def real(sig, args):
        m = dbus.lowlevel.SignalMessage('/a', 'a.b', 'c')
        try:
            m.append(*args, signature=sig)
            return ('ok', [norm(v) for v in m.get_args_list()])
        except Exception as e:
            return ('err', type(e).__name__)

    def mine(sig, args):
        try:
            return ('ok', [norm(v) for v in V._marshal.append(sig, args)])
        except Exception as e:
            return ('err', type(e).__name__)

    n = 0
    bad = []
    vals_r = _vals(dbus)
    vals_v = _vals(V)
    for (sig, idx) in corpus(dbus):
        if sig in ('o',):
            continue
        a = real(sig, (vals_r[idx],))
        vals_r = _vals(dbus)  # iterators are consumed
        b = mine(sig, (vals_v[idx],))
        vals_v = _vals(V)
        n += 1
        if a[0] != b[0] or (a[0] == 'ok' and a[1] != b[1]):
            bad.append((sig, idx, repr(vals_r[idx])[:50], a, b))
    for ((sig, args_r), (_s, args_v)) in zip(multi_cases(dbus), multi_cases(V)):
        a = real(sig, args_r)
        b = mine(sig, args_v)
        n += 1
        if a[0] != b[0] or (a[0] == 'ok' and a[1] != b[1]):
            bad.append((sig, args_r, a, b))
    for item in bad:
        print('MISMATCH', item)
    print('dbus marshal selftest: %d cases, %d mismatches' % (n, len(bad)))
    return len(bad)


def _vals(D):
    return _build_vals(D)


def _build_vals(D):
    return [0, 1, -1, 255, 256, 2 ** 31 - 1, 2 ** 31, 2 ** 32, 2 ** 63 - 1, 2 ** 63, 2 ** 64 - 1, 2 ** 64,
            -2 ** 31, -2 ** 31 - 1, -2 ** 63, 65535, 65536, 1.5, True, False, None, 'x', '12', '', b'a', b'ab', b'',
            I(), X(), [1], (1,), (1, 'a'), {}, {'a': 1}, [], ['a'], [1, 'a'], [[1], [2]], [[]], (1, []),
            {'k': {'n': 1}}, {'k': [2 ** 31]}, {1: 2, 'a': 3}, {'a': None}, {'a': []}, {'a': b'xx'},
            {'a': 1.5, 'b': True, 'c': (1, 'a')},
            D.String('q'), D.UInt64(3), D.Byte(3), D.Int32(7), D.UInt32(2 ** 31), D.Int64(2 ** 40), D.Double(2.5),
            D.Boolean(True), ipaddress.ip_address('1.2.3.4'), bytearray(b'zz'),
            D.ByteArray(b'xy'), D.Array([], signature='s'), D.Dictionary({}, signature='sv'),
            D.ObjectPath('/x'), D.Array([1, 2]), D.Dictionary({'a': 1}), D.Dictionary({'a': 1}, signature='sv'),
            D.String('lv', variant_level=1), D.Struct((1, 'a')), 'a\x00b', b'\xff', {'/a': 1}.keys(), iter(['a'])]


if __name__ == '__main__':
    res = run()
    sys.exit(1 if res else 0)
