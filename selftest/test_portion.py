'''Brute-force self-test of the portion stand-in against point-set models.'''
import itertools
import sys
sys.path.insert(0, '/verif/shims')
import portion as P


def pts_cont(iv, N):
    # model continuous domain on half-integers 0,0.5,...,N
    return frozenset(k for k in range(0, 2 * N + 1) if (k / 2) in iv)


def run():
    N = 6
    n = 0
    ctors = []
    for a in range(N + 1):
        for b in range(a, N + 1):
            ctors.append(('co', a, b, P.closedopen(a, b)))
            ctors.append(('cc', a, b, P.closed(a, b)))
            ctors.append(('oo', a, b, P.open(a, b)))
            ctors.append(('oc', a, b, P.openclosed(a, b)))

    def model(kind, a, b):
        s = set()
        for k in range(0, 2 * N + 1):
            v = k / 2
            lo = v > a or (v == a and kind[0] == 'c')
            up = v < b or (v == b and kind[1] == 'c')
            if lo and up:
                s.add(k)
        return frozenset(s)
    for (k, a, b, iv) in ctors:
        assert pts_cont(iv, N) == model(k, a, b), (k, a, b, iv)
        n += 1
    import random
    rnd = random.Random(1)
    sample = ctors
    # all pairs: union / intersection / equality / containment
    for (x, y) in itertools.product(sample, repeat=2):
        u = x[3] | y[3]
        i = x[3] & y[3]
        mx, my = model(*x[:3]), model(*y[:3])
        assert pts_cont(u, N) == mx | my, (x, y, u)
        assert pts_cont(i, N) == mx & my, (x, y, i)
        assert (x[3] == y[3]) == (mx == my), (x, y)
        assert (y[3] in x[3]) == (my <= mx), (x, y)
        n += 4
    # triples of closedopen (what the repository uses), all orders
    cos = [c for c in ctors if c[0] == 'co' and c[1] < c[2] and c[2] <= 5]
    for combo in itertools.product(cos, repeat=3):
        acc = P.empty()
        m = frozenset()
        for c in combo:
            acc |= c[3]
            m |= model(*c[:3])
        assert pts_cont(acc, N) == m
        # normal form: atomic pieces disjoint, sorted, non-adjacent
        pieces = list(acc)
        for (p, q) in zip(pieces, pieces[1:]):
            assert p.upper < q.lower
        # equality with a differently built equal set
        acc2 = P.empty()
        for c in reversed(combo):
            acc2 = c[3] | acc2
        assert acc == acc2 and hash(acc) == hash(acc2)
        assert list(P.iterate(acc, step=1)) == sorted(k // 2 for k in m if k % 2 == 0)
        n += 1

    # discrete API
    class II(P.AbstractDiscreteInterval):
        _step = 1
    api = P.create_api(II)
    for bits in range(1 << 8):
        S = [i for i in range(8) if bits >> i & 1]
        for order in (S, list(reversed(S))):
            acc = api.empty()
            for v in order:
                acc |= api.singleton(v)
            assert [v for v in range(-1, 10) if v in acc] == S
            assert list(P.iterate(acc, step=1)) == S
            if S and S == list(range(S[0], S[-1] + 1)):
                assert acc == api.closed(S[0], S[-1]), (S, acc)
                assert acc.atomic
            else:
                assert (not S) or acc != api.closed(S[0], S[-1])
            n += 1
    assert api.closedopen(0, 3) == api.closed(0, 2)
    assert api.open(0, 3) == api.closed(1, 2)
    assert api.closed(0, 1) | api.closed(2, 3) == api.closed(0, 3)
    assert P.closed(0, 1) | P.closed(2, 3) != P.closed(0, 3)
    assert P.closedopen(0, 2) | P.closedopen(2, 4) == P.closedopen(0, 4)
    assert P.closedopen(0, 0) == P.empty() and P.empty().empty
    import copy
    x = P.closedopen(1, 4) | P.closedopen(6, 7)
    assert copy.deepcopy(x) == x
    assert [(a.lower, a.upper) for a in x] == [(1, 4), (6, 7)]
    return n


if __name__ == '__main__':
    print('portion selftest cases', run())
