#!/bin/sh
# Offline set-up: nothing is compiled; run the stand-in self-tests.
set -e
cd /verif
mkdir -p evidence replays
/venv/bin/python selftest/test_portion.py
PYTHONPATH=/verif/shims /venv/bin/python -c "import crcmod.predefined as p; print('crcmod selftest', p._selftest())"
if /usr/bin/python3 -c "import dbus.lowlevel" 2>/dev/null; then
  /usr/bin/python3 selftest/test_dbus_marshal.py
else
  echo "dbus marshal selftest skipped (no real dbus-python for /usr/bin/python3)"
fi
PYTHONHASHSEED=0 /venv/bin/python -c "
import sys; sys.path.insert(0, '/verif')
from vmc import env
env.load_tcpcl('A'); env.load_tcpcl('B'); env.load_bp(); env.load_udpcl(); env.load_btpu()
print('repository modules import under the stand-ins')
"
echo setup-ok
