#!/bin/sh
# usage: ./run_all.sh quick|thorough [PROP...]   - runs the registered checks one after the other
TIER=${1:-quick}; shift
PROPS=${*:-C01 C02 C03 C04 C05 C06 C07 C08 C09 C10 C11 C12 C13 C14 C15 C16 C17 C18 C19 C20}
cd /verif
RC=0
for P in $PROPS; do
  PYTHONHASHSEED=0 /venv/bin/python -W ignore -m vmc.check $P --tier $TIER 2>&1 | grep "status=\|^VIOLATION\|^KNOWN-FINDING\|^HARNESS" | cut -c1-260
done
