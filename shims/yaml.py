'''Import-time stand-in for PyYAML: configuration objects are built in code by
the harness, so only a JSON-subset loader is provided.'''
import json


class YAMLError(Exception):
    pass


def safe_load(stream):
    text = stream.read() if hasattr(stream, 'read') else stream
    if isinstance(text, bytes):
        text = text.decode('utf-8')
    if not text.strip():
        return None
    try:
        return json.loads(text)
    except ValueError as err:
        raise YAMLError('stand-in loader only reads the JSON subset of YAML: {}'.format(err))


load = safe_load


def safe_dump(data, stream=None, **_kwargs):
    text = json.dumps(data)
    if stream is not None:
        stream.write(text)
        return None
    return text


dump = safe_dump
