'''Stand-in for the `portion` package (not installable in this sandbox).

Interval sets over an ordered domain (used with integers by the repository).
Implements the subset of the portion 2.x API that the repository (and plausible
edits of it) use: closed/open/closedopen/openclosed/singleton/empty, union,
intersection, containment, equality, hashing, iteration over atomic intervals,
`iterate`, `AbstractDiscreteInterval` and `create_api`.

Part of the verification harness, not of the repository.  Self-test:
selftest/test_shims.py compares it with a brute-force point-set model.
'''
import enum
from types import SimpleNamespace

__all__ = ['Bound', 'CLOSED', 'OPEN', 'Interval', 'AbstractDiscreteInterval',
           'closed', 'open', 'closedopen', 'openclosed', 'singleton', 'empty',
           'iterate', 'create_api', 'inf']


class Bound(enum.Enum):
    CLOSED = True
    OPEN = False

    def __invert__(self):
        return Bound.CLOSED if self is Bound.OPEN else Bound.OPEN

    def __bool__(self):
        raise ValueError('The truth value of a bound is ambiguous.')


CLOSED = Bound.CLOSED
OPEN = Bound.OPEN


class _PInf(object):
    def __neg__(self):
        return _NINF

    def __lt__(self, o):
        return False

    def __le__(self, o):
        return isinstance(o, _PInf)

    def __gt__(self, o):
        return not isinstance(o, _PInf)

    def __ge__(self, o):
        return True

    def __eq__(self, o):
        return isinstance(o, _PInf)

    def __hash__(self):
        return hash(float('+inf'))

    def __repr__(self):
        return '+inf'


class _NInf(object):
    def __neg__(self):
        return inf

    def __lt__(self, o):
        return not isinstance(o, _NInf)

    def __le__(self, o):
        return True

    def __gt__(self, o):
        return False

    def __ge__(self, o):
        return isinstance(o, _NInf)

    def __eq__(self, o):
        return isinstance(o, _NInf)

    def __hash__(self):
        return hash(float('-inf'))

    def __repr__(self):
        return '-inf'


inf = _PInf()
_NINF = _NInf()


def _is_empty_atomic(left, lower, upper, right):
    if lower > upper:
        return True
    if lower == upper and not (left is CLOSED and right is CLOSED):
        return True
    return False


class Interval(object):
    '''A union of atomic intervals, kept sorted, disjoint and merged.'''

    __slots__ = ('_intervals',)

    def __init__(self, *intervals):
        atoms = []
        for item in intervals:
            if isinstance(item, Interval):
                atoms.extend(item._intervals)
            else:
                raise TypeError('Parameters must be Interval instances')
        self._intervals = self._normalise(atoms)

    # -- construction helpers
    @classmethod
    def from_atomic(cls, left, lower, upper, right):
        obj = cls.__new__(cls)
        obj._intervals = obj._normalise([(left, lower, upper, right)])
        return obj

    @classmethod
    def _from_atoms(cls, atoms):
        obj = cls.__new__(cls)
        obj._intervals = obj._normalise(list(atoms))
        return obj

    def _adjust(self, atom):
        '''Hook for discrete subclasses to canonicalise one atomic interval.'''
        return atom

    def _mergeable(self, a, b):
        '''a and b are sorted (a first): can they be merged into one atomic?'''
        (_al, _alo, aup, ar) = a
        (bl, blo, _bup, _br) = b
        if aup > blo:
            return True
        if aup == blo:
            return ar is CLOSED or bl is CLOSED
        return False

    def _normalise(self, atoms):
        atoms = [self._adjust(a) for a in atoms]
        atoms = [a for a in atoms if not _is_empty_atomic(*a)]

        def key(a):
            (left, lower, _upper, _right) = a
            return (lower, 0 if left is CLOSED else 1)

        # sort needs a total order; emulate with manual insertion to honour inf
        out = []
        for a in atoms:
            idx = 0
            while idx < len(out):
                b = out[idx]
                if (a[1] < b[1]) or (a[1] == b[1] and a[0] is CLOSED and b[0] is OPEN):
                    break
                idx += 1
            out.insert(idx, a)
        merged = []
        for a in out:
            if merged and self._mergeable(merged[-1], a):
                p = merged[-1]
                if a[2] > p[2]:
                    upper, right = a[2], a[3]
                elif a[2] == p[2]:
                    upper = p[2]
                    right = CLOSED if (a[3] is CLOSED or p[3] is CLOSED) else OPEN
                else:
                    upper, right = p[2], p[3]
                merged[-1] = (p[0], p[1], upper, right)
            else:
                merged.append(a)
        return tuple(merged)

    # -- properties
    @property
    def empty(self):
        return len(self._intervals) == 0

    @property
    def atomic(self):
        return len(self._intervals) <= 1

    @property
    def left(self):
        return self._intervals[0][0] if self._intervals else OPEN

    @property
    def lower(self):
        return self._intervals[0][1] if self._intervals else inf

    @property
    def upper(self):
        return self._intervals[-1][2] if self._intervals else -inf

    @property
    def right(self):
        return self._intervals[-1][3] if self._intervals else OPEN

    @property
    def enclosure(self):
        if self.empty:
            return type(self)()
        return type(self).from_atomic(self.left, self.lower, self.upper, self.right)

    # -- set operations
    def __or__(self, other):
        if not isinstance(other, Interval):
            return NotImplemented
        return type(self)._from_atoms(self._intervals + other._intervals)

    __ror__ = __or__

    def union(self, other):
        return self | other

    def __and__(self, other):
        if not isinstance(other, Interval):
            return NotImplemented
        atoms = []
        for (al, alo, aup, ar) in self._intervals:
            for (bl, blo, bup, br) in other._intervals:
                if alo > blo or (alo == blo and al is OPEN):
                    lower, left = alo, al
                    if alo == blo and bl is OPEN:
                        left = OPEN
                else:
                    lower, left = blo, bl
                    if alo == blo and al is OPEN:
                        left = OPEN
                if aup < bup or (aup == bup and ar is OPEN):
                    upper, right = aup, ar
                    if aup == bup and br is OPEN:
                        right = OPEN
                else:
                    upper, right = bup, br
                    if aup == bup and ar is OPEN:
                        right = OPEN
                atoms.append((left, lower, upper, right))
        return type(self)._from_atoms(atoms)

    __rand__ = __and__

    def intersection(self, other):
        return self & other

    def overlaps(self, other):
        return not (self & other).empty

    def _contains_value(self, value):
        for (left, lower, upper, right) in self._intervals:
            lo_ok = value > lower or (value == lower and left is CLOSED)
            up_ok = value < upper or (value == upper and right is CLOSED)
            if lo_ok and up_ok:
                return True
        return False

    def __contains__(self, item):
        if isinstance(item, Interval):
            if item.empty:
                return True
            return (self & item) == item
        return self._contains_value(item)

    def contains(self, item):
        return item in self

    # -- comparison, hashing
    def __eq__(self, other):
        if not isinstance(other, Interval):
            return NotImplemented
        return self._intervals == other._intervals

    def __ne__(self, other):
        res = self.__eq__(other)
        if res is NotImplemented:
            return res
        return not res

    def __hash__(self):
        return hash(tuple((a[1], a[2]) for a in self._intervals))

    # -- iteration over atomic intervals
    def __len__(self):
        return len(self._intervals)

    def __iter__(self):
        for atom in self._intervals:
            yield type(self).from_atomic(*atom)

    def __getitem__(self, item):
        if isinstance(item, slice):
            return type(self)._from_atoms(self._intervals[item])
        return type(self).from_atomic(*self._intervals[item])

    def __bool__(self):
        raise ValueError('The truth value of an interval is ambiguous.')

    def __copy__(self):
        return self

    def __deepcopy__(self, memo):
        return self

    def __reduce__(self):
        return (_rebuild, (type(self), self._intervals))

    def __repr__(self):
        if self.empty:
            return '()'
        parts = []
        for (left, lower, upper, right) in self._intervals:
            if lower == upper:
                parts.append('[{!r}]'.format(lower))
            else:
                parts.append('{}{!r},{!r}{}'.format(
                    '[' if left is CLOSED else '(', lower, upper,
                    ']' if right is CLOSED else ')'))
        return ' | '.join(parts)


def _rebuild(cls, atoms):
    return cls._from_atoms(atoms)


class AbstractDiscreteInterval(Interval):
    '''Interval over a discrete domain with spacing `_step`: open bounds are
    converted to closed ones and adjacent atomic intervals merge.'''

    __slots__ = ()
    _step = None

    def _adjust(self, atom):
        (left, lower, upper, right) = atom
        step = self._step
        if left is OPEN and not isinstance(lower, (_PInf, _NInf)):
            lower, left = lower + step, CLOSED
        if right is OPEN and not isinstance(upper, (_PInf, _NInf)):
            upper, right = upper - step, CLOSED
        return (left, lower, upper, right)

    def _mergeable(self, a, b):
        if Interval._mergeable(self, a, b):
            return True
        (_al, _alo, aup, ar) = a
        (bl, blo, _bup, _br) = b
        if isinstance(aup, (_PInf, _NInf)) or isinstance(blo, (_PInf, _NInf)):
            return False
        return ar is CLOSED and bl is CLOSED and aup + self._step == blo


def iterate(interval, step, *, base=None, reverse=False):
    '''Iterate on the values of an interval with the given step.'''
    if base is None:
        def base(x):
            return x
    if reverse:
        raise NotImplementedError('reverse iteration is not provided by this stand-in')
    if interval.empty:
        return
    if isinstance(interval.lower, (_PInf, _NInf)):
        raise ValueError('Cannot start iteration with infinity.')
    for atom in interval:
        value = base(atom.lower)
        while value < atom.lower or (value == atom.lower and atom.left is OPEN):
            value = value + step
        while value in atom:
            yield value
            value = value + step


def _api_for(cls):
    def f_open(lower, upper):
        return cls.from_atomic(OPEN, lower, upper, OPEN)

    def f_closed(lower, upper):
        return cls.from_atomic(CLOSED, lower, upper, CLOSED)

    def f_openclosed(lower, upper):
        return cls.from_atomic(OPEN, lower, upper, CLOSED)

    def f_closedopen(lower, upper):
        return cls.from_atomic(CLOSED, lower, upper, OPEN)

    def f_singleton(value):
        return cls.from_atomic(CLOSED, value, value, CLOSED)

    def f_empty():
        return cls()

    return SimpleNamespace(
        open=f_open, closed=f_closed, openclosed=f_openclosed,
        closedopen=f_closedopen, singleton=f_singleton, empty=f_empty,
        Interval=cls, iterate=iterate, inf=inf, CLOSED=CLOSED, OPEN=OPEN,
        Bound=Bound,
    )


def create_api(interval, *args, **kwargs):
    '''Create a module-like API bound to the given Interval subclass.'''
    return _api_for(interval)


_default = _api_for(Interval)
open = _default.open  # noqa: A001
closed = _default.closed
openclosed = _default.openclosed
closedopen = _default.closedopen
singleton = _default.singleton
empty = _default.empty
