'''Stand-in for the `macaddress` package: hardware address value classes.'''
import re


class HWAddress(object):
    size = None
    formats = ()

    def __init__(self, address):
        nbytes = self.size // 8
        if isinstance(address, HWAddress):
            if type(address) is not type(self) and address.size != self.size:
                raise TypeError('incompatible address size')
            value = int(address)
        elif isinstance(address, int):
            if address < 0 or address >= (1 << self.size):
                raise ValueError('{!r} is out of range'.format(address))
            value = address
        elif isinstance(address, (bytes, bytearray)):
            if len(address) != nbytes:
                raise ValueError('{!r} has wrong length'.format(address))
            value = int.from_bytes(bytes(address), 'big')
        elif isinstance(address, str):
            text = address.strip()
            if re.fullmatch(r'[0-9A-Fa-f]{2}([:-][0-9A-Fa-f]{2}){%d}' % (nbytes - 1), text):
                value = int(re.sub(r'[:-]', '', text), 16)
            elif re.fullmatch(r'[0-9A-Fa-f]{%d}' % (2 * nbytes), text):
                value = int(text, 16)
            elif re.fullmatch(r'[0-9A-Fa-f]{4}(\.[0-9A-Fa-f]{4}){%d}' % (nbytes // 2 - 1), text):
                value = int(text.replace('.', ''), 16)
            else:
                raise ValueError('{!r} cannot be parsed as {}'.format(address, type(self).__name__))
        else:
            raise TypeError('{!r} is not a valid address type'.format(address))
        self._address = value

    def __int__(self):
        return self._address

    def __bytes__(self):
        return self._address.to_bytes(self.size // 8, 'big')

    def __str__(self):
        return '-'.join('{:02X}'.format(b) for b in bytes(self))

    def __repr__(self):
        return '{}({!r})'.format(type(self).__name__, str(self))

    def __eq__(self, other):
        if not isinstance(other, HWAddress):
            return NotImplemented
        return self.size == other.size and self._address == other._address

    def __ne__(self, other):
        res = self.__eq__(other)
        return res if res is NotImplemented else not res

    def __lt__(self, other):
        if not isinstance(other, HWAddress):
            return NotImplemented
        return (self.size, self._address) < (other.size, other._address)

    def __hash__(self):
        return hash((self.size, self._address))


class EUI48(HWAddress):
    size = 48


MAC = EUI48


class EUI64(HWAddress):
    size = 64
