'''Import-time stand-in for psutil.  The harness installs the interface table
through `set_net_if_addrs` (virtual interfaces for the BTP-U agent).'''
import collections
import socket

AF_LINK = getattr(socket, 'AF_PACKET', 17)

snicaddr = collections.namedtuple('snicaddr', ['family', 'address', 'netmask', 'broadcast', 'ptp'])

_IFACES = {}


def set_net_if_addrs(table):
    ''' table: dict ifname -> mac text '''
    _IFACES.clear()
    for (name, mac) in table.items():
        _IFACES[name] = [snicaddr(AF_LINK, mac, None, None, None)]


def net_if_addrs():
    return dict(_IFACES)
