'''Stand-in for the `crcmod` package (not installable in this sandbox).

Table-driven generic CRC with the two predefined algorithms the repository uses.
This is part of the verification harness, not of the repository.  The oracle CRC
in vmc/oracle/crc.py is a separate bit-serial implementation.
'''
from . import predefined  # noqa: F401


def _reflect(val, width):
    out = 0
    for _ in range(width):
        out = (out << 1) | (val & 1)
        val >>= 1
    return out


def _mk_table(poly, width, rev):
    mask = (1 << width) - 1
    table = []
    if rev:
        rpoly = _reflect(poly & mask, width)
        for i in range(256):
            crc = i
            for _ in range(8):
                crc = (crc >> 1) ^ rpoly if crc & 1 else crc >> 1
            table.append(crc & mask)
    else:
        top = 1 << (width - 1)
        for i in range(256):
            crc = i << (width - 8)
            for _ in range(8):
                crc = ((crc << 1) ^ poly) if crc & top else (crc << 1)
            table.append(crc & mask)
    return table


def mkCrcFun(poly, initCrc=None, rev=True, xorOut=0):
    width = poly.bit_length() - 1
    mask = (1 << width) - 1
    table = _mk_table(poly & mask, width, rev)
    if initCrc is None:
        initCrc = mask
    # crcmod convention: initCrc is the value *after* xorOut
    start = (initCrc ^ xorOut) & mask

    if rev:
        def crcfun(data, crc=None):
            reg = start if crc is None else (crc ^ xorOut) & mask
            for octet in bytes(data):
                reg = (reg >> 8) ^ table[(reg ^ octet) & 0xFF]
            return (reg ^ xorOut) & mask
    else:
        def crcfun(data, crc=None):
            reg = start if crc is None else (crc ^ xorOut) & mask
            for octet in bytes(data):
                reg = ((reg << 8) & mask) ^ table[((reg >> (width - 8)) ^ octet) & 0xFF]
            return (reg ^ xorOut) & mask
    return crcfun
