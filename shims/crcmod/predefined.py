'''Predefined CRC catalogue subset (name, poly, reversed, init-register, xorOut, check).'''
import crcmod as _crcmod

_DEFS = {
    'x-25': (0x11021, True, 0xFFFF, 0xFFFF, 0x906E),
    'crc-16': (0x18005, True, 0x0000, 0x0000, 0xBB3D),
    'crc-ccitt-false': (0x11021, False, 0xFFFF, 0x0000, 0x29B1),
    'xmodem': (0x11021, False, 0x0000, 0x0000, 0x31C3),
    'kermit': (0x11021, True, 0x0000, 0x0000, 0x2189),
    'crc-32': (0x104C11DB7, True, 0xFFFFFFFF, 0xFFFFFFFF, 0xCBF43926),
    'crc-32c': (0x11EDC6F41, True, 0xFFFFFFFF, 0xFFFFFFFF, 0xE3069283),
}


def _norm(name):
    return name.lower().replace('_', '-')


def mkPredefinedCrcFun(crc_name):
    try:
        poly, rev, reg_init, xor_out, _check = _DEFS[_norm(crc_name)]
    except KeyError:
        raise KeyError("Unknown CRC name '%s'" % crc_name)
    # crcmod's initCrc is post-xorOut
    return _crcmod.mkCrcFun(poly, initCrc=reg_init ^ xor_out, rev=rev, xorOut=xor_out)


mkCrcFun = mkPredefinedCrcFun


def _selftest():
    for name, (_p, _r, _i, _x, check) in _DEFS.items():
        got = mkPredefinedCrcFun(name)(b'123456789')
        assert got == check, (name, hex(got), hex(check))
    return len(_DEFS)
