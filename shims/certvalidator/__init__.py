'''Stand-in for `certvalidator` (its oscrypto backend cannot load libcrypto in
this sandbox): certificate path validation with `cryptography`.

Implements what the repository uses: ValidationContext(trust_roots, other_certs,
moment) and CertificateValidator(end_entity_cert, intermediate_certs,
validation_context).validate_usage(key_usage, extended_key_usage,
extended_optional).  Part of the harness' trusted base for x5chain cases.'''
import datetime

from cryptography import x509
from cryptography.hazmat.backends import default_backend

from . import errors  # noqa: F401
from .errors import PathValidationError, PathBuildingError, InvalidCertificateError


def _load(cert):
    if isinstance(cert, x509.Certificate):
        return cert
    if isinstance(cert, (bytes, bytearray)):
        data = bytes(cert)
        if data.lstrip().startswith(b'-----BEGIN'):
            return x509.load_pem_x509_certificate(data, default_backend())
        return x509.load_der_x509_certificate(data, default_backend())
    dump = getattr(cert, 'dump', None)
    if dump is not None:
        return x509.load_der_x509_certificate(dump(), default_backend())
    raise TypeError('certificate must be DER/PEM bytes or a Certificate, not %s' % type(cert).__name__)


class ValidationContext(object):
    def __init__(self, trust_roots=None, extra_trust_roots=None, other_certs=None,
                 whitelisted_certs=None, moment=None, allow_fetching=False, crls=None,
                 crl_fetch_params=None, ocsps=None, ocsp_fetch_params=None,
                 revocation_mode='soft-fail', weak_hash_algos=None):
        self.trust_roots = [_load(c) for c in (trust_roots or [])] + [_load(c) for c in (extra_trust_roots or [])]
        self.other_certs = [_load(c) for c in (other_certs or [])]
        if moment is None:
            moment = datetime.datetime.now(datetime.timezone.utc)
        if moment.tzinfo is None:
            raise ValueError('moment is a naive datetime object, meaning the tzinfo attribute is not set to a valid timezone')
        self.moment = moment


_KU_NAMES = {
    'digital_signature': 'digital_signature',
    'non_repudiation': 'content_commitment',
    'key_encipherment': 'key_encipherment',
    'data_encipherment': 'data_encipherment',
    'key_agreement': 'key_agreement',
    'key_cert_sign': 'key_cert_sign',
    'crl_sign': 'crl_sign',
}


def _valid_at(cert, moment):
    try:
        nvb, nva = cert.not_valid_before_utc, cert.not_valid_after_utc
    except AttributeError:
        nvb = cert.not_valid_before.replace(tzinfo=datetime.timezone.utc)
        nva = cert.not_valid_after.replace(tzinfo=datetime.timezone.utc)
    return nvb <= moment <= nva


class CertificateValidator(object):
    def __init__(self, end_entity_cert, intermediate_certs=None, validation_context=None):
        self._cert = _load(end_entity_cert)
        self._inter = [_load(c) for c in (intermediate_certs or [])]
        if validation_context is None:
            validation_context = ValidationContext()
        self._ctx = validation_context
        self._path = None

    def _issued_by(self, cert, issuer):
        if cert.issuer != issuer.subject:
            return False
        try:
            cert.verify_directly_issued_by(issuer)
            return True
        except Exception:
            return False

    def _build_path(self):
        if self._path is not None:
            return self._path
        roots = self._ctx.trust_roots
        pool = self._inter + self._ctx.other_certs
        moment = self._ctx.moment
        path = [self._cert]
        cur = self._cert
        for _ in range(16):
            if not _valid_at(cur, moment):
                raise PathValidationError('The path could not be validated because a certificate is outside its validity period')
            for root in roots:
                if cur == root or self._issued_by(cur, root):
                    if cur != root:
                        if not _valid_at(root, moment):
                            raise PathValidationError('The path could not be validated because the trust root is outside its validity period')
                        path.append(root)
                    self._path = path
                    return path
            nxt = None
            for cand in pool:
                if cand in path:
                    continue
                if self._issued_by(cur, cand):
                    nxt = cand
                    break
            if nxt is None:
                raise PathBuildingError('Unable to build a validation path for the certificate - no issuer matching was found')
            try:
                bc = nxt.extensions.get_extension_for_class(x509.BasicConstraints).value
                if not bc.ca:
                    raise PathValidationError('The path could not be validated because an intermediate certificate is not a CA')
            except x509.ExtensionNotFound:
                raise PathValidationError('The path could not be validated because an intermediate certificate is not a CA')
            path.append(nxt)
            cur = nxt
        raise PathBuildingError('Unable to build a validation path for the certificate - too long')

    def validate_usage(self, key_usage, extended_key_usage=None, extended_optional=False):
        path = self._build_path()
        cert = self._cert
        missing = []
        try:
            ku = cert.extensions.get_extension_for_class(x509.KeyUsage).value
        except x509.ExtensionNotFound:
            ku = None
        if ku is not None:
            for name in key_usage:
                attr = _KU_NAMES.get(name, name)
                if not getattr(ku, attr):
                    missing.append(name)
        elif key_usage:
            # certvalidator requires the extension when usages are requested
            missing.extend(sorted(key_usage))
        if missing:
            raise InvalidCertificateError('The X.509 certificate provided is not valid for the purpose of %s' % ', '.join(sorted(missing)))
        if extended_key_usage:
            try:
                eku = cert.extensions.get_extension_for_class(x509.ExtendedKeyUsage).value
                present = {oid.dotted_string for oid in eku}
            except x509.ExtensionNotFound:
                present = None
            if present is None:
                if not extended_optional:
                    raise InvalidCertificateError('The X.509 certificate provided is not valid for the extended purposes requested')
            else:
                want = set(extended_key_usage)
                if not want <= present and '2.5.29.37.0' not in present:
                    raise InvalidCertificateError('The X.509 certificate provided is not valid for the extended purposes requested')
        return path

    def validate_tls(self, hostname):
        return self.validate_usage({'digital_signature', 'key_encipherment'}, {'1.3.6.1.5.5.7.3.1'}, True)
