class PathError(Exception):
    pass


class PathBuildingError(PathError):
    pass


class PathValidationError(PathError):
    pass


class RevokedError(PathValidationError):
    pass


class InvalidCertificateError(PathError):
    pass


class ValidationError(Exception):
    pass
