'''Stand-in for PyGObject (`gi`), providing only gi.repository.GLib as a
*virtual*, harness-controlled main loop.  Part of the verification harness.'''
__version__ = '0.0-verif-shim'


def require_version(_namespace, _version):
    return None
