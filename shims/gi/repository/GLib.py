'''Virtual GLib main context: the controlled scheduler of the model checker.

Semantics follow GLib 2.x / PyGObject 3.42 as probed on this image's system
python (see DESIGN.md 3.2):

* sources of a context are kept per priority in attach order;
* one iteration = poll, then dispatch *all* sources found ready at the best
  (numerically lowest) priority that has a ready source; default priority for
  io watches and timeouts is 0, for idle sources 200, so idle callbacks run only
  in iterations where no io/timeout source is ready;
* a source destroyed by an earlier callback of the same iteration is skipped;
  a source added during dispatch waits for the next poll;
* a falsy return value, or an exception escaping the callback, destroys the
  source (PyGObject prints the exception and treats the result as False);
* `source_remove` of an unknown id warns and returns False.

Nothing here runs by itself: the harness (vmc.world) owns `Context` objects,
selects the current one with `set_current`, and asks it to poll / dispatch one
callback at a time.
'''
import sys
import traceback

IO_IN = 1
IO_PRI = 2
IO_OUT = 4
IO_ERR = 8
IO_HUP = 16
IO_NVAL = 32

PRIORITY_HIGH = -100
PRIORITY_DEFAULT = 0
PRIORITY_HIGH_IDLE = 100
PRIORITY_DEFAULT_IDLE = 200
PRIORITY_LOW = 300

SOURCE_CONTINUE = True
SOURCE_REMOVE = False


class Error(Exception):
    pass


GError = Error


class SourceId(int):
    '''Source identifiers are a recognisable int subclass so the state
    canonicaliser can rank them instead of hashing raw numbers.'''
    __slots__ = ()

    def __repr__(self):
        return 'SourceId(%d)' % int(self)

    def __deepcopy__(self, memo):
        return self

    def __copy__(self):
        return self


class Source(object):
    __slots__ = ('sid', 'kind', 'priority', 'func', 'args', 'chan', 'cond',
                 'interval_us', 'deadline_us', 'alive')

    def __init__(self, sid, kind, priority, func, args):
        self.sid = sid
        self.kind = kind  # 'idle' | 'timeout' | 'io'
        self.priority = priority
        self.func = func
        self.args = tuple(args)
        self.chan = None
        self.cond = 0
        self.interval_us = None
        self.deadline_us = None
        self.alive = True

    def describe(self):
        if self.kind == 'io':
            return 'io-%s' % ('in' if self.cond & IO_IN else 'out' if self.cond & IO_OUT else str(self.cond))
        return self.kind


class Clock(object):
    '''Virtual time in integer microseconds, shared by all contexts of a world.'''
    __slots__ = ('now_us',)

    def __init__(self, now_us=0):
        self.now_us = now_us


class Escaped(object):
    '''Record of an exception that left an event-loop callback.'''
    __slots__ = ('exc_type', 'exc_text', 'source_kind', 'tb')

    def __init__(self, exc_type, exc_text, source_kind, tb):
        self.exc_type = exc_type
        self.exc_text = exc_text
        self.source_kind = source_kind
        self.tb = tb


class Context(object):
    '''One simulated process's default main context.'''

    def __init__(self, name, clock):
        self.name = name
        self.clock = clock
        self.sources = []   # attach order
        self.next_id = 1
        self.pending = []   # sources selected by the last poll, not yet dispatched
        self.escaped = []   # Escaped records not yet consumed by a monitor
        self.warnings = []  # GLib-CRITICAL style warnings
        self.issued = set()  # source ids handed out by this context
        self.quit_requested = False

    # ---- registration (called by the code under test through the module API)
    def _add(self, kind, priority, func, args):
        if not callable(func):
            raise TypeError('callback must be callable')
        # identifiers are unique across all contexts of the interpreter (as they are
        # process-wide in real GLib): a stale id kept by an object of a discarded world
        # (e.g. released from a __del__) can never hit a source of a live one
        global _NEXT_SOURCE_ID
        src = Source(SourceId(_NEXT_SOURCE_ID), kind, priority, func, args)
        self.issued.add(_NEXT_SOURCE_ID)
        _NEXT_SOURCE_ID += 1
        self.next_id += 1
        self.sources.append(src)
        return src

    def find(self, sid):
        for src in self.sources:
            if src.sid == sid and src.alive:
                return src
        return None

    def remove(self, sid):
        src = self.find(sid)
        if src is None and int(sid) not in self.issued:
            # an id of some other (discarded) world, released from a finaliser that happens
            # to run now: nothing of this context is concerned, and nothing may be recorded
            # (the moment a finaliser runs is not under the harness' control)
            return False
        if src is None:
            self.warnings.append('Source ID %d was not found when attempting to remove it' % int(sid))
            return False
        src.alive = False
        self.sources.remove(src)
        return True

    # ---- polling
    def _is_ready(self, src, env):
        if src.kind == 'idle':
            return True
        if src.kind == 'timeout':
            return self.clock.now_us >= src.deadline_us
        if src.kind == 'io':
            chan = src.chan
            ready = getattr(chan, '_v_poll', None)
            if ready is None:
                return False
            return bool(ready(env) & src.cond)
        return False

    def poll(self, env=None):
        '''Compute the dispatch list of one iteration (does not dispatch).'''
        best = None
        ready = []
        for src in self.sources:
            if not src.alive:
                continue
            if self._is_ready(src, env):
                if best is None or src.priority < best:
                    best = src.priority
                ready.append(src)
        return [src for src in ready if src.priority == best]

    def has_live_pending(self):
        return any(src.alive for src in self.pending)

    def next_deadline(self):
        vals = [src.deadline_us for src in self.sources if src.alive and src.kind == 'timeout']
        return min(vals) if vals else None

    # ---- dispatch exactly one callback
    def dispatch_one(self, env=None):
        '''Dispatch the next callback of the current iteration, polling first
        when the previous iteration is finished.  Returns the Source that was
        dispatched or None if nothing was ready.'''
        while self.pending and not self.pending[0].alive:
            self.pending.pop(0)
        if not self.pending:
            self.pending = self.poll(env)
            if not self.pending:
                return None
        src = self.pending.pop(0)
        prev = set_current(self)
        try:
            try:
                if src.kind == 'io':
                    keep = src.func(src.chan, src.cond, *src.args)
                else:
                    keep = src.func(*src.args)
            except Exception as err:  # PyGObject prints and carries on
                keep = False
                self.escaped.append(Escaped(
                    type(err).__name__, str(err), src.describe(),
                    traceback.format_exc()))
        finally:
            set_current(prev)
        if src.alive:
            if not keep:
                src.alive = False
                try:
                    self.sources.remove(src)
                except ValueError:
                    pass
            elif src.kind == 'timeout':
                src.deadline_us = self.clock.now_us + src.interval_us
        # drop dead entries so the canonical form does not depend on them
        while self.pending and not self.pending[0].alive:
            self.pending.pop(0)
        return src


_current = None
_NEXT_SOURCE_ID = 1


def set_current(ctx):
    global _current
    prev = _current
    _current = ctx
    return prev


def get_current():
    return _current


def _ctx():
    if _current is None:
        raise RuntimeError('virtual GLib used outside of a harness-selected context')
    return _current


def idle_add(function, *user_data, **kwargs):
    priority = kwargs.get('priority', PRIORITY_DEFAULT_IDLE)
    src = _ctx()._add('idle', priority, function, user_data)
    return src.sid


def timeout_add(interval, function, *user_data, **kwargs):
    priority = kwargs.get('priority', PRIORITY_DEFAULT)
    if not isinstance(interval, int) or isinstance(interval, bool):
        raise TypeError('Must be number, not %s' % type(interval).__name__)
    if interval < 0 or interval > 0xFFFFFFFF:
        raise OverflowError('%d not in range 0 to 4294967295' % interval)
    ctx = _ctx()
    src = ctx._add('timeout', priority, function, user_data)
    src.interval_us = interval * 1000
    src.deadline_us = ctx.clock.now_us + src.interval_us
    return src.sid


def timeout_add_seconds(interval, function, *user_data, **kwargs):
    return timeout_add(interval * 1000, function, *user_data, **kwargs)


def io_add_watch(channel, priority_, condition=None, *cb_and_user_data, **kwargs):
    if not isinstance(priority_, int) or isinstance(priority_, bool) or condition is None or callable(condition):
        # deprecated calling convention without priority (what the repository uses)
        user_data = cb_and_user_data
        callback = condition
        condition = priority_
        if not callable(callback):
            raise TypeError('third argument must be callable')
        priority_ = kwargs.get('priority', PRIORITY_DEFAULT)
    else:
        if len(cb_and_user_data) < 1 or not callable(cb_and_user_data[0]):
            raise TypeError('expecting callback as fourth argument')
        callback = cb_and_user_data[0]
        user_data = cb_and_user_data[1:]
    if isinstance(channel, int) or not hasattr(channel, 'fileno'):
        # PyGObject: assert isinstance(channel, GLib.IOChannel)
        raise AssertionError('io_add_watch: channel %r is not a file-like object' % (channel,))
    src = _ctx()._add('io', priority_, callback, user_data)
    src.chan = channel
    src.cond = int(condition)
    return src.sid


def source_remove(tag):
    if _current is None:
        # called from a finaliser of an object whose world is gone
        return False
    return _ctx().remove(tag)


def get_monotonic_time():
    return _ctx().clock.now_us


def get_real_time():
    return _ctx().clock.now_us


class MainLoop(object):
    '''Only the constructor and quit() are usable: the harness drives contexts.'''

    def __init__(self, context=None):
        self._ctx = get_current()

    def run(self):
        raise RuntimeError('MainLoop.run() is not available under the virtual GLib')

    def quit(self):
        if self._ctx is not None:
            self._ctx.quit_requested = True

    def is_running(self):
        return False


class MainContext(object):
    @staticmethod
    def default():
        return get_current()
