from . import GLib  # noqa: F401
