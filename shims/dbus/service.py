'''Service side of the stand-in: exported objects, method/signal decorators.

A signal emission is marshalled against the declared signature for every
location the object is exported at, exactly where dbus-python does it: after
the decorated function body ran, and the marshalling error (TypeError,
ValueError, OverflowError, ...) propagates into the emitting code.'''
import inspect

from . import _marshal
from ._types import Signature, split_signature, valid_object_path
from .exceptions import DBusException, NameExistsException
from . import bus as _bus


class BusName(object):
    def __new__(cls, name, bus=None, allow_replacement=False, replace_existing=False, do_not_queue=False):
        if bus is None:
            raise TypeError('stand-in BusName needs an explicit bus')
        res = bus.request_name(name, 0)
        if res == _bus.REQUEST_NAME_REPLY_EXISTS:
            raise NameExistsException(name)
        self = object.__new__(cls)
        self._bus = bus
        self._name = name
        return self

    def __init__(self, *args, **keywords):
        pass

    def get_bus(self):
        return self._bus

    def get_name(self):
        return self._name

    def __repr__(self):
        return '<dbus.service.BusName %s on %r>' % (self._name, self._bus)


def method(dbus_interface, in_signature=None, out_signature=None, async_callbacks=None,
           sender_keyword=None, path_keyword=None, destination_keyword=None,
           message_keyword=None, connection_keyword=None, byte_arrays=False,
           rel_path_keyword=None, **kwargs):
    def decorator(func):
        args = list(inspect.getfullargspec(func)[0])
        args.pop(0)
        if in_signature:
            in_sig = tuple(split_signature(in_signature))
            if len(in_sig) > len(args):
                raise ValueError('input signature is longer than the number of arguments taken')
            elif len(in_sig) < len(args):
                raise ValueError('input signature is shorter than the number of arguments taken')
        if out_signature:
            split_signature(out_signature)
        func._dbus_is_method = True
        func._dbus_async_callbacks = async_callbacks
        func._dbus_interface = dbus_interface
        func._dbus_in_signature = in_signature
        func._dbus_out_signature = out_signature
        func._dbus_args = args
        return func
    return decorator


def signal(dbus_interface, signature=None, path_keyword=None, rel_path_keyword=None):
    def decorator(func):
        member_name = func.__name__
        args = list(inspect.getfullargspec(func)[0])
        args.pop(0)
        if signature:
            sig = tuple(split_signature(signature))
            if len(sig) > len(args):
                raise ValueError('signal signature is longer than the number of arguments provided')
            elif len(sig) < len(args):
                raise ValueError('signal signature is shorter than the number of arguments provided')

        def emit_signal(self, *args, **keywords):
            func(self, *args, **keywords)
            for location in self.locations:
                conn, object_path = location[0], location[1]
                try:
                    values = _marshal.append(signature, args)
                except Exception as err:
                    conn.record(('signal-marshal-error', object_path, member_name,
                                 str(signature), type(err).__name__, str(err),
                                 tuple(_describe(a) for a in args)))
                    raise
                conn.record(('signal', object_path, dbus_interface, member_name, tuple(values)))
                conn.deliver_signal(object_path, dbus_interface, member_name, values)

        emit_signal.__name__ = func.__name__
        emit_signal.__doc__ = func.__doc__
        emit_signal._dbus_is_signal = True
        emit_signal._dbus_interface = dbus_interface
        emit_signal._dbus_signature = signature
        emit_signal._dbus_args = args
        return emit_signal
    return decorator


def _describe(val):
    text = repr(val)
    return '%s:%s' % (type(val).__name__, text if len(text) < 60 else text[:57] + '...')


class Object(object):
    SUPPORTS_MULTIPLE_OBJECT_PATHS = False
    SUPPORTS_MULTIPLE_CONNECTIONS = False

    def __init__(self, conn=None, object_path=None, bus_name=None):
        if object_path is not None and not valid_object_path(object_path):
            raise ValueError('Invalid object path %r' % (object_path,))
        if isinstance(conn, BusName):
            bus_name = conn
            conn = bus_name.get_bus()
        elif conn is None:
            if bus_name is not None:
                conn = bus_name.get_bus()
        self._object_path = None
        self._connection = None
        self._locations = []
        self._fallback = False
        self._name = bus_name
        if conn is None and object_path is not None:
            raise TypeError('If object_path is given, either conn or bus_name is required')
        if conn is not None and object_path is not None:
            self.add_to_connection(conn, object_path)

    @property
    def __dbus_object_path__(self):
        return self._object_path

    @property
    def connection(self):
        return self._connection

    @property
    def locations(self):
        return iter(self._locations)

    def add_to_connection(self, connection, path):
        if path == '/org/freedesktop/DBus/Local':
            raise ValueError('Objects may not be exported on the reserved path')
        if self._connection is not None and self._connection is not connection and not self.SUPPORTS_MULTIPLE_CONNECTIONS:
            raise ValueError('%r is already exported on connection %r' % (self, self._connection))
        if self._object_path is not None and not self.SUPPORTS_MULTIPLE_OBJECT_PATHS:
            raise ValueError('%r is already exported at object path %s' % (self, self._object_path))
        connection._register_object_path(path, self)
        self._connection = connection
        self._object_path = path
        self._locations.append((connection, path, self._fallback))

    def remove_from_connection(self, connection=None, path=None):
        if self._object_path is None or self._connection is None:
            raise LookupError('%r is not exported' % self)
        if connection is not None or path is not None:
            dropped = []
            for location in self._locations:
                if ((connection is None or location[0] is connection) and
                        (path is None or location[1] == path)):
                    dropped.append(location)
        else:
            dropped = self._locations
            self._locations = []
        if not dropped:
            raise LookupError('%r is not exported at a location matching (%r,%r)' % (self, connection, path))
        for location in dropped:
            try:
                location[0]._unregister_object_path(location[1])
            except LookupError:
                pass
            if self._locations:
                try:
                    self._locations.remove(location)
                except ValueError:
                    pass
        if not self._locations:
            self._object_path = None
            self._connection = None

    def __repr__(self):
        where = ''
        if self._object_path is not None:
            where = ' at %s' % self._object_path
        return '<%s.%s%s at %#x>' % (self.__class__.__module__, self.__class__.__name__, where, id(self))
    __str__ = __repr__


class FallbackObject(Object):
    SUPPORTS_MULTIPLE_OBJECT_PATHS = True
