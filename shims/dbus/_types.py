'''D-Bus value classes mirroring dbus-python's (pure Python).'''


class _Lvl(object):
    __slots__ = ()


def _mk_int(name, lo, hi):
    class _I(int):

        def __new__(cls, value=0, variant_level=0):
            value = int(value)
            if lo is not None and not (lo <= value <= hi):
                raise OverflowError('Value %d out of range for %s' % (value, name))
            self = int.__new__(cls, value)
            self.variant_level = variant_level
            return self

        def __repr__(self):
            if self.variant_level:
                return 'dbus.%s(%d, variant_level=%d)' % (name, int(self), self.variant_level)
            return 'dbus.%s(%d)' % (name, int(self))

        def __deepcopy__(self, memo):
            return self

        def __reduce__(self):
            return (type(self), (int(self), self.variant_level))
    _I.__name__ = name
    _I.__qualname__ = name
    return _I


Byte = _mk_int('Byte', 0, 255)
Int16 = _mk_int('Int16', -2 ** 15, 2 ** 15 - 1)
UInt16 = _mk_int('UInt16', 0, 2 ** 16 - 1)
Int32 = _mk_int('Int32', -2 ** 31, 2 ** 31 - 1)
UInt32 = _mk_int('UInt32', 0, 2 ** 32 - 1)
Int64 = _mk_int('Int64', -2 ** 63, 2 ** 63 - 1)
UInt64 = _mk_int('UInt64', 0, 2 ** 64 - 1)


class Boolean(int):

    def __new__(cls, value=False, variant_level=0):
        self = int.__new__(cls, 1 if value else 0)
        self.variant_level = variant_level
        return self

    def __repr__(self):
        if self.variant_level:
            return 'dbus.Boolean(%s, variant_level=%d)' % (bool(self), self.variant_level)
        return 'dbus.Boolean(%s)' % bool(self)

    def __deepcopy__(self, memo):
        return self

    def __reduce__(self):
        return (Boolean, (bool(self), self.variant_level))


class Double(float):

    def __new__(cls, value=0.0, variant_level=0):
        self = float.__new__(cls, value)
        self.variant_level = variant_level
        return self

    def __repr__(self):
        if self.variant_level:
            return 'dbus.Double(%r, variant_level=%d)' % (float(self), self.variant_level)
        return 'dbus.Double(%r)' % float(self)

    def __reduce__(self):
        return (Double, (float(self), self.variant_level))


class _Str(str):
    _name = 'String'

    def __new__(cls, value='', variant_level=0):
        if isinstance(value, bytes):
            value = value.decode('utf-8')
        self = str.__new__(cls, value)
        self.variant_level = variant_level
        return self

    def __repr__(self):
        if self.variant_level:
            return 'dbus.%s(%s, variant_level=%d)' % (self._name, str.__repr__(self), self.variant_level)
        return 'dbus.%s(%s)' % (self._name, str.__repr__(self))

    def __reduce__(self):
        return (type(self), (str(self), self.variant_level))


class String(_Str):
    _name = 'String'


class ObjectPath(_Str):
    _name = 'ObjectPath'

    def __new__(cls, value='/', variant_level=0):
        if not valid_object_path(value):
            raise ValueError('Invalid object path %r' % (value,))
        return _Str.__new__(cls, value, variant_level)


class Signature(_Str):
    _name = 'Signature'

    def __iter__(self):
        return iter(split_signature(str(self)))


class ByteArray(bytes):
    def __new__(cls, value=b'', variant_level=0):
        if isinstance(value, str):
            value = value.encode('latin-1')
        self = bytes.__new__(cls, value)
        self.variant_level = variant_level
        return self

    def __repr__(self):
        return 'dbus.ByteArray(%s)' % bytes.__repr__(self)

    def __reduce__(self):
        return (ByteArray, (bytes(self), self.variant_level))


class Array(list):
    def __init__(self, iterable=(), signature=None, variant_level=0):
        list.__init__(self, iterable)
        self.signature = None if signature is None else Signature(signature)
        self.variant_level = variant_level

    def __repr__(self):
        extra = ''
        if self.variant_level:
            extra = ', variant_level=%d' % self.variant_level
        return 'dbus.Array(%s, signature=%r%s)' % (list.__repr__(self), self.signature, extra)


class Dictionary(dict):
    def __init__(self, mapping_or_iterable=(), signature=None, variant_level=0):
        dict.__init__(self, mapping_or_iterable)
        self.signature = None if signature is None else Signature(signature)
        self.variant_level = variant_level

    def __repr__(self):
        extra = ''
        if self.variant_level:
            extra = ', variant_level=%d' % self.variant_level
        return 'dbus.Dictionary(%s, signature=%r%s)' % (dict.__repr__(self), self.signature, extra)


class Struct(tuple):
    def __new__(cls, iterable=(), signature=None, variant_level=0):
        self = tuple.__new__(cls, iterable)
        self.signature = None if signature is None else Signature(signature)
        self.variant_level = variant_level
        return self

    def __repr__(self):
        extra = ''
        if self.variant_level:
            extra = ', variant_level=%d' % self.variant_level
        return 'dbus.Struct(%s, signature=%r%s)' % (tuple.__repr__(self), self.signature, extra)


def valid_object_path(path):
    if not isinstance(path, str) or not path.startswith('/'):
        return False
    if path == '/':
        return True
    if path.endswith('/'):
        return False
    import re
    return all(re.fullmatch(r'[A-Za-z0-9_]+', part) for part in path[1:].split('/'))


def split_signature(sig):
    '''Split a signature string into its complete types.'''
    out = []
    pos = 0
    while pos < len(sig):
        end = _one_type_end(sig, pos)
        out.append(sig[pos:end])
        pos = end
    return out


_BASIC = 'ybnqiuxtdsogh'


def _one_type_end(sig, pos):
    if pos >= len(sig):
        raise ValueError('Corrupt type signature')
    ch = sig[pos]
    if ch in _BASIC or ch == 'v':
        return pos + 1
    if ch == 'a':
        return _one_type_end(sig, pos + 1)
    if ch in '({':
        close = ')' if ch == '(' else '}'
        cur = pos + 1
        count = 0
        while True:
            if cur >= len(sig):
                raise ValueError('Corrupt type signature')
            if sig[cur] == close:
                break
            cur = _one_type_end(sig, cur)
            count += 1
        if count == 0 or (ch == '{' and count != 2):
            raise ValueError('Corrupt type signature')
        return cur + 1
    raise ValueError('Corrupt type signature')
