'''Stand-in for dbus-python: value classes, a loop-back recording bus and the
service decorators.  Part of the verification harness, not of the repository.
Marshalling follows rules probed from real dbus-python 1.3.2 (see _marshal).'''
__version__ = '1.3.2-verif-shim'
version = (1, 3, 2)

from ._types import (  # noqa: F401
    Byte, Boolean, Int16, UInt16, Int32, UInt32, Int64, UInt64, Double,
    String, ObjectPath, Signature, ByteArray, Array, Dictionary, Struct,
)
from .exceptions import (  # noqa: F401
    DBusException, MissingErrorHandlerException, MissingReplyHandlerException,
    ValidationException, IntrospectionParserException, UnknownMethodException,
    NameExistsException,
)
from . import exceptions  # noqa: F401
from . import bus  # noqa: F401
from .bus import BusConnection, SessionBus, SystemBus  # noqa: F401
from .proxies import Interface, ProxyObject  # noqa: F401
from . import proxies  # noqa: F401
from . import service  # noqa: F401

UTF8String = String
Bus = BusConnection


def set_default_main_loop(_loop):
    return None
