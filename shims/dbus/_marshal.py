'''Marshalling rules of dbus-python 1.3.2 `Message.append(*args, signature=...)`
re-stated in Python from probes of the real library on this image
(selftest/test_dbus_marshal.py re-runs the probe corpus against the real
library when it is importable).  `append` returns the values as the receiving
side would unmarshal them, or raises what dbus-python raises.'''
import operator

from ._types import (
    Byte, Boolean, Int16, UInt16, Int32, UInt32, Int64, UInt64, Double,
    String, ObjectPath, Signature, ByteArray, Array, Dictionary, Struct,
    split_signature, valid_object_path,
)

_C_LONG_MIN = -2 ** 63
_C_LONG_MAX = 2 ** 63 - 1


def _index_long(obj):
    if isinstance(obj, int):
        val = int(obj)
    else:
        idx = getattr(type(obj), '__index__', None)
        if idx is None:
            raise TypeError("'%s' object cannot be interpreted as an integer" % _tname(obj))
        val = operator.index(obj)
    if not (_C_LONG_MIN <= val <= _C_LONG_MAX):
        raise OverflowError('Python int too large to convert to C long')
    return val


def _tname(obj):
    cls = type(obj)
    if cls.__module__.startswith('dbus') or cls.__module__.endswith('_types'):
        return 'dbus.' + cls.__name__
    return cls.__name__


def _small_int(cls, name, lo, hi):
    def conv(obj, lvl):
        val = _index_long(obj)
        if not (lo <= val <= hi):
            raise OverflowError('Value %d out of range for %s' % (val, name))
        return cls(val, variant_level=lvl)
    return conv


def _big_int(cls, lo, hi):
    def conv(obj, lvl):
        val = int(obj)  # PyNumber_Long: accepts str, float, __int__, __index__
        if not (lo <= val <= hi):
            raise OverflowError('int out of range for D-Bus type')
        return cls(val, variant_level=lvl)
    return conv


def _byte(obj, lvl):
    if isinstance(obj, bytes):
        if len(obj) != 1:
            raise ValueError('Expected a length-1 bytes but found %d bytes' % len(obj))
        return Byte(obj[0], variant_level=lvl)
    val = _index_long(obj)
    if not (0 <= val <= 255):
        raise ValueError('%d outside range for a byte value' % val)
    return Byte(val, variant_level=lvl)


def _double(obj, lvl):
    cls = type(obj)
    if isinstance(obj, float):
        return Double(float(obj), variant_level=lvl)
    if isinstance(obj, (str, bytes, bytearray)):
        raise TypeError('must be real number, not %s' % _tname(obj))
    if getattr(cls, '__float__', None) is not None:
        return Double(float(obj), variant_level=lvl)
    if getattr(cls, '__index__', None) is not None:
        return Double(float(operator.index(obj)), variant_level=lvl)
    raise TypeError('must be real number, not %s' % _tname(obj))


def _text(obj):
    if isinstance(obj, bytes):
        try:
            text = obj.decode('utf-8')
        except UnicodeDecodeError:
            raise UnicodeError('String parameters to be sent over D-Bus must be valid UTF-8 with no noncharacter code points')
    elif isinstance(obj, str):
        text = str(obj)
        try:
            text.encode('utf-8')
        except UnicodeEncodeError:
            raise UnicodeError('String parameters to be sent over D-Bus must be valid UTF-8 with no noncharacter code points')
    else:
        raise TypeError('Expected a string or unicode object')
    if '\x00' in text:
        raise ValueError('embedded null byte')
    return text


def _string(obj, lvl):
    return String(_text(obj), variant_level=lvl)


def _objpath(obj, lvl):
    text = _text(obj)
    if not valid_object_path(text):
        # real libdbus aborts the process here
        raise ValueError('Invalid object path %r (libdbus would abort)' % (text,))
    return ObjectPath(text, variant_level=lvl)


def _signature(obj, lvl):
    text = _text(obj)
    split_signature(text)
    return Signature(text, variant_level=lvl)


_BASIC = {
    'y': _byte,
    'b': lambda obj, lvl: Boolean(bool(obj), variant_level=lvl),
    'n': _small_int(Int16, 'Int16', -2 ** 15, 2 ** 15 - 1),
    'q': _small_int(UInt16, 'UInt16', 0, 2 ** 16 - 1),
    'i': _small_int(Int32, 'Int32', -2 ** 31, 2 ** 31 - 1),
    'u': _big_int(UInt32, 0, 2 ** 32 - 1),
    'x': _big_int(Int64, -2 ** 63, 2 ** 63 - 1),
    't': _big_int(UInt64, 0, 2 ** 64 - 1),
    'd': _double,
    's': _string,
    'o': _objpath,
    'g': _signature,
}


def guess_signature(obj, ignore_level=False):
    '''Signature dbus-python chooses for an object placed in a variant.'''
    if not ignore_level and getattr(obj, 'variant_level', 0) > 0:
        return 'v'
    if obj is True or obj is False:
        return 'b'
    if isinstance(obj, int):
        for (cls, code) in ((Boolean, 'b'), (Byte, 'y'), (Int16, 'n'), (UInt16, 'q'), (Int32, 'i'),
                            (UInt32, 'u'), (Int64, 'x'), (UInt64, 't')):
            if isinstance(obj, cls):
                return code
        return 'i'
    if isinstance(obj, float):
        return 'd'
    if isinstance(obj, str):
        if isinstance(obj, ObjectPath):
            return 'o'
        if isinstance(obj, Signature):
            return 'g'
        return 's'
    if isinstance(obj, bytes):
        if isinstance(obj, ByteArray):
            return 'ay'
        return 's'
    if isinstance(obj, tuple):
        if len(obj) == 0:
            raise ValueError('Cannot guess signature for an empty tuple')
        return '(' + ''.join(guess_signature(item) for item in obj) + ')'
    if isinstance(obj, list):
        sig = getattr(obj, 'signature', None)
        if sig is not None:
            return 'a' + str(sig)
        if len(obj) == 0:
            raise ValueError('Unable to guess signature from an empty list')
        return 'a' + guess_signature(obj[0])
    if isinstance(obj, dict):
        sig = getattr(obj, 'signature', None)
        if sig is not None:
            return 'a{' + str(sig) + '}'
        if len(obj) == 0:
            raise ValueError('Unable to guess signature from an empty dict')
        (key, val) = next(iter(obj.items()))
        return 'a{' + guess_signature(key) + guess_signature(val) + '}'
    raise TypeError('Don\'t know which D-Bus type to use to encode type "%s"' % type(obj).__name__)


def append_one(sig, obj, lvl=0):
    code = sig[0]
    if code in _BASIC:
        return _BASIC[code](obj, lvl)
    if code == 'v':
        extra = getattr(obj, 'variant_level', 0)
        inner = guess_signature(obj, ignore_level=True)
        parts = split_signature(inner)
        if len(parts) != 1:
            raise TypeError('variant must hold exactly one complete type')
        return append_one(inner, obj, lvl + max(1, extra))
    if code == 'a':
        elem = sig[1:]
        if elem.startswith('{'):
            (ksig, vsig) = split_signature(elem[1:-1])
            out = Dictionary(signature=ksig + vsig, variant_level=lvl)
            for key in iter(obj):
                val = obj[key]
                out[append_one(ksig, key)] = append_one(vsig, val)
            return out
        if elem == 'y' and isinstance(obj, (bytes, bytearray)):
            return Array([Byte(b) for b in bytes(obj)], signature='y', variant_level=lvl)
        out = Array(signature=elem, variant_level=lvl)
        source = [Byte(b) for b in bytes(obj)] if isinstance(obj, ByteArray) else obj
        for item in iter(source):
            out.append(append_one(elem, item))
        return out
    if code == '(':
        parts = split_signature(sig[1:-1])
        items = list(iter(obj))
        if len(items) < len(parts):
            raise TypeError("More items found in struct's D-Bus signature than in Python arguments ")
        if len(items) > len(parts):
            raise TypeError("Fewer items found in struct's D-Bus signature than in Python arguments ")
        return Struct([append_one(p, i) for (p, i) in zip(parts, items)], variant_level=lvl)
    raise TypeError('Unknown type %r in D-Bus signature' % code)


def append(signature, args):
    '''Marshal positional args against a signature; returns the unmarshalled
    view (list of dbus values).  signature None means "guess".'''
    args = list(args)
    if signature is None or signature == '':
        if signature == '':
            return []
        signature = ''.join(guess_signature(a) for a in args)
    parts = split_signature(str(signature))
    if len(parts) > len(args):
        raise TypeError('More items found in D-Bus signature than in Python arguments')
    if len(parts) < len(args):
        raise TypeError('Fewer items found in D-Bus signature than in Python arguments')
    return [append_one(p, a) for (p, a) in zip(parts, args)]
