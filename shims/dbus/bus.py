'''Loop-back, recording bus connection (stand-in for dbus.bus).

All objects exported on one BusConnection live in the same simulated process
(or in a harness-provided service object).  `get_object` returns a proxy that
marshals arguments and results against the declared signatures exactly as a
real bus hop would, so adaptors talk to services as in deployment.'''
from . import _marshal
from ._types import split_signature, String
from .exceptions import DBusException, NameExistsException, UnknownMethodException

BUS_SESSION = 0
BUS_SYSTEM = 1
BUS_STARTER = 2

BUS_DAEMON_NAME = 'org.freedesktop.DBus'
BUS_DAEMON_PATH = '/org/freedesktop/DBus'
BUS_DAEMON_IFACE = 'org.freedesktop.DBus'

NAME_FLAG_DO_NOT_QUEUE = 4
REQUEST_NAME_REPLY_PRIMARY_OWNER = 1
REQUEST_NAME_REPLY_EXISTS = 3


class SignalMatch(object):
    def __init__(self, conn, handler, signal_name, dbus_interface, path):
        self._conn = conn
        self.handler = handler
        self.signal_name = signal_name
        self.dbus_interface = dbus_interface
        self.path = path

    def matches(self, path, iface, member):
        if self.signal_name is not None and self.signal_name != member:
            return False
        if self.dbus_interface is not None and self.dbus_interface != iface:
            return False
        if self.path is not None and self.path != path:
            return False
        return True

    def remove(self):
        try:
            self._conn._matches.remove(self)
        except ValueError:
            pass


class BusConnection(object):
    def __init__(self, address_or_type=BUS_SESSION, mainloop=None):
        self._address = address_or_type
        self._objects = {}       # path -> exported object
        self._names = {}         # well-known name -> True
        self._matches = []       # SignalMatch list
        self.records = []        # chronological record of bus traffic (drained by the harness)
        self.unique_name = ':1.0'

    # -- service side
    def _register_object_path(self, path, obj):
        if path in self._objects:
            raise KeyError("Can't register the object-path handler for %r: there is already a handler" % path)
        self._objects[path] = obj

    def _unregister_object_path(self, path):
        self._objects.pop(path, None)

    def get_unique_name(self):
        return self.unique_name

    def request_name(self, name, flags=0):
        if name in self._names:
            return REQUEST_NAME_REPLY_EXISTS
        self._names[name] = True
        self._emit_daemon('NameOwnerChanged', name, '', self.unique_name)
        return REQUEST_NAME_REPLY_PRIMARY_OWNER

    def release_name(self, name):
        if self._names.pop(name, None):
            self._emit_daemon('NameOwnerChanged', name, self.unique_name, '')

    def name_has_owner(self, name):
        return name in self._names or name == BUS_DAEMON_NAME

    def _emit_daemon(self, member, *args):
        self.deliver_signal(BUS_DAEMON_PATH, BUS_DAEMON_IFACE, member, [String(a) for a in args])

    # -- signals
    def add_signal_receiver(self, handler_function, signal_name=None, dbus_interface=None,
                            bus_name=None, path=None, **keywords):
        match = SignalMatch(self, handler_function, signal_name, dbus_interface, path)
        self._matches.append(match)
        return match

    def deliver_signal(self, path, iface, member, values):
        for match in list(self._matches):
            if match.matches(path, iface, member):
                match.handler(*values)

    def record(self, item):
        self.records.append(item)

    def drain_records(self):
        out = self.records
        self.records = []
        return out

    # -- client side
    def get_object(self, bus_name=None, object_path=None, introspect=True, **kwargs):
        from .proxies import ProxyObject
        return ProxyObject(self, bus_name, object_path)

    def close(self):
        pass

    def __deepcopy__(self, memo):
        import copy
        new = type(self).__new__(type(self))
        memo[id(self)] = new
        for (key, val) in self.__dict__.items():
            setattr(new, key, copy.deepcopy(val, memo))
        return new


class SessionBus(BusConnection):
    def __init__(self, *args, **kwargs):
        BusConnection.__init__(self, BUS_SESSION)


class SystemBus(BusConnection):
    def __init__(self, *args, **kwargs):
        BusConnection.__init__(self, BUS_SYSTEM)
