'''D-Bus exceptions (stand-in).'''


class DBusException(Exception):
    include_traceback = False

    def __init__(self, *args, **kwargs):
        name = kwargs.pop('name', None)
        if name is not None or getattr(self, '_dbus_error_name', None) is None:
            self._dbus_error_name = name
        if kwargs:
            raise TypeError('DBusException does not take keyword arguments: %s' % ', '.join(kwargs.keys()))
        Exception.__init__(self, *args)

    def __str__(self):
        s = Exception.__str__(self)
        if self._dbus_error_name is not None:
            return '%s: %s' % (self._dbus_error_name, s)
        return s

    def get_dbus_message(self):
        s = Exception.__str__(self)
        return s

    def get_dbus_name(self):
        return self._dbus_error_name


class MissingErrorHandlerException(DBusException):
    pass


class MissingReplyHandlerException(DBusException):
    pass


class ValidationException(DBusException):
    pass


class IntrospectionParserException(DBusException):
    pass


class UnknownMethodException(DBusException):
    _dbus_error_name = 'org.freedesktop.DBus.Error.UnknownMethod'

    def __init__(self, method):
        DBusException.__init__(self, 'Unknown method: %s' % method)


class NameExistsException(DBusException):
    include_traceback = True

    def __init__(self, name):
        DBusException.__init__(self, 'Bus name already exists: %s' % name)
