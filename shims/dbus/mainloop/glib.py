def DBusGMainLoop(set_as_default=False):
    return None


def threads_init():
    return None
