'''Client-side proxies for the loop-back bus.'''
from . import _marshal
from ._types import split_signature
from .exceptions import DBusException, UnknownMethodException
from . import bus as _bus


def _lookup_method(obj, member, iface):
    cand = getattr(type(obj), member, None)
    if cand is None or not getattr(cand, '_dbus_is_method', False):
        return None
    if iface is not None and cand._dbus_interface != iface:
        return None
    return cand


def call_method(conn, path, iface, member, args):
    '''Perform a method call over the loop-back bus with full marshalling of
    the arguments (in_signature) and of the result (out_signature).'''
    if path == _bus.BUS_DAEMON_PATH:
        if member == 'NameHasOwner':
            return conn.name_has_owner(str(args[0]))
        if member == 'GetNameOwner':
            if conn.name_has_owner(str(args[0])):
                return conn.unique_name
            raise DBusException('no owner', name='org.freedesktop.DBus.Error.NameHasNoOwner')
        raise UnknownMethodException(member)
    obj = conn._objects.get(path)
    if obj is None:
        raise DBusException('No such object path %r' % (path,), name='org.freedesktop.DBus.Error.UnknownObject')
    func = _lookup_method(obj, member, iface)
    if func is None:
        raise UnknownMethodException(member)
    in_sig = func._dbus_in_signature
    try:
        call_args = _marshal.append(in_sig, args)
    except Exception as err:
        conn.record(('call-marshal-error', path, member, type(err).__name__, str(err)))
        raise
    try:
        retval = func(obj, *call_args)
        out_sig = func._dbus_out_signature
        if out_sig is not None:
            parts = split_signature(str(out_sig))
            if len(parts) == 0:
                if retval is None:
                    retval = ()
                else:
                    raise TypeError('%s has an empty output signature but did not return None' % member)
            elif len(parts) == 1:
                retval = (retval,)
            else:
                if not isinstance(retval, (tuple, list)):
                    raise TypeError('%s has multiple output values in signature %s but did not return a sequence' % (member, out_sig))
        else:
            if retval is None:
                retval = ()
            elif isinstance(retval, tuple) and not hasattr(retval, 'variant_level'):
                pass
            else:
                retval = (retval,)
        try:
            values = _marshal.append(out_sig, retval)
        except Exception as err:
            conn.record(('return-marshal-error', path, member, str(out_sig), type(err).__name__, str(err)))
            raise
    except Exception as err:
        conn.record(('call-error', path, member, type(err).__name__, str(err)))
        if isinstance(err, DBusException):
            raise
        name = 'org.freedesktop.DBus.Python.%s.%s' % (type(err).__module__, type(err).__name__)
        exc = DBusException(str(err), name=name)
        exc.__cause__ = err
        raise exc
    conn.record(('call', path, member, call_args, values))
    if len(values) == 0:
        return None
    if len(values) == 1:
        return values[0]
    return tuple(values)


class _ProxyMethod(object):
    def __init__(self, conn, path, iface, member):
        self._conn = conn
        self._path = path
        self._iface = iface
        self._member = member

    def __call__(self, *args, **keywords):
        iface = keywords.pop('dbus_interface', self._iface)
        keywords.pop('timeout', None)
        reply_handler = keywords.pop('reply_handler', None)
        error_handler = keywords.pop('error_handler', None)
        if reply_handler is not None or error_handler is not None:
            try:
                res = call_method(self._conn, self._path, iface, self._member, args)
            except Exception as err:
                if error_handler is not None:
                    error_handler(err)
                return None
            if reply_handler is not None:
                if res is None:
                    reply_handler()
                elif isinstance(res, tuple) and not hasattr(res, 'variant_level'):
                    reply_handler(*res)
                else:
                    reply_handler(res)
            return None
        return call_method(self._conn, self._path, iface, self._member, args)


class ProxyObject(object):
    def __init__(self, conn, bus_name, object_path):
        self._conn = conn
        self._bus_name = bus_name
        self._path = object_path

    bus_name = property(lambda self: self._bus_name)
    object_path = property(lambda self: self._path)
    requested_bus_name = property(lambda self: self._bus_name)

    def connect_to_signal(self, signal_name, handler_function, dbus_interface=None, **keywords):
        return self._conn.add_signal_receiver(
            handler_function, signal_name=signal_name, dbus_interface=dbus_interface,
            bus_name=self._bus_name, path=self._path, **keywords)

    def get_dbus_method(self, member, dbus_interface=None):
        return _ProxyMethod(self._conn, self._path, dbus_interface, member)

    def __getattr__(self, member):
        if member.startswith('__') and member.endswith('__'):
            raise AttributeError(member)
        return self.get_dbus_method(member)


class Interface(object):
    def __init__(self, object, dbus_interface):
        if isinstance(object, Interface):
            self._obj = object.proxy_object
        else:
            self._obj = object
        self._dbus_interface = dbus_interface

    object_path = property(lambda self: self._obj.object_path)
    bus_name = property(lambda self: self._obj.bus_name)
    requested_bus_name = property(lambda self: self._obj.requested_bus_name)
    proxy_object = property(lambda self: self._obj)
    dbus_interface = property(lambda self: self._dbus_interface)

    def connect_to_signal(self, signal_name, handler_function, dbus_interface=None, **keywords):
        if not dbus_interface:
            dbus_interface = self._dbus_interface
        return self._obj.connect_to_signal(signal_name, handler_function, dbus_interface, **keywords)

    def get_dbus_method(self, member, dbus_interface=None):
        if dbus_interface is None:
            dbus_interface = self._dbus_interface
        return self._obj.get_dbus_method(member, dbus_interface)

    def __getattr__(self, member):
        if member.startswith('__') and member.endswith('__'):
            raise AttributeError(member)
        return self._obj.get_dbus_method(member, self._dbus_interface)
