'''One real TCPCL endpoint R against a scripted peer that writes octets built
by the independent encoder straight into the virtual TCP connection.'''
from . import env as _env
from . import vnet
from .world import World, HarnessError
from .oracle import tcpclv4 as T

PATH = '/org/ietf/dtn/tcpcl/Contact0'
IFACE = 'org.ietf.dtn.tcpcl.Contact'


def default_params():
    return dict(
        role='passive',            # role of the real endpoint R
        seg_mru=4, tx_init=4, chunk=10240, keepalive=0, idle=0, modulate=None,
        queued=(),                 # hex bundles R's user queues right after start
        max_quiesce=400,
    )


class PeerWorld(World):
    def __init__(self, params=None):
        World.__init__(self)
        prm = default_params()
        if params:
            prm.update(params)
        self.params = prm
        ns = _env.load_tcpcl('A')
        ns.session.Connection.CHUNK_SIZE = prm['chunk']
        conn = vnet.StreamConn('c0')
        conn.sent_log = []
        self.conns.append(conn)
        self.ridx = 1 if prm['role'] == 'passive' else 0
        proc = self.add_proc('R')
        cfg = ns.config.Config(
            tls_enable=bool(prm.get('tls_enable', False)), node_id='dtn://r/', keepalive_time=prm['keepalive'], idle_time=prm['idle'],
            segment_size_mru=prm['seg_mru'], segment_size_tx_initial=prm['tx_init'],
            modulate_target_ack_time=prm['modulate'],
        )
        if prm.get('config_text') is not None:
            # the way the daemon gets its settings: defaults, then the configuration file
            import io
            cfg = ns.config.Config(tls_enable=False, node_id='dtn://r/', segment_size_mru=prm['seg_mru'], segment_size_tx_initial=prm['tx_init'])
            cfg.from_file(io.StringIO(prm['config_text']))
        self.cfg = cfg
        cfg._bus_conn = proc.bus
        hdl_kwargs = dict(config=cfg, sock=conn.ends[self.ridx])
        if prm['role'] == 'passive':
            hdl_kwargs['fromaddr'] = conn.addr[0]
        else:
            hdl_kwargs['toaddr'] = conn.addr[1]

        def make():
            hdl = ns.session.ContactHandler(hdl_kwargs=hdl_kwargs,
                                            bus_kwargs=dict(conn=proc.bus, object_path=PATH))
            hdl.start()
            return hdl
        proc.roots['contact'] = self.in_proc(proc, make)
        self.out_octets = b''        # everything R wrote so far (ghost)
        self.signals = []            # every signal R emitted (ghost)
        self.escaped = []
        self.user_results = []
        self.collect(('init',))
        if prm.get('peer_first') is not None:
            # the peer's first octets are already there when the endpoint's loop runs for the first time
            self.peer_write(bytes.fromhex(prm['peer_first']))
        self.quiesce()
        for data in prm['queued']:
            res = self.bus_call(proc, PATH, 'send_bundle_data', bytes.fromhex(data), iface=IFACE)
            self.user_results.append(res[0])
            self.quiesce()

    @property
    def proc(self):
        return self.procs['R']

    def handler(self):
        return self.procs['R'].roots['contact']

    def canon_extra(self, c):
        c.out.append('out' + self.out_octets.hex())
        c.walk(self.signals)
        c.walk(self.user_results)

    # ---- driving
    def peer_write(self, data):
        '''The peer's octets arrive at R's socket.'''
        conn = self.conns[0]
        if conn.closed[self.ridx]:
            return False
        conn.buf[self.ridx] += bytes(data)
        return True

    def peer_reset(self):
        '''The peer vanishes abortively (RST): R's next read fails with ECONNRESET, later ones see the end of the stream.'''
        conn = self.conns[0]
        conn.reset[self.ridx] = True
        conn.closed[1 - self.ridx] = True

    def peer_close(self):
        conn = self.conns[0]
        conn.closed[1 - self.ridx] = True
        conn.shut_wr[1 - self.ridx] = True

    def quiesce(self):
        '''Run R's loop until nothing is ready.  Returns violations reported
        by monitors plus bookkeeping of outputs.'''
        proc = self.proc
        conn = self.conns[0]
        steps = 0
        viols = []
        last = None
        seen = set()
        while self.runnable(proc):
            steps += 1
            if steps > self.params['max_quiesce']:
                raise HarnessError('endpoint does not become quiescent within %d callbacks' % steps)
            if steps > 6:
                # polling idle callbacks (the queue waiting for the session; one per bundle queued early) never go
                # quiescent: stop when the state has been seen before in this run of the loop (nothing can change
                # any more until something arrives)
                cur = self.digest()
                if cur == last or cur in seen:
                    break
                seen.add(cur)
                last = cur
            (more, _eff) = self.apply(('run', 'R'))
            viols.extend(more)
            # the scripted peer consumes everything R wrote
            pipe = conn.buf[1 - self.ridx]
            if pipe:
                del pipe[:]
        return viols

    def collect(self, event):
        conn = self.conns[0]
        if conn.sent_log:
            for (side, data) in conn.sent_log:
                if side == self.ridx:
                    self.out_octets += data
        proc = self.proc
        for rec in proc.bus.records:
            if rec[0] == 'signal':
                self.signals.append((rec[3],) + tuple(_plain(a) for a in rec[4]))
            elif rec[0] == 'signal-marshal-error':
                self.signals.append(('MARSHAL-ERROR', rec[2], rec[4]))
        for esc in proc.ctx.escaped:
            self.escaped.append((esc.exc_type, esc.source_kind, esc.exc_text, esc.tb))
        return World.collect(self, event)

    def r_closed(self):
        return self.conns[0].closed[self.ridx]

    def recv_buffer_used(self):
        return self.handler().recv_buffer_used()


def _plain(val):
    if isinstance(val, bool):
        return bool(val)
    if isinstance(val, int):
        return int(val)
    if isinstance(val, str):
        return str(val)
    if isinstance(val, (bytes, bytearray)):
        return bytes(val).hex()
    if isinstance(val, (list, tuple)):
        return tuple(_plain(v) for v in val)
    if isinstance(val, dict):
        return tuple(sorted((str(k), _plain(v)) for (k, v) in val.items()))
    return repr(val)
