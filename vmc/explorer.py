'''Explicit-state exploration of a world: breadth-first search over canonical
states, invariants on every transition and state, liveness on bottom SCCs.
'''
import collections
import time

from .world import HarnessError, Violation


class Result(object):
    def __init__(self):
        self.states = 0
        self.transitions = 0
        self.max_depth = 0
        self.dev_bound = 0
        self.skipped_ineffective = 0
        self.violations = []        # list of (Violation, trace)
        self.known = []             # list of (Violation, trace) matching a known finding
        self.pruned = 0
        self.validated = 0
        self.bottom_sccs = 0
        self.deadlocks = 0
        self.final_outcomes = collections.Counter()
        self.caps_hit = []
        self.exhaustive = True
        self.samples = []
        self.wall_s = 0.0
        self.scenario = None

    def merge_counts(self, other):
        self.states += other.states
        self.transitions += other.transitions
        self.max_depth = max(self.max_depth, other.max_depth)
        self.skipped_ineffective += other.skipped_ineffective
        self.violations.extend(other.violations)
        self.known.extend(other.known)
        self.pruned += other.pruned
        self.validated += other.validated
        self.bottom_sccs += other.bottom_sccs
        self.deadlocks += other.deadlocks
        self.final_outcomes.update(other.final_outcomes)
        self.caps_hit.extend(other.caps_hit)
        self.exhaustive = self.exhaustive and other.exhaustive
        self.wall_s += other.wall_s


def tarjan_sccs(n, adj):
    '''Iterative Tarjan.  Returns list comp[v] and number of components.'''
    index = [0] * n
    low = [0] * n
    onstack = [False] * n
    visited = [False] * n
    comp = [-1] * n
    stack = []
    counter = 1
    ncomp = 0
    for root in range(n):
        if visited[root]:
            continue
        work = [(root, 0)]
        visited[root] = True
        index[root] = low[root] = counter
        counter += 1
        stack.append(root)
        onstack[root] = True
        while work:
            (v, pi) = work[-1]
            nbrs = adj[v]
            if pi < len(nbrs):
                work[-1] = (v, pi + 1)
                w = nbrs[pi]
                if not visited[w]:
                    visited[w] = True
                    index[w] = low[w] = counter
                    counter += 1
                    stack.append(w)
                    onstack[w] = True
                    work.append((w, 0))
                elif onstack[w]:
                    if index[w] < low[v]:
                        low[v] = index[w]
            else:
                work.pop()
                if work:
                    u = work[-1][0]
                    if low[v] < low[u]:
                        low[u] = low[v]
                if low[v] == index[v]:
                    while True:
                        w = stack.pop()
                        onstack[w] = False
                        comp[w] = ncomp
                        if w == v:
                            break
                    ncomp += 1
    return comp, ncomp


class Explorer(object):
    '''
    build:      callable returning a fresh initial world (real objects built anew)
    dev_bound:  maximal number of environment deviations along a path
    known:      KnownFindings (or None)
    '''

    def __init__(self, build, dev_bound=0, max_states=200000, time_cap_s=None,
                 known=None, use_snapshot=True, validate_every=25, liveness=True,
                 stop_on_violation=8, scenario=None):
        self.build = build
        self.dev_bound = dev_bound
        self.max_states = max_states
        self.time_cap_s = time_cap_s
        self.known = known
        self.use_snapshot = use_snapshot
        self.validate_every = validate_every
        self.liveness = liveness
        self.stop_on_violation = stop_on_violation
        self.scenario = scenario

    # ------------------------------------------------------------------
    def replay(self, trace):
        '''Rebuild a world from nothing by replaying an event history on
        freshly constructed real objects.'''
        world = self.build()
        for event in trace:
            (_viol, effective) = world.apply(tuple(event))
            if not effective:
                raise HarnessError('replay divergence: deviation %r had no effect' % (event,))
        return world

    def trace_of(self, sid):
        out = []
        while sid != 0:
            (pid, event) = self.parent[sid]
            out.append(event)
            sid = pid
        out.reverse()
        return out

    def run(self):
        t0 = time.time()
        res = Result()
        res.dev_bound = self.dev_bound
        res.scenario = self.scenario
        world0 = self.build()
        init_viol = world0.check_state()
        d0 = world0.digest()
        self.seen = {d0: 0}
        self.min_dev = [0]
        self.parent = [(0, None)]
        self.depth = [0]
        self.adj = [[]]
        self.has_pruned = [False]
        self.final_bad = [None]
        self.outcome = [None]
        frontier = collections.deque()
        frontier.append((0, world0 if self.use_snapshot else None))
        sig_seen = set()

        def note(viol, trace, world):
            key = viol.sig_key()
            entry = None
            if self.known is not None:
                entry = self.known.match(viol)
            if entry is not None:
                if key not in sig_seen:
                    sig_seen.add(key)
                    res.known.append((viol, list(trace), entry))
                return True
            if key not in sig_seen:
                sig_seen.add(key)
                res.violations.append((viol, list(trace)))
            return False

        for viol in init_viol:
            note(viol, [], world0)

        capped = False
        while frontier:
            if self.time_cap_s is not None and time.time() - t0 > self.time_cap_s:
                res.caps_hit.append('time_cap %ss' % self.time_cap_s)
                capped = True
                break
            if len(res.violations) >= self.stop_on_violation:
                res.caps_hit.append('stopped after %d distinct violations' % len(res.violations))
                capped = True
                break
            (sid, world) = frontier.popleft()
            if world is None:
                world = self.replay(self.trace_of(sid))
                res.validated += 1
                if world.digest() != self.digest_of_state(sid):
                    raise HarnessError('replay of state %d does not reproduce its digest' % sid)
            base_dev = world.dev_used
            events = world.enabled_events()
            usable = []
            for event in events:
                if world.is_deviation(event) and base_dev >= self.dev_bound:
                    continue
                usable.append(event)
            # final-state bookkeeping (goal predicate evaluated now, used after SCC analysis)
            fin = world.check_final()
            self.final_bad[sid] = fin if fin else None
            self.outcome[sid] = world.outcome() if hasattr(world, 'outcome') else None
            nusable = len(usable)
            for (k, event) in enumerate(usable):
                if self.use_snapshot:
                    nxt = world if k == nusable - 1 else world.snapshot()
                else:
                    nxt = self.replay(self.trace_of(sid))
                try:
                    (viols, effective) = nxt.apply(event)
                except HarnessError:
                    raise
                if not effective:
                    res.skipped_ineffective += 1
                    continue
                res.transitions += 1
                trace = None
                bad = False
                viols = list(viols) + list(nxt.check_state())
                for viol in viols:
                    if trace is None:
                        trace = self.trace_of(sid) + [event]
                    is_known = note(viol, trace, nxt)
                    bad = True
                    if is_known:
                        res.pruned += 1
                if bad:
                    # successors of a state already known to be broken are not explored
                    self.has_pruned[sid] = True
                    continue
                dg = nxt.digest()
                tid = self.seen.get(dg)
                if tid is None:
                    if len(self.seen) >= self.max_states:
                        if not capped:
                            res.caps_hit.append('max_states %d' % self.max_states)
                        capped = True
                        self.has_pruned[sid] = True
                        continue
                    tid = len(self.parent)
                    self.seen[dg] = tid
                    self.parent.append((sid, event))
                    self.depth.append(self.depth[sid] + 1)
                    self.min_dev.append(nxt.dev_used)
                    self.adj.append([])
                    self.has_pruned.append(False)
                    self.final_bad.append(None)
                    self.outcome.append(None)
                    if self.depth[tid] > res.max_depth:
                        res.max_depth = self.depth[tid]
                    keep = self.use_snapshot
                    frontier.append((tid, nxt if keep else None))
                    if self.use_snapshot and self.validate_every and tid % self.validate_every == 0:
                        chk = self.replay(self.trace_of(tid))
                        if chk.digest() != dg:
                            raise HarnessError('snapshot/replay mismatch at state %d trace %r' % (tid, self.trace_of(tid)))
                        res.validated += 1
                elif nxt.dev_used < self.min_dev[tid]:
                    # reached with fewer deviations: must be re-expanded
                    self.min_dev[tid] = nxt.dev_used
                    frontier.append((tid, nxt if self.use_snapshot else None))
                self.adj[sid].append(tid)
        res.states = len(self.parent)
        res.exhaustive = not capped
        if capped:
            # states left in the frontier were not expanded
            for (sid, _w) in frontier:
                self.has_pruned[sid] = True

        # ---- liveness on bottom SCCs
        if self.liveness and not capped:
            n = len(self.parent)
            comp, ncomp = tarjan_sccs(n, self.adj)
            has_exit = [False] * ncomp
            members = [[] for _ in range(ncomp)]
            for v in range(n):
                members[comp[v]].append(v)
                if self.has_pruned[v]:
                    has_exit[comp[v]] = True
                for w in self.adj[v]:
                    if comp[w] != comp[v]:
                        has_exit[comp[v]] = True
            for cidx in range(ncomp):
                if has_exit[cidx]:
                    continue
                res.bottom_sccs += 1
                mem = members[cidx]
                if len(mem) == 1 and not self.adj[mem[0]]:
                    res.deadlocks += 1
                for v in mem:
                    oc = self.outcome[v]
                    if oc is not None:
                        res.final_outcomes[oc] += 1
                    fin = self.final_bad[v]
                    if fin:
                        trace = self.trace_of(v)
                        for viol in fin:
                            note(viol, trace, None)
        # samples: shortest non-trivial, longest
        if len(self.parent) > 1:
            deepest = max(range(len(self.parent)), key=lambda v: self.depth[v])
            res.samples.append(dict(kind='longest', events=self.trace_of(deepest)))
            mid = len(self.parent) // 2
            res.samples.append(dict(kind='middle', events=self.trace_of(mid)))
        res.wall_s = time.time() - t0
        # free memory
        self._digests = None
        return res

    def digest_of_state(self, sid):
        # reverse lookup is only needed in no-snapshot mode
        if getattr(self, '_digests', None) is None or len(self._digests) != len(self.seen):
            self._digests = {v: k for (k, v) in self.seen.items()}
        return self._digests[sid]
