'''Process-wide set-up for the model checker: import path, stand-in modules,
independent copies of the TCPCL package, virtual clock seams.

Nothing of /repo is copied or cached: modules are imported from the working
tree (REPO/src) on every run.
'''
import datetime as _real_datetime
import importlib
import logging
import os
import ssl
import sys
import time as _real_time
import types

VERIF = os.path.dirname(os.path.dirname(os.path.abspath(__file__)))
REPO = os.environ.get('VERIF_REPO', '/repo')
SHIMS = os.path.join(VERIF, 'shims')
SRC = os.path.join(REPO, 'src')

_READY = False


def setup():
    '''Idempotent: arrange sys.path and stand-ins.'''
    global _READY
    if _READY:
        return
    for path in (SRC, SHIMS):
        while path in sys.path:
            sys.path.remove(path)
    # shims first (they only provide modules absent from /venv), then the repo
    # sources *before* site-packages (an unrelated PyPI package `bp` exists).
    sys.path.insert(0, SRC)
    sys.path.insert(0, SHIMS)
    logging.disable(logging.CRITICAL)
    if os.environ.get('VERIF_LOG'):
        logging.disable(logging.NOTSET)
        logging.basicConfig(level=logging.DEBUG, stream=sys.stderr)
    if not hasattr(ssl, 'match_hostname'):
        # removed in Python 3.12; tcpcl.session calls it "for reference" only
        def match_hostname(cert, hostname):
            return None
        ssl.match_hostname = match_hostname
    if not hasattr(ssl, 'CertificateError'):
        ssl.CertificateError = ssl.SSLCertVerificationError
    # silence scapy import chatter
    logging.getLogger('scapy').setLevel(logging.ERROR)
    _READY = True


# ---------------------------------------------------------------------------
# virtual time seam

DT_BASE = _real_datetime.datetime(2024, 1, 1, 0, 0, 0, tzinfo=_real_datetime.timezone.utc)


class _Now(object):
    '''The clock the patched modules read; the harness points it at the
    active world's GLib clock before running any repository code.'''
    clock = None

    @classmethod
    def now_us(cls):
        if cls.clock is None:
            return 0
        return cls.clock.now_us


NOW = _Now


class VDateTime(_real_datetime.datetime):
    '''datetime whose now()/utcnow() read the virtual clock.'''

    @classmethod
    def now(cls, tz=None):
        base = DT_BASE + _real_datetime.timedelta(microseconds=NOW.now_us())
        if tz is None:
            base = base.replace(tzinfo=None)
        else:
            base = base.astimezone(tz)
        return cls(base.year, base.month, base.day, base.hour, base.minute, base.second,
                   base.microsecond, tzinfo=base.tzinfo)

    @classmethod
    def utcnow(cls):
        return cls.now(None)

    @classmethod
    def today(cls):
        return cls.now(None)


def _datetime_proxy():
    mod = types.ModuleType('datetime')
    for name in dir(_real_datetime):
        if not name.startswith('__'):
            setattr(mod, name, getattr(_real_datetime, name))
    mod.datetime = VDateTime
    mod.__verif_proxy__ = True
    return mod


def _time_proxy():
    mod = types.ModuleType('time')
    for name in dir(_real_time):
        if not name.startswith('__'):
            setattr(mod, name, getattr(_real_time, name))
    mod.monotonic_ns = lambda: NOW.now_us() * 1000
    mod.monotonic = lambda: NOW.now_us() / 1e6
    mod.time = lambda: (DT_BASE.timestamp() + NOW.now_us() / 1e6)
    mod.time_ns = lambda: int(DT_BASE.timestamp() * 1e9) + NOW.now_us() * 1000
    mod.sleep = lambda _secs: None
    mod.__verif_proxy__ = True
    return mod


_DT_PROXY = None
_TIME_PROXY = None


def patch_clock(module):
    '''Point the names `datetime` / `time` in a repository module's namespace
    at the virtual clock (the module object itself is untouched on disk).'''
    global _DT_PROXY, _TIME_PROXY
    if _DT_PROXY is None:
        _DT_PROXY = _datetime_proxy()
        _TIME_PROXY = _time_proxy()
    cur = module.__dict__.get('datetime')
    if cur is _real_datetime:
        module.datetime = _DT_PROXY
    elif cur is _real_datetime.datetime:
        module.datetime = VDateTime
    if module.__dict__.get('time') is _real_time:
        module.time = _TIME_PROXY
    return module


# ---------------------------------------------------------------------------
# repository packages

def seed_bp_app():
    '''bp/app/__init__.py imports the sand/safe/zeroconf applications which need
    psutil, zeroconf, lakers and raw sockets.  Pre-seed an empty package with
    the real directory as its path so that only the routing, fragmentation,
    security and administrative applications are assembled.'''
    setup()
    if 'bp.app' in sys.modules and getattr(sys.modules['bp.app'], '__verif_seeded__', False):
        return sys.modules['bp.app']
    import bp
    mod = types.ModuleType('bp.app')
    mod.__path__ = [os.path.join(SRC, 'bp', 'app')]
    mod.__package__ = 'bp.app'
    mod.__verif_seeded__ = True
    sys.modules['bp.app'] = mod
    bp.app = mod
    return mod


class Namespace(object):
    '''One independent copy of a set of repository modules.'''

    def __init__(self, label):
        self.label = label
        self.modules = {}

    def __getattr__(self, name):
        try:
            return self.__dict__['modules'][name]
        except KeyError:
            raise AttributeError(name)


# Process-lifetime state of the implementation: mutable containers bound at class or module level
# (not the constant tables, whose names are upper case, nor scapy's / enum's own class machinery).
# A world stands for freshly started processes, so it owns a copy of each (see World.install_shared):
# contacts of one process share them, separate worlds and snapshots do not.
_SHARED_SITES = []
_SHARED_SEEN = set()


def _scan_shared(ns):
    import copy
    import enum
    import inspect
    import types
    repo_pkgs = ('bp', 'tcpcl', 'udpcl', 'btpu', 'scapy_cbor')

    def mutable_default(val):
        if isinstance(val, (set, list, dict, bytearray)):
            return True
        mod = getattr(type(val), '__module__', '') or ''
        return hasattr(val, 'fields_desc') or mod.split('.')[0] in repo_pkgs and not isinstance(val, enum.Enum)

    def add_default_sites(func):
        for (k, val) in enumerate(func.__defaults__ or ()):
            if mutable_default(val):
                try:
                    pristine = copy.deepcopy(val)
                except Exception:
                    continue

                def setter(obj, func=func, k=k):
                    cur = list(func.__defaults__)
                    cur[k] = obj
                    func.__defaults__ = tuple(cur)
                _SHARED_SITES.append((setter, pristine))
    for mod in list(ns.modules.values()):
        if not isinstance(mod, types.ModuleType) or id(mod) in _SHARED_SEEN:
            continue
        _SHARED_SEEN.add(id(mod))
        owners = [mod]
        for cls in list(vars(mod).values()):
            if inspect.isclass(cls) and cls.__module__ == mod.__name__ and not issubclass(cls, enum.Enum) \
                    and not hasattr(cls, 'fields_desc'):
                owners.append(cls)
        for owner in owners:
            for (attr, val) in list(vars(owner).items()):
                func = getattr(val, '__func__', val)
                if isinstance(func, types.FunctionType) and func.__module__ == mod.__name__ and not attr.startswith('__verif'):
                    # a mutable object as the default value of a parameter lives as long as the process
                    add_default_sites(func)
                    continue
                if attr.startswith('__') or attr.isupper() or not isinstance(val, (set, list, dict, bytearray)):
                    continue
                try:
                    pristine = copy.deepcopy(val)
                except Exception:
                    continue
                _SHARED_SITES.append((lambda obj, owner=owner, attr=attr: setattr(owner, attr, obj), pristine))


def shared_sites():
    return _SHARED_SITES


_TCPCL_COPIES = {}


def load_tcpcl(label='A'):
    '''Import the tcpcl package as an independent copy identified by `label`.
    Two peers of a connection are separate OS processes in reality; loading
    them from separate copies guarantees they can share nothing but the
    virtual socket (module- or class-level state is per copy).'''
    setup()
    if label in _TCPCL_COPIES:
        return _TCPCL_COPIES[label]
    saved = {k: v for (k, v) in sys.modules.items() if k == 'tcpcl' or k.startswith('tcpcl.')}
    for key in saved:
        del sys.modules[key]
    fresh = {}
    try:
        ns = Namespace(label)
        for name in ('formats', 'contact', 'messages', 'extend', 'config', 'session', 'agent'):
            ns.modules[name] = importlib.import_module('tcpcl.' + name)
        ns.modules['pkg'] = sys.modules['tcpcl']
        patch_clock(ns.modules['session'])
        fresh = {k: v for (k, v) in sys.modules.items() if k == 'tcpcl' or k.startswith('tcpcl.')}
    finally:
        for key in [k for k in sys.modules if k == 'tcpcl' or k.startswith('tcpcl.')]:
            del sys.modules[key]
        if saved:
            sys.modules.update(saved)
        elif label == 'A':
            # the first copy stays importable under its normal name
            sys.modules.update(fresh)
    _TCPCL_COPIES[label] = ns
    _scan_shared(ns)
    return ns


_BP = None


def load_bp():
    '''Import the BP agent stack (real routing, fragmentation, BPSec and
    administrative steps) with clock seams installed.'''
    global _BP
    setup()
    if _BP is not None:
        return _BP
    load_tcpcl('A')  # bp.agent imports tcpcl; use copy A
    seed_bp_app()
    ns = Namespace('bp')
    for name in ('bp.encoding', 'bp.config', 'bp.util', 'bp.cla', 'bp.app.base', 'bp.app.admin',
                 'bp.app.fragment', 'bp.app.bpsec', 'bp.agent', 'bp.crypto'):
        mod = importlib.import_module(name)
        ns.modules[name.split('.', 1)[1].replace('.', '_')] = mod
        patch_clock(mod)
    # "now" of the certificate validation (a bundle without creation time is validated now) is the world's clock
    patch_clock(sys.modules['certvalidator'])
    _BP = ns
    _scan_shared(ns)
    return ns


_UDPCL = None


def load_udpcl():
    global _UDPCL
    setup()
    if _UDPCL is None:
        ns = Namespace('udpcl')
        for name in ('config', 'agent'):
            ns.modules[name] = importlib.import_module('udpcl.' + name)
        patch_clock(ns.modules['agent'])
        _UDPCL = ns
        _scan_shared(ns)
    return _UDPCL


_BTPU = None


def load_btpu():
    global _BTPU
    setup()
    if _BTPU is None:
        ns = Namespace('btpu')
        for name in ('config', 'messages', 'agent'):
            ns.modules[name] = importlib.import_module('btpu.' + name)
        patch_clock(ns.modules['agent'])
        _BTPU = ns
        _scan_shared(ns)
    return _BTPU


def repo_head():
    '''Identify the tree under test (for evidence files).'''
    import subprocess
    try:
        head = subprocess.run(['git', '-C', REPO, 'rev-parse', 'HEAD'], capture_output=True, text=True).stdout.strip()
        dirty = subprocess.run(['git', '-C', REPO, 'status', '--porcelain', '--', 'src'], capture_output=True, text=True).stdout.strip()
        return head + ('+dirty' if dirty else '')
    except Exception:
        return 'unknown'
