'''Closed worlds: simulated processes (virtual GLib context + loop-back bus +
real repository objects), the virtual network between them, a virtual clock,
monitors, and the event alphabet the explorer enumerates.
'''
import copy
import types

from gi.repository import GLib

from . import canon as _canon
from . import env as _env
from . import vnet


class HarnessError(Exception):
    '''The harness itself is inconsistent (never a property verdict).'''


class Violation(object):
    '''A property violation found in one state / on one transition.'''

    def __init__(self, prop, monitor, kind, signature, detail):
        self.prop = prop            # property id this monitor speaks for
        self.monitor = monitor      # monitor name
        self.kind = kind            # symptom class
        self.signature = signature  # dict of observables identifying the finding
        self.detail = detail        # free text for the reader

    def sig_key(self):
        return (self.prop, self.monitor, self.kind, tuple(sorted(self.signature.items())))

    def as_dict(self):
        return dict(property=self.prop, monitor=self.monitor, kind=self.kind,
                    signature=self.signature, detail=self.detail)

    def __repr__(self):
        return 'Violation(%s %s/%s %s: %s)' % (self.prop, self.monitor, self.kind, self.signature, self.detail)


class Proc(object):
    '''One simulated OS process.'''

    def __init__(self, name, clock):
        import dbus.bus
        self.name = name
        self.ctx = GLib.Context(name, clock)
        self.bus = dbus.bus.BusConnection()
        self.roots = {}

    def __verif_canon__(self, c):
        prev = c.ctx
        c.ctx = self.ctx
        c.out.append('proc ' + self.name)
        c.walk(self.ctx)
        for key in sorted(self.roots):
            c.out.append('root ' + key)
            c.walk(self.roots[key])
        c.out.append('bus')
        c.walk(self.bus)
        c.ctx = prev


class Monitor(object):
    '''Base class: monitors fold observations into bounded state that is part
    of the world (and of its canonical form).'''
    name = 'monitor'
    prop = None

    def on_bus(self, world, proc, record):
        return ()

    def on_wire(self, world, conn, side, data):
        return ()

    def on_escaped(self, world, proc, esc):
        return ()

    def on_event(self, world, event):
        return ()

    def on_user(self, world, side, op, res):
        return ()

    def check_state(self, world):
        return ()

    def check_final(self, world):
        '''Evaluated in states of bottom SCCs (nothing further can change).'''
        return ()


class World(object):
    '''Base world.  Subclasses build the processes and define user events.'''

    #: deviations (non-default environment answers) this world offers per run event
    RUN_DEVIATIONS = ()

    def __init__(self):
        self.clock = GLib.Clock(0)
        self.procs = {}
        self.conns = []
        self.monitors = []
        self.dev_used = 0
        self.ticks = 0
        self.broken = None     # set when a known-finding pruned this branch
        self.params = {}
        self.shared = {}       # this world's copies of class- / module-level containers of the implementation
        self.install_shared()

    # ---- infrastructure
    def add_proc(self, name):
        proc = Proc(name, self.clock)
        self.procs[name] = proc
        return proc

    def activate(self, proc=None):
        '''Point the global seams (GLib context, clock) at this world.'''
        _env.NOW.clock = self.clock
        self.install_shared()
        GLib.set_current(proc.ctx if proc is not None else None)

    def install_shared(self):
        '''Bind the implementation's class- and module-level containers to this world's copies.'''
        sites = _env.shared_sites()
        if not sites:
            return
        for (i, (setter, pristine)) in enumerate(sites):
            if i not in self.shared:
                self.shared[i] = copy.deepcopy(pristine)
            setter(self.shared[i])

    def in_proc(self, proc, func, *args, **kwargs):
        '''Run harness-side construction code inside a process context.'''
        self.activate(proc)
        try:
            return func(*args, **kwargs)
        finally:
            GLib.set_current(None)

    def snapshot(self):
        return copy.deepcopy(self)

    # ---- canonical form
    def canon(self):
        c = _canon.Canon(self.clock.now_us)
        c.out.append(type(self).__name__)
        for name in sorted(self.procs):
            c.walk(self.procs[name])
        c.out.append('net')
        for conn in self.conns:
            c.walk(conn)
        c.out.append('mon')
        for mon in self.monitors:
            c.walk(mon)
        c.out.append('extra')
        self.canon_extra(c)
        if self.shared:
            c.out.append('shared')
            for i in sorted(self.shared):
                c.walk(self.shared[i])
        return c

    def canon_extra(self, c):
        return None

    def digest(self):
        return self.canon().digest()

    # ---- events
    def runnable(self, proc):
        ctx = proc.ctx
        if ctx.has_live_pending():
            return True
        return bool(ctx.poll(None))

    def next_deadline(self):
        vals = [p.ctx.next_deadline() for p in self.procs.values()]
        vals = [v for v in vals if v is not None]
        return min(vals) if vals else None

    def enabled_events(self):
        '''Default alphabet: one dispatch of any runnable process (with each
        offered deviation), user events between iterations, clock tick when
        nothing can run.'''
        events = []
        any_run = False
        for name in sorted(self.procs):
            proc = self.procs[name]
            if self.runnable(proc):
                any_run = True
                events.append(('run', name))
                for dev in self.RUN_DEVIATIONS:
                    events.append(('run', name, dev))
        events.extend(self.user_events())
        if self.tick_enabled(any_run):
            events.append(('tick',))
        return events

    def tick_enabled(self, any_run):
        if any_run:
            return False
        dl = self.next_deadline()
        return dl is not None and dl > self.clock.now_us

    def user_events(self):
        return []

    def is_deviation(self, event):
        return event[0] == 'run' and len(event) > 2

    def apply(self, event):
        '''Apply one event.  Returns (violations, effective) where effective is
        False when a deviation event turned out to be identical to its default
        (the answer was never consumed).'''
        violations = []
        kind = event[0]
        effective = True
        if kind == 'run':
            proc = self.procs[event[1]]
            envobj = None
            if len(event) > 2:
                envobj = self.make_env(event[2])
            self.activate(proc)
            prev = vnet.set_env(envobj)
            try:
                src = proc.ctx.dispatch_one(None)
            finally:
                vnet.set_env(prev)
                GLib.set_current(None)
            if src is None:
                raise HarnessError('run event for %s but nothing was ready' % event[1])
            if envobj is not None:
                effective = envobj.used
                if effective:
                    self.dev_used += 1
        elif kind == 'tick':
            dl = self.next_deadline()
            if dl is None:
                raise HarnessError('tick without a pending timer')
            if dl > self.clock.now_us:
                self.clock.now_us = dl
            self.ticks += 1
        elif kind == 'user':
            violations.extend(self.apply_user(event) or ())
        else:
            raise HarnessError('unknown event %r' % (event,))
        violations.extend(self.collect(event))
        return violations, effective

    def make_env(self, dev):
        key, _, val = dev.partition('=')
        if key == 'recv':
            return vnet.Env(recv=val)
        if key == 'send':
            return vnet.Env(send=val)
        if key == 'sendclosed':
            return vnet.Env(send_closed=val)
        raise HarnessError('unknown deviation %r' % dev)

    def apply_user(self, event):
        raise HarnessError('no user events in this world')

    def bus_call(self, proc, path, member, *args, iface=None):
        '''A D-Bus method call arriving at a process (between loop iterations).
        Returns ('ok', value) or ('error', exception name, text).'''
        import dbus.proxies
        self.activate(proc)
        try:
            try:
                val = dbus.proxies.call_method(proc.bus, path, iface, member, args)
                return ('ok', val)
            except Exception as err:
                name = getattr(err, 'get_dbus_name', lambda: None)() or type(err).__name__
                return ('error', name, str(err))
        finally:
            GLib.set_current(None)

    # ---- observation plumbing
    def collect(self, event):
        '''Drain the recorders filled during the step into the monitors.'''
        out = []
        for conn in self.conns:
            log = conn.sent_log
            if log:
                conn.sent_log = []
                for (side, data) in log:
                    for mon in self.monitors:
                        out.extend(mon.on_wire(self, conn, side, data) or ())
        for name in sorted(self.procs):
            proc = self.procs[name]
            if proc.bus.records:
                for rec in proc.bus.drain_records():
                    for mon in self.monitors:
                        out.extend(mon.on_bus(self, proc, rec) or ())
            if proc.ctx.escaped:
                escs = proc.ctx.escaped
                proc.ctx.escaped = []
                for esc in escs:
                    for mon in self.monitors:
                        out.extend(mon.on_escaped(self, proc, esc) or ())
            if proc.ctx.warnings:
                proc.ctx.warnings = []
        for mon in self.monitors:
            out.extend(mon.on_event(self, event) or ())
        return out

    def check_state(self):
        out = []
        for mon in self.monitors:
            out.extend(mon.check_state(self) or ())
        return out

    def check_final(self):
        out = []
        for mon in self.monitors:
            out.extend(mon.check_final(self) or ())
        return out

    def describe(self):
        return dict(type=type(self).__name__, params=self.params)
