'''Command-line driver:  python -m vmc.check <PROP> [--tier quick|thorough]

Runs every scenario of a property (in parallel, one scenario per worker),
writes /verif/evidence/<PROP>.json and replay files, prints VIOLATION /
KNOWN-FINDING lines and sets the exit status (0 held, 1 violation, 2 harness
error).'''
import argparse
import hashlib
import importlib
import json
import multiprocessing
import os
import random
import sys
import time
import traceback

from . import env as _env

VERIF = _env.VERIF
# VERIF_OUT redirects evidence/replays (used when a scratch tree with a seeded defect is checked)
_OUT = os.environ.get('VERIF_OUT', VERIF)
EVIDENCE_DIR = os.path.join(_OUT, 'evidence')
REPLAY_DIR = os.path.join(_OUT, 'replays')


def _load(prop):
    _env.setup()
    return importlib.import_module('vmc.props.' + prop.lower())


def _limit_memory(gigabytes=8):
    '''Address-space ceiling per worker: a runaway allocation becomes a MemoryError in
    that worker instead of an out-of-memory kill somewhere in the machine.'''
    import resource
    cap = int(float(os.environ.get('VERIF_WORKER_MEM_GB', gigabytes)) * (1 << 30))
    try:
        resource.setrlimit(resource.RLIMIT_AS, (cap, cap))
    except (ValueError, OSError):
        pass


def run_scenario(job):
    '''Worker entry: run one scenario, return a JSON-able dict.'''
    (prop, scen) = job
    t0 = time.time()
    try:
        mod = _load(prop)
        from .findings import KnownFindings
        known = KnownFindings()
        if scen['kind'] == 'graph':
            from .explorer import Explorer
            params = scen['params']

            def build():
                return mod.build(params)
            ex = Explorer(build, dev_bound=scen.get('dev_bound', 0),
                          max_states=scen.get('max_states', 200000),
                          time_cap_s=scen.get('time_cap_s'), known=known,
                          use_snapshot=scen.get('use_snapshot', True),
                          validate_every=scen.get('validate_every', 50),
                          liveness=scen.get('liveness', True), scenario=scen['name'])
            res = ex.run()
            out = dict(
                name=scen['name'], kind='graph', states=res.states, transitions=res.transitions,
                max_depth=res.max_depth, dev_bound=res.dev_bound, validated=res.validated,
                skipped_ineffective=res.skipped_ineffective, pruned=res.pruned,
                bottom_sccs=res.bottom_sccs, deadlocks=res.deadlocks,
                final_outcomes=dict(res.final_outcomes), caps_hit=res.caps_hit,
                exhaustive=res.exhaustive, samples=res.samples,
                violations=[dict(v.as_dict(), events=tr) for (v, tr) in res.violations],
                known=[dict(v.as_dict(), events=tr, entry=ent) for (v, tr, ent) in res.known],
                wall_s=time.time() - t0)
            return out
        elif scen['kind'] == 'enum':
            func = getattr(mod, scen['runner'])
            out = func(scen['params'], known)
            out.setdefault('name', scen['name'])
            out['kind'] = 'enum'
            out['wall_s'] = time.time() - t0
            return out
        else:
            raise ValueError('unknown scenario kind %r' % scen['kind'])
    except Exception:
        return dict(name=scen.get('name'), kind='error', error=traceback.format_exc(), wall_s=time.time() - t0)


def write_replay(prop, scen, viol):
    os.makedirs(REPLAY_DIR, exist_ok=True)
    body = dict(property=prop, scenario=dict(name=scen['name'], kind=scen['kind'],
                                              params=scen.get('params'), runner=scen.get('runner')),
                violation={k: v for (k, v) in viol.items() if k not in ('events', 'case')},
                events=viol.get('events'), case=viol.get('case'))
    text = json.dumps(body, indent=1, sort_keys=True, default=str)
    name = '%s-%s.json' % (prop, hashlib.sha1(text.encode()).hexdigest()[:12])
    path = os.path.join(REPLAY_DIR, name)
    with open(path, 'w') as fobj:
        fobj.write(text)
    return path


def main(argv=None):
    ap = argparse.ArgumentParser()
    ap.add_argument('prop')
    ap.add_argument('--tier', default=os.environ.get('VERIF_TIER', 'quick'), choices=['quick', 'thorough'])
    ap.add_argument('--workers', type=int, default=int(os.environ.get('VERIF_WORKERS', '16')))
    ap.add_argument('--only', default=None, help='substring filter on scenario names')
    ap.add_argument('--list', action='store_true')
    args = ap.parse_args(argv)
    prop = args.prop.upper()
    seed = int(os.environ.get('VERIF_SEED', '0'))
    t0 = time.time()
    try:
        mod = _load(prop)
        scens = mod.scenarios(args.tier)
    except Exception:
        traceback.print_exc()
        print('HARNESS-ERROR property=%s cannot set up scenarios' % prop)
        return 2
    if args.only:
        scens = [s for s in scens if args.only in s['name']]
    if args.list:
        for s in scens:
            print(s['name'])
        return 0
    # the seed only permutes scheduling of scenarios over workers
    order = list(range(len(scens)))
    random.Random(seed).shuffle(order)
    # biggest first helps load balance; weight hint optional
    order.sort(key=lambda i: -scens[i].get('weight', 1))
    jobs = [(prop, scens[i]) for i in order]
    results = [None] * len(scens)
    if args.workers > 1 and len(jobs) > 1:
        # a worker that dies (e.g. killed by the kernel) must fail the run, never hang it
        import concurrent.futures
        ctx = multiprocessing.get_context('fork')
        with concurrent.futures.ProcessPoolExecutor(min(args.workers, len(jobs)), mp_context=ctx,
                                                    initializer=_limit_memory,
                                                    initargs=(getattr(mod, 'WORKER_MEM_GB', 8),)) as pool:
            futs = [pool.submit(run_scenario, job) for job in jobs]
            for (k, fut) in enumerate(futs):
                try:
                    results[order[k]] = fut.result()
                except Exception as err:
                    results[order[k]] = dict(name=jobs[k][1].get('name'), kind='error', wall_s=0.0,
                                             error='worker process lost: %r' % (err,))
    else:
        _limit_memory(getattr(mod, 'WORKER_MEM_GB', 8))
        for (k, job) in enumerate(jobs):
            results[order[k]] = run_scenario(job)

    status = 0
    lines = []
    nviol = 0
    known_lines = {}
    errors = []
    for (scen, out) in zip(scens, results):
        if out['kind'] == 'error':
            errors.append((scen['name'], out['error']))
            continue
        for viol in out.get('violations', []):
            path = write_replay(prop, scen, viol)
            lines.append('VIOLATION property=%s replay=%s' % (viol.get('property', prop), path))
            print('  scenario %s: %s/%s %s' % (scen['name'], viol['monitor'], viol['kind'], viol['signature']))
            print('    ' + str(viol['detail']).replace('\n', '\n    ')[:1500])
            nviol += 1
        for viol in out.get('known', []):
            ent = viol['entry']
            known_lines[ent['id']] = 'KNOWN-FINDING: property=%s %s' % (ent['property'], ent['what'])
    for (name, err) in errors:
        print('HARNESS-ERROR scenario=%s\n%s' % (name, err))
        status = 2
    for line in sorted(known_lines.values()):
        print(line)
    for line in lines:
        print(line)
    if nviol:
        # a violation (with its replay) stands even if another scenario could not be run
        status = 1

    evidence = mod.evidence(args.tier, seed, scens, [r for r in results], time.time() - t0)
    evidence['violations'] = nviol
    os.makedirs(EVIDENCE_DIR, exist_ok=True)
    # a run restricted with --only covers part of the scenario list: it does not replace the evidence of a full run
    with open(os.path.join(EVIDENCE_DIR, prop + ('.partial.json' if args.only else '.json')), 'w') as fobj:
        json.dump(evidence, fobj, indent=1, sort_keys=True, default=str)
    cov = evidence['coverage']
    brief = {k: cov[k] for k in ('states', 'transitions', 'traces_validated_against_impl', 'evaluations',
                                 'distinct_nontrivial', 'exhaustive') if k in cov}
    print('%s tier=%s scenarios=%d %s wall=%.1fs status=%d' % (prop, args.tier, len(scens), brief, time.time() - t0, status))
    return status


if __name__ == '__main__':
    sys.exit(main())
