'''Virtual network: stream connections, datagram and packet sockets, and a
`socket` module look-alike that is injected into the agents' namespaces.

Environment answers (how much a recv/send moves, EAGAIN, ...) are decided by
the harness per step through `Env`; defaults are "everything that is there".
'''
import errno
import socket as _real_socket


class Env(object):
    '''Per-step environment answer.  `recv`/`send` hold a non-default answer
    for the first matching I/O call of the step; `used` tells the explorer
    whether the deviation actually took effect.'''
    __slots__ = ('recv', 'send', 'send_closed', 'used')

    def __init__(self, recv=None, send=None, send_closed=None):
        self.recv = recv              # None | 'one' | 'eagain'
        self.send = send              # None | 'one' | 'allbut1' | 'eagain'
        self.send_closed = send_closed  # None | 'discard'
        self.used = False

    def is_default(self):
        return self.recv is None and self.send is None and self.send_closed is None


DEFAULT_ENV = Env()
_env = DEFAULT_ENV


def set_env(env):
    global _env
    prev = _env
    _env = env if env is not None else DEFAULT_ENV
    return prev


def get_env():
    return _env


class Wire(object):
    '''Observer hook: every octet string accepted by a stream send is reported
    to the world's monitors as (conn, sending side, data).'''
    __slots__ = ('sink',)

    def __init__(self):
        self.sink = None


class StreamConn(object):
    '''A TCP connection: two unidirectional byte pipes.'''

    def __init__(self, name='c0', addr0=('10.0.0.1', 40000), addr1=('10.0.0.2', 4556)):
        self.name = name
        self.buf = [bytearray(), bytearray()]   # buf[i]: octets in flight towards end i
        self.closed = [False, False]            # end i closed its socket
        self.shut_wr = [False, False]           # end i sent FIN
        self.addr = [addr0, addr1]
        self.sent_log = None                    # optional list, set by monitors
        self.capacity = None                    # octets one direction holds in flight (None: unbounded)
        self.reset = [False, False]             # end i has been reset by its peer (RST): one ECONNRESET, then end of stream
        self.reset_seen = [False, False]
        self.ends = [StreamSocket(self, 0), StreamSocket(self, 1)]


class StreamSocket(object):
    '''socket.socket look-alike for one end of a StreamConn.'''
    family = _real_socket.AF_INET
    type = _real_socket.SOCK_STREAM
    proto = _real_socket.IPPROTO_TCP

    def __init__(self, conn, side):
        self.conn = conn
        self.side = side
        self.blocking = True

    # --- harness-side helpers
    def _v_poll(self, env):
        from gi.repository import GLib
        conn, me, peer = self.conn, self.side, 1 - self.side
        if conn.closed[me]:
            return 0
        cond = 0
        if conn.buf[me] or conn.closed[peer] or conn.shut_wr[peer] or conn.reset[me]:
            cond |= GLib.IO_IN
        if conn.capacity is None or len(conn.buf[peer]) < conn.capacity or conn.closed[peer]:
            # (a pipe that is full is not writable until the peer has read)
            cond |= GLib.IO_OUT
        return cond

    def __repr__(self):
        return '<vsock %s/%d%s>' % (self.conn.name, self.side, ' closed' if self.conn.closed[self.side] else '')

    # --- socket API used by the code under test
    def setblocking(self, flag):
        self.blocking = bool(flag)

    def settimeout(self, value):
        self.blocking = value is None

    def fileno(self):
        return -1 if self.conn.closed[self.side] else 100 + self.side

    def getpeername(self):
        if self.conn.closed[self.side]:
            raise OSError(errno.EBADF, 'Bad file descriptor')
        return self.conn.addr[1 - self.side]

    def getsockname(self):
        if self.conn.closed[self.side]:
            raise OSError(errno.EBADF, 'Bad file descriptor')
        return self.conn.addr[self.side]

    def setsockopt(self, *args):
        return None

    def getsockopt(self, *args):
        return 0

    def recv(self, bufsize, flags=0):
        conn, me, peer = self.conn, self.side, 1 - self.side
        if conn.closed[me]:
            raise OSError(errno.EBADF, 'Bad file descriptor')
        if conn.reset[me]:
            # the peer vanished abortively: what was in flight is gone, the first read reports the reset
            del conn.buf[me][:]
            if not conn.reset_seen[me]:
                conn.reset_seen[me] = True
                raise ConnectionResetError(errno.ECONNRESET, 'Connection reset by peer')
            return b''
        buf = conn.buf[me]
        if not buf:
            if conn.closed[peer] or conn.shut_wr[peer]:
                return b''
            raise BlockingIOError(errno.EAGAIN, 'Resource temporarily unavailable')
        take = min(bufsize, len(buf))
        env = _env
        if env.recv == 'eagain' and not env.used:
            # a spurious wake-up: the socket was reported readable, this read finds nothing (the octets stay)
            env.used = True
            raise BlockingIOError(errno.EAGAIN, 'Resource temporarily unavailable')
        if env.recv == 'one' and not env.used:
            if take > 1:
                env.used = True
                take = 1
        data = bytes(buf[:take])
        del buf[:take]
        return data

    def send(self, data, flags=0):
        conn, me, peer = self.conn, self.side, 1 - self.side
        if conn.closed[me]:
            raise OSError(errno.EBADF, 'Bad file descriptor')
        if conn.shut_wr[me]:
            raise BrokenPipeError(errno.EPIPE, 'Broken pipe')
        data = bytes(data)
        env = _env
        if conn.reset[me]:
            raise ConnectionResetError(errno.ECONNRESET, 'Connection reset by peer')
        if conn.closed[peer]:
            if env.send_closed == 'discard' and not env.used:
                env.used = True
                return len(data)
            raise ConnectionResetError(errno.ECONNRESET, 'Connection reset by peer')
        take = len(data)
        if conn.capacity is not None and take > 0:
            # back-pressure: the peer has not read yet what is in flight
            space = conn.capacity - len(conn.buf[peer])
            if space <= 0:
                raise BlockingIOError(errno.EAGAIN, 'Resource temporarily unavailable')
            take = min(take, space)
        if not env.used and env.send is not None and take > 0:
            if env.send == 'eagain':
                env.used = True
                raise BlockingIOError(errno.EAGAIN, 'Resource temporarily unavailable')
            if env.send == 'one' and take > 1:
                env.used = True
                take = 1
            elif env.send == 'allbut1' and take > 2:
                env.used = True
                take = take - 1
        chunk = data[:take]
        conn.buf[peer] += chunk
        if conn.sent_log is not None:
            conn.sent_log.append((me, chunk))
        return take

    def sendall(self, data, flags=0):
        view = bytes(data)
        while view:
            sent = self.send(view)
            view = view[sent:]

    def shutdown(self, how):
        conn, me = self.conn, self.side
        if conn.closed[me]:
            raise OSError(errno.EBADF, 'Bad file descriptor')
        if conn.closed[1 - me]:
            # peer is gone: Linux reports ENOTCONN
            conn.shut_wr[me] = True
            raise OSError(errno.ENOTCONN, 'Transport endpoint is not connected')
        if how in (_real_socket.SHUT_WR, _real_socket.SHUT_RDWR):
            conn.shut_wr[me] = True

    def close(self):
        conn, me = self.conn, self.side
        conn.closed[me] = True
        conn.shut_wr[me] = True
        # unread octets towards a closed end are discarded
        conn.buf[me] = bytearray()

    def detach(self):
        return self.fileno()
