'''python -m vmc.replay <file> [-v]

Rebuild fresh real objects, apply the recorded history without the explorer and
re-evaluate the monitors.  Exit 1 if a violation is (still) observed.'''
import importlib
import json
import sys

from . import env as _env


class Narrator(object):
    '''Monitor that prints what happens (not part of any verdict).'''
    name = 'narrator'
    prop = None

    def __init__(self):
        from .oracle import tcpclv4 as T
        self.parsers = [T.StreamParser(), T.StreamParser()]

    def on_bus(self, world, proc, rec):
        if rec[0] == 'signal':
            print('      [%s] signal %s%r' % (proc.name, rec[3], tuple(rec[4])))
        else:
            print('      [%s] %s' % (proc.name, rec[:6]))
        return ()

    def on_wire(self, world, conn, side, data):
        for msg in self.parsers[side].feed(data):
            msg = dict(msg)
            msg.pop('raw', None)
            print('      wire %s-> %s' % ('AB'[side], msg))
        print('      octets %s-> %s' % ('AB'[side], bytes(data).hex()))
        return ()

    def on_escaped(self, world, proc, esc):
        print('      [%s] ESCAPED %s: %s' % (proc.name, esc.exc_type, esc.exc_text))
        return ()

    def on_event(self, world, event):
        return ()

    def on_user(self, world, side, op, res):
        print('      [%s] user %r -> %r' % (side, op, res))
        return ()

    def check_state(self, world):
        return ()

    def check_final(self, world):
        return ()

    def __verif_canon__(self, c):
        return None


def replay_graph(body, verbose=False):
    _env.setup()
    mod = importlib.import_module('vmc.props.' + body['property'].lower())
    world = mod.build(body['scenario']['params'])
    if verbose:
        world.monitors.append(Narrator())
    seen = []
    for event in body['events']:
        event = tuple(event)
        if verbose:
            print('  event %r' % (event,))
        (viols, effective) = world.apply(event)
        viols = list(viols) + list(world.check_state())
        if not effective:
            print('  !! deviation had no effect: replay diverges')
            return 2
        for v in viols:
            seen.append(v)
            print('  observed %s/%s %s' % (v.monitor, v.kind, v.signature))
            if verbose:
                print('    ' + str(v.detail).replace('\n', '\n    '))
    for v in world.check_final():
        seen.append(v)
        print('  final-state %s/%s %s: %s' % (v.monitor, v.kind, v.signature, str(v.detail)[:300]))
    if verbose:
        print('  enabled now: %r' % (world.enabled_events(),))
        if hasattr(world, 'conns') and world.conns:
            conn = world.conns[0]
            print('  sockets closed=%r in-flight=%r' % (conn.closed, [bytes(b).hex() for b in conn.buf]))
    want = body['violation']
    hit = [v for v in seen if v.kind == want['kind'] and v.monitor == want['monitor']]
    print('replay: %d violations observed, recorded one %s' % (len(seen), 'REPRODUCED' if hit else 'not reproduced'))
    return 1 if hit else 0


def main(argv=None):
    argv = list(sys.argv[1:] if argv is None else argv)
    verbose = '-v' in argv
    argv = [a for a in argv if a != '-v']
    with open(argv[0]) as fobj:
        body = json.load(fobj)
    if body['scenario']['kind'] == 'graph':
        return replay_graph(body, verbose)
    _env.setup()
    mod = importlib.import_module('vmc.props.' + body['property'].lower())
    if hasattr(mod, 'replay_case'):
        try:
            return mod.replay_case(body, verbose)
        except (KeyError, TypeError, ValueError, IndexError) as err:
            # the module's own replay does not know this kind of case: run the scenario again instead
            print('(%s: %s - running the scenario again)' % (type(err).__name__, err))
    return replay_enum(mod, body, verbose)


def replay_enum(mod, body, verbose):
    '''An enumeration scenario without a replay function of its own: the recorded case is printed and the
    scenario (a deterministic enumeration on fresh real objects, no explorer involved) is run again;
    the recorded violation counts as reproduced when a violation of the same kind is reported again.'''
    scen = body['scenario']
    want = body['violation']
    print('property %s, scenario %s (%s)' % (body['property'], scen['name'], scen.get('runner')))
    print('recorded case: %r' % (body.get('case'),))
    print('recorded violation: %s/%s: %s' % (want['monitor'], want['kind'], str(want['detail'])[:600 if not verbose else 4000]))
    func = getattr(mod, scen['runner'])
    res = func(scen.get('params') or {}, None)
    seen = res.get('violations', [])
    for v in seen:
        print('  observed %s/%s: %s' % (v['monitor'], v['kind'], str(v['detail'])[:300 if not verbose else 4000]))
    hit = [v for v in seen if v['kind'] == want['kind'] and v['monitor'] == want['monitor']]
    print('replay: %d cases evaluated, %d violations observed, recorded one %s' % (res.get('evaluations', 0), len(seen), 'REPRODUCED' if hit else 'not reproduced'))
    return 1 if hit else 0


if __name__ == '__main__':
    sys.exit(main())
