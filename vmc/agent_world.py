'''A real `tcpcl.agent.Agent` (process X: listening sockets, connect(), the
list of contacts, shutdown()/stop()) with several contacts, each to a real
passive or active ContactHandler in a process of its own (P0, P1, ...).

The agent module gets a `socket` look-alike whose stream sockets bind / listen /
accept / connect on the world's virtual TCP network.'''
import errno
import socket as _real

from . import env as _env
from . import vnet
from .world import World, HarnessError, Monitor

AGENT_PATH = '/org/ietf/dtn/tcpcl/Agent'
AGENT_IFACE = 'org.ietf.dtn.tcpcl.Agent'
CONTACT_IFACE = 'org.ietf.dtn.tcpcl.Contact'
X_ADDR = '10.0.0.1'

_CURRENT_NET = None


class TcpNet(object):
    '''Connection set-up of one world.'''

    def __init__(self):
        self.listeners = {}     # (address, port) -> VTcpSocket in listening state
        self.targets = {}       # (address, port) -> StreamConn whose end 0 a connect() to there becomes
        self.conns = []


class VTcpSocket(object):
    '''A TCP socket before it is connected / while it listens; once connected
    every call goes to the StreamSocket end it stands for.'''

    def __init__(self, net, family):
        self._net = net
        self.family = family
        self._end = None
        self._bound = None
        self._listening = False
        self._accept_q = []
        self._closed = False

    def __repr__(self):
        return '<vtcp %r %s>' % (self._bound, 'listening' if self._listening else self._end)

    def __getattr__(self, name):
        end = self.__dict__.get('_end')
        if end is None:
            raise AttributeError(name)
        return getattr(end, name)

    def _v_poll(self, env):
        from gi.repository import GLib
        if self._end is not None:
            return self._end._v_poll(env)
        if self._closed:
            return 0
        return GLib.IO_IN if self._accept_q else 0

    def fileno(self):
        if self._end is not None:
            return self._end.fileno()
        return -1 if self._closed else 400

    def setsockopt(self, *args):
        return None

    def setblocking(self, flag):
        if self._end is not None:
            self._end.setblocking(flag)

    def bind(self, sockaddr):
        self._bound = (sockaddr[0] or '0.0.0.0', sockaddr[1])

    def listen(self, backlog=1):
        if self._bound is None:
            raise OSError(errno.EINVAL, 'Invalid argument')
        if self._bound in self._net.listeners and not self._net.listeners[self._bound]._closed:
            raise OSError(errno.EADDRINUSE, 'Address already in use')
        self._listening = True
        self._net.listeners[self._bound] = self

    def accept(self):
        if self._closed:
            raise OSError(errno.EBADF, 'Bad file descriptor')
        if not self._accept_q:
            raise BlockingIOError(errno.EAGAIN, 'Resource temporarily unavailable')
        conn = self._accept_q.pop(0)
        return (conn.ends[1], conn.addr[0])

    def connect(self, sockaddr):
        key = (sockaddr[0], sockaddr[1])
        conn = self._net.targets.get(key)
        if conn is None:
            raise ConnectionRefusedError(errno.ECONNREFUSED, 'Connection refused')
        self._end = conn.ends[0]

    def getsockname(self):
        if self._end is not None:
            return self._end.getsockname()
        return self._bound or ('0.0.0.0', 0)

    def shutdown(self, how):
        if self._end is not None:
            return self._end.shutdown(how)
        return None

    def close(self):
        if self._end is not None:
            return self._end.close()
        self._closed = True
        if self._bound is not None and self._net.listeners.get(self._bound) is self:
            del self._net.listeners[self._bound]
        # connections still waiting to be accepted are reset, as the operating system does
        while self._accept_q:
            self._accept_q.pop(0).ends[1].close()


class TcpSocketModule(object):
    '''Stands in for the `socket` module inside tcpcl.agent.'''
    error = OSError
    gaierror = _real.gaierror
    timeout = _real.timeout

    def __getattr__(self, name):
        return getattr(_real, name)

    def socket(self, family=_real.AF_INET, type=_real.SOCK_STREAM, proto=0, fileno=None):
        if _CURRENT_NET is None:
            raise HarnessError('virtual TCP network used outside a world')
        return VTcpSocket(_CURRENT_NET, family)

    def getaddrinfo(self, host, port, family=0, type=0, proto=0, flags=0):
        return _real.getaddrinfo(host, port, family, type, proto, flags | _real.AI_NUMERICHOST)


class SignalLog(Monitor):
    '''Every D-Bus signal of every process, in emission order.'''
    name = 'signals'

    def __init__(self):
        self.log = []       # (process, object path, member, plain args)
        self.marshal_errors = []
        self.escaped = []

    def on_bus(self, world, proc, rec):
        if rec[0] == 'signal':
            self.log.append((proc.name, str(rec[1]), rec[3], tuple(_plain(a) for a in rec[4])))
        elif rec[0] in ('signal-marshal-error', 'return-marshal-error'):
            self.marshal_errors.append((proc.name,) + tuple(str(r)[:200] for r in rec[1:6]))
        return ()

    def on_escaped(self, world, proc, esc):
        self.escaped.append((proc.name, esc.exc_type, esc.exc_text, esc.tb))
        return ()


def _plain(val):
    if isinstance(val, (bytes, bytearray)):
        return bytes(val).hex()
    if isinstance(val, bool):
        return bool(val)
    if isinstance(val, int):
        return int(val)
    if isinstance(val, (list, tuple)):
        return tuple(_plain(v) for v in val)
    return str(val)


class AgentWorld(World):
    '''params: contacts = list of 'out' (X connects) / 'in' (the peer connects to X's
    listener); seg_mru; stop_on_close.'''

    def __init__(self, params):
        World.__init__(self)
        global _CURRENT_NET
        self.params = dict(seg_mru=4, stop_on_close=False, contacts=['out'])
        self.params.update(params)
        nsx = _env.load_tcpcl('A')
        nsp = _env.load_tcpcl('B')
        if not isinstance(getattr(nsx.agent, 'socket', None), TcpSocketModule):
            nsx.agent.socket = TcpSocketModule()
        self.net = TcpNet()
        self.sig = SignalLog()
        self.monitors = [self.sig]
        self.stops = 0
        px = self.add_proc('X')
        xcfg = dict(tls_enable=False, node_id='dtn://x/', segment_size_mru=self.params['seg_mru'],
                    segment_size_tx_initial=self.params['seg_mru'], stop_on_close=self.params['stop_on_close'])
        xcfg.update(self.params.get('x_config') or {})        # further settings of X as its operator wrote them
        cfg = nsx.config.Config(**xcfg)
        cfg._bus_conn = px.bus

        def make_agent():
            agent = nsx.agent.Agent(cfg, bus_kwargs=dict(conn=px.bus, object_path=AGENT_PATH))
            agent.set_on_stop(self._stopped)
            return agent
        px.roots['agent'] = self.in_proc(px, make_agent)
        self.contact_paths = []
        listening = False
        self.raw = {}
        for (i, kind) in enumerate(self.params['contacts']):
            if kind in ('raw', 'raw-late'):
                # a connection to X's listener with no TCPCL entity behind it: the harness writes its octets
                if not listening:
                    res = self.bus_call(px, AGENT_PATH, 'listen', X_ADDR, 4556, iface=AGENT_IFACE)
                    if res[0] != 'ok':
                        raise HarnessError('Agent.listen failed: %r' % (res,))
                    listening = True
                conn = vnet.StreamConn('c%d' % i, addr0=('10.0.%d.9' % (i + 1), 43000 + i), addr1=(X_ADDR, 4556))
                conn.sent_log = []
                if kind == 'raw':
                    self.net.listeners[(X_ADDR, 4556)]._accept_q.append(conn)
                self.contact_paths.append(None)
                self.conns.append(conn)
                self.raw[i] = conn
                continue
            pname = 'P%d' % i
            pp = self.add_proc(pname)
            pcfg = nsp.config.Config(tls_enable=False, node_id='dtn://p%d/' % i, segment_size_mru=self.params['seg_mru'],
                                     segment_size_tx_initial=self.params['seg_mru'])
            pcfg._bus_conn = pp.bus
            paddr = '10.0.%d.2' % (i + 1)
            if kind == 'out':
                conn = vnet.StreamConn('c%d' % i, addr0=(X_ADDR, 40000 + i), addr1=(paddr, 4556))
                self.net.targets[(paddr, 4556)] = conn
                res = self.bus_call(px, AGENT_PATH, 'connect', paddr, 4556, iface=AGENT_IFACE)
                if res[0] != 'ok':
                    raise HarnessError('Agent.connect failed: %r' % (res,))
                self.contact_paths.append(str(res[1]))
                hdl_kwargs = dict(config=pcfg, sock=conn.ends[1], fromaddr=conn.addr[0])
            else:
                if not listening:
                    res = self.bus_call(px, AGENT_PATH, 'listen', X_ADDR, 4556, iface=AGENT_IFACE)
                    if res[0] != 'ok':
                        raise HarnessError('Agent.listen failed: %r' % (res,))
                    listening = True
                conn = vnet.StreamConn('c%d' % i, addr0=(paddr, 41000 + i), addr1=(X_ADDR, 4556))
                self.net.listeners[(X_ADDR, 4556)]._accept_q.append(conn)
                self.contact_paths.append(None)     # known once X has accepted
                hdl_kwargs = dict(config=pcfg, sock=conn.ends[0], toaddr=conn.addr[1])
            conn.sent_log = []
            self.conns.append(conn)

            def make(hdl_kwargs=hdl_kwargs, pp=pp):
                hdl = nsp.session.ContactHandler(hdl_kwargs=hdl_kwargs,
                                                 bus_kwargs=dict(conn=pp.bus, object_path='/org/ietf/dtn/tcpcl/Contact0'))
                hdl.start()
                return hdl
            pp.roots['contact'] = self.in_proc(pp, make)
        self.collect(('init',))

    def activate(self, proc=None):
        global _CURRENT_NET
        _CURRENT_NET = self.net
        World.activate(self, proc)

    def _stopped(self):
        self.stops += 1

    def canon_extra(self, c):
        c.out.append('stops%d' % self.stops)

    # ---- driving
    def proc_names(self):
        return ['X'] + ['P%d' % i for (i, k) in enumerate(self.params['contacts']) if not k.startswith('raw')]

    def raw_arrive(self, i):
        '''The connection of kind 'raw-late' reaches X's listener now.'''
        lst = self.net.listeners.get((X_ADDR, 4556))
        if lst is not None and not lst._closed:
            lst._accept_q.append(self.raw[i])
        else:
            self.raw[i].closed[0] = self.raw[i].closed[1] = True

    def raw_write(self, i, data, eof=False):
        '''Octets (and possibly the end of the stream) from the entity-less connection i arrive at X.'''
        conn = self.raw[i]
        if not conn.closed[1]:
            conn.buf[1] += bytes(data)
        if eof:
            conn.closed[0] = True
            conn.shut_wr[0] = True

    def step(self, name):
        '''One ready callback of the named process; False if none is ready.'''
        proc = self.procs[name]
        if not self.runnable(proc):
            return False
        self.apply(('run', name))
        return True

    def run_policy(self, order, max_steps=3000, until=None, rotate=True):
        '''Fair schedule: repeatedly the first process of `order` (rotated after each step)
        that has a ready callback.  rotate=False: strict priorities instead - a process runs only
        when none before it in `order` has anything to do (the last one is a slow process).'''
        steps = 0
        order = list(order)
        while steps < max_steps:
            if until is not None and until():
                return steps
            for (k, name) in enumerate(order):
                if self.step(name):
                    if rotate:
                        order = order[k + 1:] + order[:k + 1]
                    steps += 1
                    break
            else:
                return steps
        raise HarnessError('no quiescence within %d steps' % max_steps)

    def x_contacts(self):
        res = self.bus_call(self.procs['X'], AGENT_PATH, 'get_connections', iface=AGENT_IFACE)
        return res

    def contact_state(self, pname, path):
        proc = self.procs[pname]
        if path not in proc.bus._objects:
            return None
        res = self.bus_call(proc, path, 'get_session_state', iface=CONTACT_IFACE)
        return str(res[1]) if res[0] == 'ok' else None
