'''Two real TCPCL endpoints (independent package copies) joined by a virtual
TCP connection, each in its own simulated process, plus a scripted user.'''
from . import env as _env
from . import vnet
from .world import World, HarnessError

PATH = '/org/ietf/dtn/tcpcl/Contact0'
IFACE = 'org.ietf.dtn.tcpcl.Contact'

SIDES = ('A', 'B')


def default_params():
    return dict(
        seg_mru={'A': 4, 'B': 4},
        tx_init={'A': 4, 'B': 4},
        chunk=10240,
        keepalive={'A': 0, 'B': 0},
        idle={'A': 0, 'B': 0},
        modulate={'A': None, 'B': None},
        scripts={'A': [], 'B': []},
        devs=(),
        auto_pop=True,
        ipv6=False,
        user_anytime=True,
        tick_policy='quiescent',
        max_ticks=4,
        enable_test={'A': (), 'B': ()},
    )


class TcpclWorld(World):
    def __init__(self, params=None):
        World.__init__(self)
        prm = default_params()
        if params:
            prm.update(params)
        self.params = prm
        self.RUN_DEVIATIONS = tuple(prm['devs'])
        self.script_pos = {'A': 0, 'B': 0}
        self.results = {'A': [], 'B': []}   # outcomes of user calls (ghost)
        self.ns = {}
        if prm.get('ipv6'):
            conn = vnet.StreamConn('c0', addr0=('fd00::1', 40000, 0, 0), addr1=('fd00::2', 4556, 0, 0))
        else:
            conn = vnet.StreamConn('c0')
        conn.sent_log = []
        if prm.get('pipe'):
            # each direction holds at most this many octets in flight (socket buffers of a slow path)
            conn.capacity = prm['pipe']
        self.conns.append(conn)
        for (idx, side) in enumerate(SIDES):
            ns = _env.load_tcpcl(side)
            self.ns[side] = side
            ns.session.Connection.CHUNK_SIZE = prm['chunk']
            proc = self.add_proc(side)
            cfg = ns.config.Config(
                tls_enable=False,
                node_id=(prm.get('node_ids') or {}).get(side, 'dtn://%s/' % side.lower()),
                keepalive_time=prm['keepalive'][side],
                idle_time=prm['idle'][side],
                segment_size_mru=prm['seg_mru'][side],
                segment_size_tx_initial=prm['tx_init'][side],
                modulate_target_ack_time=prm['modulate'][side],
                enable_test=set(prm['enable_test'][side]),
            )
            cfg._bus_conn = proc.bus
            hdl_kwargs = dict(config=cfg, sock=conn.ends[idx])
            if side == 'A':
                hdl_kwargs['toaddr'] = conn.addr[1]
            else:
                hdl_kwargs['fromaddr'] = conn.addr[0]

            def make(ns=ns, hdl_kwargs=hdl_kwargs, proc=proc):
                hdl = ns.session.ContactHandler(
                    hdl_kwargs=hdl_kwargs,
                    bus_kwargs=dict(conn=proc.bus, object_path=PATH))
                hdl.start()
                return hdl
            proc.roots['contact'] = self.in_proc(proc, make)
        self.collect(('init',))

    # the namespace objects are module-level singletons; keep them out of deepcopy/canon
    def namespace(self, side):
        return _env.load_tcpcl(side)

    def handler(self, side):
        return self.procs[side].roots['contact']

    def canon_extra(self, c):
        c.walk(self.script_pos)
        c.walk(self.results)
        c.out.append('ticks%d' % self.ticks if self.params['tick_policy'] != 'quiescent' else 't')

    # ---- user events
    def user_events(self):
        out = []
        scripts = self.params['scripts']
        for side in SIDES:
            pos = self.script_pos[side]
            if pos >= len(scripts[side]):
                continue
            proc = self.procs[side]
            if proc.ctx.has_live_pending():
                continue   # D-Bus calls are dispatched between loop iterations
            if PATH not in proc.bus._objects:
                continue   # contact object no longer on the bus
            out.append(('user', side, pos))
        return out

    def apply_user(self, event):
        (_u, side, pos) = event
        if pos != self.script_pos[side]:
            raise HarnessError('script position mismatch')
        op = self.params['scripts'][side][pos]
        self.script_pos[side] = pos + 1
        proc = self.procs[side]
        kind = op[0]
        if kind == 'send':
            data = bytes.fromhex(op[1])
            res = self.bus_call(proc, PATH, 'send_bundle_data', data, iface=IFACE)
        elif kind == 'terminate':
            res = self.bus_call(proc, PATH, 'terminate', op[1] if len(op) > 1 else 0, iface=IFACE)
        elif kind == 'close':
            res = self.bus_call(proc, PATH, 'close', iface=IFACE)
        elif kind == 'pop':
            res = self.bus_call(proc, PATH, 'recv_bundle_pop_data', op[1], iface=IFACE)
        elif kind == 'query':
            res = self.bus_call(proc, PATH, op[1], iface=IFACE)
        else:
            raise HarnessError('unknown user op %r' % (op,))
        out = []
        for mon in self.monitors:
            out.extend(mon.on_user(self, side, op, res) or ())
        return out

    def tick_enabled(self, any_run):
        if self.ticks >= self.params['max_ticks']:
            return False
        return World.tick_enabled(self, any_run)

    def tags(self):
        '''Scenario predicates used in finding signatures.'''
        return {}

    def outcome(self):
        parts = []
        for mon in self.monitors:
            oc = getattr(mon, 'outcome', None)
            if oc is not None:
                parts.append(oc(self))
        return '|'.join(parts) if parts else None
