'''Helpers to assemble evidence files from scenario results.'''
from . import env as _env


def graph_evidence(prop, tier, seed, scens, results, wall_s, assumptions, rule_text, extra=None):
    good = [r for r in results if r and r.get('kind') == 'graph']
    states = sum(r['states'] for r in good)
    transitions = sum(r['transitions'] for r in good)
    validated = sum(r['validated'] for r in good)
    outcomes = {}
    for r in good:
        for (k, v) in r.get('final_outcomes', {}).items():
            outcomes[k] = outcomes.get(k, 0) + v
    caps = []
    for r in good:
        for cap in r.get('caps_hit', []):
            caps.append('%s: %s' % (r['name'], cap))
    samples = []
    for r in good[:6]:
        for smp in r.get('samples', [])[:1]:
            samples.append(dict(scenario=r['name'], events=smp['events']))
    coverage = dict(
        states=states, transitions=transitions, traces_validated_against_impl=validated,
        samples=samples or [dict(note='no scenario completed')],
        scenarios=[dict(name=r['name'], states=r['states'], transitions=r['transitions'],
                        max_depth=r['max_depth'], dev_bound=r['dev_bound'],
                        bottom_sccs=r['bottom_sccs'], deadlocks=r['deadlocks'],
                        pruned_known=r['pruned'], exhaustive=r['exhaustive'],
                        distinct_final_outcomes=len(r.get('final_outcomes', {})),
                        wall_s=round(r['wall_s'], 2)) for r in good],
        max_depth=max([r['max_depth'] for r in good] or [0]),
        deviation_bound_completed=min([r['dev_bound'] for r in good if r['exhaustive']] or [0]),
        bottom_sccs=sum(r['bottom_sccs'] for r in good),
        distinct_outcomes=len(outcomes),
        final_outcomes=outcomes,
        caps_hit=caps,
        exhaustive=all(r['exhaustive'] for r in good) and len(good) == len(results),
        known_findings_pruned=sum(r['pruned'] for r in good),
        rule=rule_text,
        repo=_env.repo_head(),
    )
    if extra:
        coverage.update(extra)
    return dict(property_id=prop, tier=tier, seed=seed, level='model_checking', coverage=coverage,
                assumptions=assumptions, wall_s=round(wall_s, 2))


def enum_evidence(prop, level, tier, seed, scens, results, wall_s, assumptions, rule_text, extra=None):
    good = [r for r in results if r and r.get('kind') == 'enum']
    evaluations = sum(r.get('evaluations', 0) for r in good)
    keys = set()
    for r in good:
        keys.update(r.get('nontrivial_keys', []))
    nontrivial = sum(r.get('distinct_nontrivial', 0) for r in good) if not keys else len(keys)
    samples = []
    for r in good:
        samples.extend(r.get('samples', [])[:2])
    coverage = dict(
        evaluations=evaluations, distinct_nontrivial=nontrivial, rule=rule_text,
        samples=samples[:12] or [dict(note='no scenario completed')],
        scenarios=[dict(name=r['name'], evaluations=r.get('evaluations', 0),
                        wall_s=round(r.get('wall_s', 0), 2),
                        **{k: r[k] for k in r.get('report_keys', []) if k in r}) for r in good],
        exhaustive=all(r.get('exhaustive', True) for r in good) and len(good) == len(results),
        repo=_env.repo_head(),
    )
    if extra:
        coverage.update(extra)
    return dict(property_id=prop, tier=tier, seed=seed, level=level, coverage=coverage,
                assumptions=assumptions, wall_s=round(wall_s, 2))
