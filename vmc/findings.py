'''Known findings: genuine defects of the repository that are recorded rather
than repaired.  The file is committed and never written at run time.  An
entry matches a violation when property, monitor and kind are equal and every
key of the entry's signature has the same value in the violation's signature
(signatures hold observables only: symptom, exception type, scenario
predicate -- no source identifiers).'''
import json
import os

PATH = os.path.join(os.path.dirname(os.path.dirname(os.path.abspath(__file__))), 'KNOWN_FINDINGS.json')


class KnownFindings(object):
    def __init__(self, path=PATH):
        self.entries = []
        self.fixed = []
        if os.path.exists(path):
            with open(path) as fobj:
                data = json.load(fobj)
            self.entries = list(data.get('findings', []))
            self.fixed = list(data.get('fixed', []))

    def match(self, viol):
        vd = viol if isinstance(viol, dict) else viol.as_dict()
        for ent in self.entries:
            if ent.get('property') != vd['property']:
                continue
            if ent.get('monitor') not in (None, vd['monitor']):
                continue
            if ent.get('kind') != vd['kind']:
                continue
            sig = ent.get('signature', {})
            vsig = vd.get('signature', {})
            if all(vsig.get(k) == v for (k, v) in sig.items()):
                return ent
        return None
