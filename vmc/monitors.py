'''Safety / liveness monitors for the TCPCL worlds.  Monitors only look at
observables: octets on the virtual wire (parsed by the independent decoder),
records of the D-Bus boundary, socket states, exceptions leaving callbacks.
'''
from .world import Monitor, Violation
from .oracle import tcpclv4 as T
from .tcpcl_world import PATH, IFACE, SIDES


def other(side):
    return 'B' if side == 'A' else 'A'


class EscapeMonitor(Monitor):
    '''No exception may leave an event-loop callback.'''
    name = 'escape'

    def __init__(self, prop):
        self.prop = prop
        self.count = 0

    def on_escaped(self, world, proc, esc):
        self.count += 1
        sig = dict(exc=esc.exc_type, source=esc.source_kind)
        sig.update(world.tags())
        return [Violation(self.prop, self.name, 'escaped-exception', sig,
                          'process %s: %s: %s\n%s' % (proc.name, esc.exc_type, esc.exc_text, esc.tb))]


class DeliveryMonitor(Monitor):
    '''C01: exactly-once, intact, in-order delivery; success only after the
    receiver holds the complete bundle.  Plays the part of the BP-side
    adaptor: pops a bundle when its finished signal is seen.'''
    name = 'delivery'
    prop = 'C01'

    def __init__(self, prop='C01', expect_all=True):
        self.prop = prop
        self.expect_all = expect_all
        self.queued = {'A': [], 'B': []}      # (transfer id text, data hex) in queue order
        self.delivered = {'A': [], 'B': []}   # data hex popped at the receiver, in announce order
        self.success = {'A': [], 'B': []}     # transfer ids reported 'success' at the sender
        self.finished = {'A': [], 'B': []}    # (id, result) every send_bundle_finished
        self.to_pop = []

    def on_user(self, world, side, op, res):
        if op[0] == 'send':
            if res[0] == 'ok':
                self.queued[side].append((str(res[1]), op[1]))
            else:
                self.queued[side].append((None, op[1]))
        return ()

    def on_bus(self, world, proc, rec):
        out = []
        if rec[0] != 'signal':
            return out
        (_k, path, iface, member, args) = rec
        side = proc.name
        if member == 'recv_bundle_finished':
            (bid, length, result) = args
            if str(result) == 'success':
                self.to_pop.append((side, str(bid), int(length)))
        elif member == 'send_bundle_finished':
            (bid, length, result) = args
            self.finished[side].append((str(bid), str(result)))
            if str(result) == 'success':
                self.success[side].append(str(bid))
                # the peer must already hold the complete bundle
                idx = self._queue_index(side, str(bid))
                peer = other(side)
                if idx is None:
                    out.append(self._v(world, 'success-for-unknown-transfer', dict(), 'id %s' % bid))
                elif len(self.delivered[peer]) + sum(1 for p in self.to_pop if p[0] == peer) <= idx:
                    out.append(self._v(world, 'success-before-receipt', dict(),
                                       '%s reported success for transfer %s but %s holds %d bundles'
                                       % (side, bid, peer, len(self.delivered[peer]))))
        return out

    def _queue_index(self, side, bid):
        for (idx, (qid, _d)) in enumerate(self.queued[side]):
            if qid == bid:
                return idx
        return None

    def on_event(self, world, event):
        out = []
        pops = self.to_pop
        self.to_pop = []
        for (side, bid, length) in pops:
            proc = world.procs[side]
            res = world.bus_call(proc, PATH, 'recv_bundle_pop_data', bid, iface=IFACE)
            proc.bus.drain_records()
            if res[0] != 'ok':
                out.append(self._v(world, 'announced-bundle-cannot-be-popped', dict(), repr(res)))
                continue
            data = bytes(res[1]).hex()
            self.delivered[side].append(data)
            sender = other(side)
            idx = len(self.delivered[side]) - 1
            want = [d for (_i, d) in self.queued[sender]]
            if idx >= len(want):
                out.append(self._v(world, 'delivered-more-than-queued', dict(), 'extra bundle %s' % data))
            elif want[idx] != data:
                kind = 'delivered-data-differs'
                if data in want:
                    kind = 'delivered-out-of-order-or-duplicate'
                out.append(self._v(world, kind, dict(),
                                   '%s received %r as bundle #%d, %s queued %r' % (side, data, idx, sender, want)))
            if length * 2 != len(data):
                out.append(self._v(world, 'announced-length-differs', dict(), '%d vs %d' % (length, len(data) // 2)))
        return out

    def _v(self, world, kind, sig, detail):
        sig = dict(sig)
        sig.update(world.tags())
        return Violation(self.prop, self.name, kind, sig, detail)

    def check_final(self, world):
        out = []
        if not self.expect_all:
            return out
        for side in SIDES:
            peer = other(side)
            want = [d for (_i, d) in self.queued[side]]
            pos = world.script_pos[side]
            # user operations not yet issued are not owed
            if self.delivered[peer] != want:
                missing = want[len(self.delivered[peer]):]
                sig = dict(zero_length=any(d == '' for d in missing[:1]))
                out.append(self._v(world, 'queued-bundle-never-delivered', sig,
                                   '%s queued %r, %s holds %r' % (side, want, peer, self.delivered[peer])))
            ids = [i for (i, _d) in self.queued[side]]
            if sorted(self.success[side]) != sorted(i for i in ids if i is not None):
                sig = dict()
                out.append(self._v(world, 'success-signals-incomplete', sig,
                                   '%s queued ids %r, success for %r' % (side, ids, self.success[side])))
        return out

    def outcome(self, world):
        return 'dlv:%d/%d,%d/%d' % (len(self.delivered['B']), len(self.queued['A']),
                                    len(self.delivered['A']), len(self.queued['B']))


class WireMonitor(Monitor):
    '''C04: each direction of the connection carries only an RFC 9174-legal
    sequence, judged by the independent incremental decoder.'''
    name = 'wire'
    prop = 'C04'

    def __init__(self, prop='C04'):
        self.prop = prop
        # indexed by sending side 0 (A) / 1 (B)
        self.parser = [T.StreamParser(), T.StreamParser()]
        self.n_init = [0, 0]
        self.n_term = [0, 0]
        self.term_flags = [None, None]
        self.cur = [None, None]          # current transfer: [id, sent, declared_total]
        self.used_ids = [[], []]
        self.unacked = [[], []]          # segments sent by side i awaiting ACK: (flags, id, cumulative)
        self.peer_mru = [None, None]     # segment MRU announced *to* side i (by the other side)

    def _v(self, world, kind, sig, detail):
        sig = dict(sig)
        sig.update(world.tags())
        return Violation(self.prop, self.name, kind, sig, detail)

    def on_wire(self, world, conn, side, data):
        out = []
        for msg in self.parser[side].feed(data):
            out.extend(self.on_message(world, side, msg))
        return out

    def on_message(self, world, side, msg):
        out = []
        kind = msg['kind']
        who = SIDES[side]
        if kind == 'MALFORMED':
            out.append(self._v(world, 'undecodable-octets', dict(), '%s wrote octets no RFC 9174 decoder accepts: %s' % (who, msg['text'])))
            return out
        if kind == 'CONTACT':
            if msg['magic'] != T.MAGIC or msg['version'] != 4:
                out.append(self._v(world, 'bad-contact-header', dict(), repr(msg)))
            return out
        if self.n_init[side] == 0:
            if kind != 'SESS_INIT':
                out.append(self._v(world, 'message-before-sess-init', dict(msg=kind), '%s sent %s before SESS_INIT' % (who, kind)))
                return out
            self.n_init[side] = 1
            self.peer_mru[1 - side] = msg['segment_mru']
            # the node ID it carries is the sender's own, as text
            own = (world.params.get('node_ids') or {}).get(who, 'dtn://%s/' % who.lower()) if hasattr(world, 'params') else None
            if own is not None and bytes(msg['node_id']) != own.encode('utf-8'):
                out.append(self._v(world, 'sess-init-node-id-differs-from-configuration', dict(),
                                   '%s is configured as %r and announced %r' % (who, own, bytes(msg['node_id']))))
            return out
        if kind == 'SESS_INIT':
            out.append(self._v(world, 'second-sess-init', dict(), who))
            return out
        if kind == 'SESS_TERM':
            self.n_term[side] += 1
            self.term_flags[side] = msg['flags']
            if self.n_term[side] > 1:
                out.append(self._v(world, 'second-sess-term', dict(), '%s sent SESS_TERM twice' % who))
            return out
        if kind == 'XFER_SEGMENT':
            flags = msg['flags']
            tid = msg['transfer_id']
            if self.peer_mru[side] is None:
                out.append(self._v(world, 'segment-before-peer-sess-init', dict(), who))
            elif len(msg['data']) > self.peer_mru[side]:
                out.append(self._v(world, 'segment-exceeds-peer-mru', dict(),
                                   '%s sent %d octets, peer MRU %d' % (who, len(msg['data']), self.peer_mru[side])))
            if flags & T.FLAG_START:
                if self.n_term[side]:
                    out.append(self._v(world, 'transfer-started-after-sess-term', dict(),
                                       '%s started transfer %d after its own SESS_TERM' % (who, tid)))
                if self.cur[side] is not None:
                    out.append(self._v(world, 'start-inside-transfer', dict(), '%s: START of %d inside %r' % (who, tid, self.cur[side])))
                if tid in self.used_ids[side]:
                    out.append(self._v(world, 'transfer-id-reused', dict(), '%s reused id %d' % (who, tid)))
                self.used_ids[side].append(tid)
                total = None
                for (_f, typ, val) in msg['ext']:
                    if typ == T.EXT_TRANSFER_LENGTH and len(val) == 8:
                        total = int.from_bytes(val, 'big')
                if total is None:
                    out.append(self._v(world, 'start-without-transfer-length', dict(), who))
                self.cur[side] = [tid, 0, total]
            else:
                if self.cur[side] is None:
                    out.append(self._v(world, 'segment-without-start', dict(), '%s: id %d' % (who, tid)))
                    self.cur[side] = [tid, 0, None]
                elif self.cur[side][0] != tid:
                    out.append(self._v(world, 'segments-not-contiguous', dict(),
                                       '%s: segment of %d inside transfer %d' % (who, tid, self.cur[side][0])))
            cur = self.cur[side]
            cur[1] += len(msg['data'])
            self.unacked[side].append((flags, tid, cur[1]))
            if flags & T.FLAG_END:
                if cur[2] is not None and cur[2] != cur[1]:
                    out.append(self._v(world, 'transfer-length-mismatch', dict(),
                                       '%s declared %d sent %d' % (who, cur[2], cur[1])))
                self.cur[side] = None
            elif cur[2] is not None and cur[1] >= cur[2] and not (cur[1] == 0 and cur[2] == 0):
                out.append(self._v(world, 'end-flag-missing', dict(), '%s sent %d of %d without END' % (who, cur[1], cur[2])))
            return out
        if kind == 'XFER_ACK':
            pend = self.unacked[1 - side]
            if not pend:
                out.append(self._v(world, 'ack-without-segment', dict(), '%s: %r' % (who, msg)))
                return out
            (flags, tid, cum) = pend.pop(0)
            if (msg['flags'], msg['transfer_id'], msg['length']) != (flags, tid, cum):
                out.append(self._v(world, 'ack-does-not-echo-segment', dict(),
                                   '%s acked (flags %d id %d len %d), segment was (flags %d id %d cumulative %d)'
                                   % (who, msg['flags'], msg['transfer_id'], msg['length'], flags, tid, cum)))
            return out
        if kind == 'XFER_REFUSE':
            # refusal voids outstanding acks of that transfer
            self.unacked[1 - side] = [p for p in self.unacked[1 - side] if p[1] != msg['transfer_id']]
            return out
        return out

    def check_final(self, world):
        # nothing further can change: what a side has written on a connection that is still open
        # must end at a message boundary
        out = []
        conns = getattr(world, 'conns', [])
        if conns and not any(conns[0].closed):
            for side in (0, 1):
                if self.parser[side].pending() and not self.parser[side].dead:
                    out.append(self._v(world, 'stream-ends-inside-a-message', dict(),
                                       '%s stopped writing %d octets into a message (connection still open, nothing pending)'
                                       % (SIDES[side], self.parser[side].pending())))
        return out

    def outcome(self, world):
        return 'term:%d,%d' % (self.n_term[0], self.n_term[1])


class TerminationMonitor(Monitor):
    '''C09: graceful termination completes what was started, starts nothing
    new, exchanges exactly one SESS_TERM each way (responder's marked REPLY),
    reports unstarted bundles, and always ends with both sockets closed.'''
    name = 'termination'
    prop = 'C09'

    def __init__(self, prop='C09', delivery=None, wire=None):
        self.prop = prop
        self.delivery = delivery      # DeliveryMonitor of the same world
        self.wire = wire              # WireMonitor of the same world
        self.initiated = {'A': False, 'B': False}   # user terminate() accepted
        self.term_refused = {'A': 0, 'B': 0}
        self.hard_close = {'A': False, 'B': False}  # user close()
        self.started = {'A': [], 'B': []}           # transfer ids with send_bundle_started
        self.established = {'A': False, 'B': False}
        self.ending = {'A': False, 'B': False}      # endpoint announced state 'ending'
        self.late = {'A': [], 'B': []}              # ids queued after the endpoint was 'ending'

    def _v(self, world, kind, sig, detail):
        sig = dict(sig)
        sig.update(world.tags())
        return Violation(self.prop, self.name, kind, sig, detail)

    def on_user(self, world, side, op, res):
        if op[0] == 'send' and res[0] == 'ok' and self.ending[side]:
            self.late[side].append(str(res[1]))
        if op[0] == 'terminate':
            if res[0] == 'ok':
                self.initiated[side] = True
            else:
                self.term_refused[side] += 1
        elif op[0] == 'close':
            self.hard_close[side] = True
        return ()

    def on_bus(self, world, proc, rec):
        if rec[0] == 'signal':
            member = rec[3]
            if member == 'send_bundle_started':
                self.started[proc.name].append(str(rec[4][0]))
            elif member == 'session_state_changed' and str(rec[4][0]) == 'established':
                self.established[proc.name] = True
            elif member == 'session_state_changed' and str(rec[4][0]) == 'ending':
                self.ending[proc.name] = True
        return ()

    def check_state(self, world):
        out = []
        wire = self.wire
        if wire is not None:
            for (idx, side) in enumerate(SIDES):
                flags = wire.term_flags[idx]
                if flags is None:
                    continue
                is_reply = bool(flags & T.TERM_REPLY)
                if self.initiated[side] and is_reply:
                    out.append(self._v(world, 'initiator-sess-term-marked-reply', dict(), side))
                if not self.initiated[side] and not is_reply and not self._timer_initiated(world, side):
                    out.append(self._v(world, 'responder-sess-term-not-marked-reply', dict(), side))
        return out

    def _timer_initiated(self, world, side):
        return world.params['idle'][side] > 0

    def check_final(self, world):
        out = []
        conn = world.conns[0]
        any_term = self.initiated['A'] or self.initiated['B']
        any_close = self.hard_close['A'] or self.hard_close['B']
        closed = list(conn.closed)
        if (any_term or any_close or closed[0] or closed[1]) and not (closed[0] and closed[1]):
            kind = 'session-left-half-open' if (closed[0] or closed[1]) else 'termination-never-closes'
            out.append(self._v(world, kind, dict(),
                               'sockets closed A=%s B=%s after terminate=%r close=%r'
                               % (closed[0], closed[1], self.initiated, self.hard_close)))
        for side in SIDES:
            proc = world.procs[side]
            if closed[SIDES.index(side)] and PATH in proc.bus._objects:
                out.append(self._v(world, 'closed-contact-still-on-bus', dict(), side))
        if any_term and not any_close and self.wire is not None:
            both_est = self.established['A'] and self.established['B']
            if both_est:
                for (idx, side) in enumerate(SIDES):
                    if self.wire.n_term[idx] != 1:
                        out.append(self._v(world, 'sess-term-count', dict(count=self.wire.n_term[idx]),
                                           '%s sent %d SESS_TERM messages' % (side, self.wire.n_term[idx])))
        if any_term and not any_close and self.delivery is not None:
            dlv = self.delivery
            for side in SIDES:
                peer = other(side)
                fin = dict()
                for (bid, result) in dlv.finished[side]:
                    fin.setdefault(bid, []).append(result)
                for (bid, results) in fin.items():
                    if len(results) > 1:
                        out.append(self._v(world, 'transfer-finished-twice', dict(), '%s id %s: %r' % (side, bid, results)))
                # a transfer in progress when termination was requested still completes
                for bid in self.started[side]:
                    if fin.get(bid) != ['success']:
                        out.append(self._v(world, 'started-transfer-not-completed', dict(),
                                           '%s transfer %s was started; finished signals %r' % (side, bid, fin.get(bid))))
                # queued but never started: reported, not silently lost
                for (bid, _data) in dlv.queued[side]:
                    if bid is None or bid in self.late[side]:
                        # weaker reading: a bundle queued after the endpoint announced
                        # 'ending' is not owed a report
                        continue
                    if bid not in fin:
                        out.append(self._v(world, 'queued-transfer-silently-lost', dict(),
                                           '%s transfer %s was queued, never started and never reported' % (side, bid)))
                ok_ids = [bid for (bid, res) in dlv.finished[side] if res == 'success']
                if len(dlv.delivered[peer]) != len(ok_ids):
                    out.append(self._v(world, 'success-count-differs-from-delivered', dict(),
                                       '%s success for %r, %s holds %d' % (side, ok_ids, peer, len(dlv.delivered[peer]))))
        return out

    def outcome(self, world):
        conn = world.conns[0]
        return 'closed:%d%d init:%d%d' % (conn.closed[0], conn.closed[1], self.initiated['A'], self.initiated['B'])


class NegotiationMonitor(Monitor):
    '''C14 (a): once both SESS_INITs are exchanged the D-Bus view of the
    session parameters shows min(keepalive) and the peer's announced values.'''
    name = 'negotiation'
    prop = 'C14'

    def __init__(self, prop='C14'):
        self.prop = prop
        self.checked = {'A': False, 'B': False}

    def on_bus(self, world, proc, rec):
        out = []
        if rec[0] == 'signal' and rec[3] == 'session_state_changed' and str(rec[4][0]) == 'established':
            side = proc.name
            peer = other(side)
            prm = world.params
            res = world.bus_call(proc, PATH, 'get_session_parameters', iface=IFACE)
            proc.bus.drain_records()
            self.checked[side] = True
            if res[0] != 'ok':
                return [Violation(self.prop, self.name, 'session-parameters-unavailable', dict(), repr(res))]
            got = {str(k): v for (k, v) in dict(res[1]).items()}
            want_ka = min(prm['keepalive']['A'], prm['keepalive']['B'])
            clamp = lambda v: min(2 ** 31 - 1, v)
            want = dict(keepalive=want_ka, peer_nodeid='dtn://%s/' % peer.lower(),
                        peer_segment_mru=clamp(prm['seg_mru'][peer]), peer_transfer_mru=clamp(2 ** 64 - 1))
            for (key, val) in want.items():
                if key not in got or got[key] != val:
                    out.append(Violation(self.prop, self.name, 'negotiated-parameter-wrong', dict(parameter=key),
                                         '%s reports %s=%r, expected %r (keepalives %r)' % (side, key, got.get(key), val, prm['keepalive'])))
        return out


class TimerMonitor(Monitor):
    '''C14 (b,c): KEEPALIVE exactly when the negotiated interval has elapsed
    since the endpoint last sent anything; SESS_TERM(idle timeout) exactly when
    the configured idle time elapsed without traffic either way.  Time only
    passes in quiescent states (zero-time computation), so "elapsed" is exact.'''
    name = 'timers'
    prop = 'C14'

    def __init__(self, prop='C14'):
        self.prop = prop
        self.parser = [T.StreamParser(), T.StreamParser()]
        self.last_tx = [None, None]      # virtual time of the last octets written by side i
        self.last_rx = [None, None]      # virtual time octets last arrived for side i
        self.established = [False, False]
        self.term_sent = [False, False]
        self.keepalives = [0, 0]
        self.prev_len = [0, 0]
        self.quiet_at_decision = [None, None]

    def _v(self, world, kind, sig, detail):
        return Violation(self.prop, self.name, kind, sig, detail)

    def on_bus(self, world, proc, rec):
        if rec[0] == 'signal' and rec[3] == 'session_state_changed' and str(rec[4][0]) == 'established':
            self.established[SIDES.index(proc.name)] = True
        if rec[0] == 'signal' and rec[3] == 'session_state_changed' and str(rec[4][0]) == 'ending':
            # the moment the endpoint decided to terminate
            idx = SIDES.index(proc.name)
            now = world.clock.now_us
            self.quiet_at_decision[idx] = now - max(x for x in (self.last_tx[idx], self.last_rx[idx], 0) if x is not None)
        return ()

    def on_wire(self, world, conn, side, data):
        out = []
        now = world.clock.now_us
        prm = world.params
        ka = min(prm['keepalive']['A'], prm['keepalive']['B']) * 10 ** 6
        prev_tx = self.last_tx[side]
        for msg in self.parser[side].feed(data):
            who = SIDES[side]
            if msg['kind'] == 'KEEPALIVE':
                self.keepalives[side] = min(self.keepalives[side] + 1, 3)
                if ka == 0:
                    out.append(self._v(world, 'keepalive-while-disabled', dict(), who))
                elif prev_tx is not None and now - prev_tx != ka:
                    out.append(self._v(world, 'keepalive-at-wrong-time', dict(),
                                       '%s sent KEEPALIVE %d us after its previous transmission, interval is %d us' % (who, now - prev_tx, ka)))
            if msg['kind'] == 'SESS_TERM':
                self.term_sent[side] = True
                if msg['reason'] == 1 and not (msg['flags'] & T.TERM_REPLY):
                    idle = prm['idle'][who] * 10 ** 6
                    quiet = self.quiet_at_decision[side]
                    if idle == 0 or quiet != idle:
                        out.append(self._v(world, 'idle-timeout-at-wrong-time', dict(),
                                           '%s sent SESS_TERM(idle) after %d us of silence, idle time %d us' % (who, quiet, idle)))
        self.last_tx[side] = now
        return out

    def on_event(self, world, event):
        # octets count as received when the endpoint reads them from its socket
        conn = world.conns[0]
        for (idx, who) in enumerate(SIDES):
            cur = len(conn.buf[idx])
            if event[0] == 'run' and event[1] == who and cur < self.prev_len[idx]:
                self.last_rx[idx] = world.clock.now_us
            self.prev_len[idx] = cur
        return ()

    def check_state(self, world):
        out = []
        # only in quiescent states has every due timer had its chance to run
        for proc in world.procs.values():
            if world.runnable(proc):
                return out
        now = world.clock.now_us
        prm = world.params
        conn = world.conns[0]
        ka = min(prm['keepalive']['A'], prm['keepalive']['B']) * 10 ** 6
        for (idx, who) in enumerate(SIDES):
            if not self.established[idx] or conn.closed[idx]:
                continue
            if ka and self.last_tx[idx] is not None and now - self.last_tx[idx] >= ka and not conn.closed[1 - idx]:
                out.append(self._v(world, 'keepalive-missed', dict(),
                                   '%s has been silent for %d us, negotiated keepalive %d us' % (who, now - self.last_tx[idx], ka)))
            idle = prm['idle'][who] * 10 ** 6
            if idle and not self.term_sent[idx]:
                quiet = now - max(x for x in (self.last_tx[idx], self.last_rx[idx], 0) if x is not None)
                if quiet >= idle:
                    out.append(self._v(world, 'idle-timeout-missed', dict(),
                                       '%s saw no traffic for %d us, idle time %d us, and did not start termination' % (who, quiet, idle)))
        return out

    def __verif_canon__(self, c):
        now = c.now_us
        c.walk([None if x is None else x - now for x in self.last_tx])
        c.walk([None if x is None else x - now for x in self.last_rx])
        c.walk(self.established)
        c.walk(self.term_sent)
        c.walk(self.keepalives)
        c.walk(self.prev_len)
        c.walk(self.quiet_at_decision)
        c.walk(self.parser)


class DbusViewMonitor(Monitor):
    '''C18: every signal / return value fits its declared signature; the
    receive queue lists exactly announced-and-not-popped ids, popping yields
    the data exactly once, the send queue lists exactly queued-and-not-finished
    ids, at most one finished signal per transfer, and the idle indication is
    true only when nothing is queued, in progress or unacknowledged (and true
    once everything has drained).'''
    name = 'dbus-view'
    prop = 'C18'

    def __init__(self, prop='C18'):
        self.prop = prop
        self.announced = {'A': [], 'B': []}     # (id, length) from recv_bundle_finished
        self.popped = {'A': [], 'B': []}
        self.queued = {'A': [], 'B': []}        # (id, data hex)
        self.started = {'A': [], 'B': []}
        self.finished = {'A': [], 'B': []}      # (id, result)
        self.rx_started = {'A': [], 'B': []}
        self.pending_errors = []

    def _v(self, world, kind, sig, detail):
        return Violation(self.prop, self.name, kind, sig, detail)

    def on_bus(self, world, proc, rec):
        out = []
        side = proc.name
        if rec[0] == 'signal-marshal-error':
            out.append(self._v(world, 'signal-does-not-fit-signature', dict(signal=rec[2], signature=rec[3]),
                               '%s: %s(%s) with arguments %r: %s: %s' % (side, rec[2], rec[3], rec[6], rec[4], rec[5])))
        elif rec[0] == 'return-marshal-error':
            out.append(self._v(world, 'return-does-not-fit-signature', dict(method=rec[2], signature=rec[3]),
                               '%s: %s -> %s: %s: %s' % (side, rec[2], rec[3], rec[4], rec[5])))
        elif rec[0] == 'signal':
            member = rec[3]
            args = rec[4]
            if member == 'recv_bundle_finished':
                self.announced[side].append((str(args[0]), int(args[1])))
            elif member == 'recv_bundle_started':
                self.rx_started[side].append(str(args[0]))
            elif member == 'send_bundle_started':
                self.started[side].append(str(args[0]))
            elif member == 'send_bundle_finished':
                bid = str(args[0])
                if any(b == bid for (b, _r) in self.finished[side]):
                    out.append(self._v(world, 'transfer-finished-twice', dict(), '%s id %s' % (side, bid)))
                self.finished[side].append((bid, str(args[2])))
        return out

    def on_user(self, world, side, op, res):
        out = []
        if op[0] == 'send' and res[0] == 'ok':
            self.queued[side].append((str(res[1]), op[1]))
        elif op[0] == 'pop':
            bid = str(op[1])
            avail = [b for (b, _l) in self.announced[side]]
            should = bid in avail and bid not in self.popped[side]
            if should:
                if res[0] != 'ok':
                    out.append(self._v(world, 'announced-bundle-cannot-be-popped', dict(), '%s pop %s -> %r' % (side, bid, res)))
                else:
                    self.popped[side].append(bid)
                    data = bytes(res[1]).hex()
                    sender = other(side)
                    want = dict(self.queued[sender]).get(bid)
                    # transfer ids are per sender, counted from 1 in queue order
                    if want is None or want != data:
                        out.append(self._v(world, 'popped-data-differs', dict(),
                                           '%s popped %s = %r, %s queued %r' % (side, bid, data, sender, self.queued[sender])))
            elif res[0] == 'ok':
                out.append(self._v(world, 'pop-succeeded-without-announcement', dict(),
                                   '%s pop %s returned data; announced %r popped %r' % (side, bid, avail, self.popped[side])))
        return out

    def check_state(self, world):
        out = []
        conn = world.conns[0]
        for (idx, side) in enumerate(SIDES):
            proc = world.procs[side]
            if PATH not in proc.bus._objects:
                continue
            rq = world.bus_call(proc, PATH, 'recv_bundle_get_queue', iface=IFACE)
            sq = world.bus_call(proc, PATH, 'send_bundle_get_queue', iface=IFACE)
            idle = world.bus_call(proc, PATH, 'is_sess_idle', iface=IFACE)
            state = world.bus_call(proc, PATH, 'get_session_state', iface=IFACE)
            sparm = world.bus_call(proc, PATH, 'get_session_parameters', iface=IFACE)
            out.extend(self._drain(world, proc))
            if rq[0] != 'ok' or sq[0] != 'ok' or idle[0] != 'ok' or state[0] != 'ok' or sparm[0] != 'ok':
                out.append(self._v(world, 'query-failed', dict(), '%s: %r %r %r %r %r' % (side, rq, sq, idle, state, sparm)))
                continue
            want_rq = sorted(b for (b, _l) in self.announced[side] if b not in self.popped[side])
            if sorted(str(x) for x in rq[1]) != want_rq:
                out.append(self._v(world, 'receive-queue-differs', dict(),
                                   '%s recv queue %r, announced-and-not-popped %r' % (side, list(rq[1]), want_rq)))
            fin = [b for (b, _r) in self.finished[side]]
            want_sq = sorted(b for (b, _d) in self.queued[side] if b not in fin)
            if sorted(str(x) for x in sq[1]) != want_sq:
                out.append(self._v(world, 'send-queue-differs', dict(),
                                   '%s send queue %r, queued-and-not-finished %r' % (side, list(sq[1]), want_sq)))
            if bool(idle[1]):
                busy = []
                hdl = proc.roots.get('contact')
                pending = hdl.recv_buffer_used() if hdl is not None and hasattr(hdl, 'recv_buffer_used') else 0
                if pending:
                    busy.append('%d received octets await processing' % pending)
                if want_sq:
                    busy.append('transfers %r queued/unfinished' % (want_sq,))
                part = [b for b in self.rx_started[side] if b not in [a for (a, _l) in self.announced[side]]]
                if part:
                    busy.append('inbound transfer %r in progress' % (part,))
                if busy:
                    out.append(self._v(world, 'idle-indication-while-busy', dict(), '%s: %s' % (side, '; '.join(busy))))
        return out

    def _drain(self, world, proc):
        out = []
        for rec in proc.bus.drain_records():
            if rec[0] in ('signal-marshal-error', 'return-marshal-error'):
                out.extend(self.on_bus(world, proc, rec))
        return out

    def check_final(self, world):
        out = []
        conn = world.conns[0]
        for (idx, side) in enumerate(SIDES):
            proc = world.procs[side]
            fin = [b for (b, _r) in self.finished[side]]
            # nothing can happen any more: a transfer the peer has announced as received must have
            # been reported finished to the sending user (transfers complete in the order queued)
            other = SIDES[1 - idx]
            arrived = len(self.announced[other])
            for (k, (bid, _d)) in enumerate(self.queued[side]):
                if k < arrived and fin.count(bid) != 1:
                    out.append(self._v(world, 'received-transfer-never-reported-finished', dict(),
                                       '%s: transfer %s was announced by the peer (%d received) but has %d finished signals'
                                       % (side, bid, arrived, fin.count(bid))))
            if PATH in proc.bus._objects and not conn.closed[idx]:
                # everything drained and the session still up: idle must be reported
                pend = [b for (b, _d) in self.queued[side] if b not in fin]
                part = [b for b in self.rx_started[side] if b not in [a for (a, _l) in self.announced[side]]]
                state = world.bus_call(proc, PATH, 'get_session_state', iface=IFACE)
                idle = world.bus_call(proc, PATH, 'is_sess_idle', iface=IFACE)
                proc.bus.drain_records()
                if not pend and not part and state[0] == 'ok' and str(state[1]) == 'established' \
                        and world.script_pos[side] >= len(world.params['scripts'][side]) and not conn.buf[idx]:
                    if idle[0] != 'ok' or not bool(idle[1]):
                        out.append(self._v(world, 'idle-indication-never-true', dict(), '%s: %r' % (side, idle)))
        return out

    def outcome(self, world):
        return 'pop:%d,%d fin:%d,%d' % (len(self.popped['A']), len(self.popped['B']),
                                        len(self.finished['A']), len(self.finished['B']))
