'''Safety / liveness monitors for the TCPCL worlds.  Monitors only look at
observables: octets on the virtual wire (parsed by the independent decoder),
records of the D-Bus boundary, socket states, exceptions leaving callbacks.
'''
from .world import Monitor, Violation
from .oracle import tcpclv4 as T
from .tcpcl_world import PATH, IFACE, SIDES


def other(side):
    return 'B' if side == 'A' else 'A'


class EscapeMonitor(Monitor):
    '''No exception may leave an event-loop callback.'''
    name = 'escape'

    def __init__(self, prop):
        self.prop = prop
        self.count = 0

    def on_escaped(self, world, proc, esc):
        self.count += 1
        sig = dict(exc=esc.exc_type, source=esc.source_kind)
        sig.update(world.tags())
        return [Violation(self.prop, self.name, 'escaped-exception', sig,
                          'process %s: %s: %s\n%s' % (proc.name, esc.exc_type, esc.exc_text, esc.tb))]


class DeliveryMonitor(Monitor):
    '''C01: exactly-once, intact, in-order delivery; success only after the
    receiver holds the complete bundle.  Plays the part of the BP-side
    adaptor: pops a bundle when its finished signal is seen.'''
    name = 'delivery'
    prop = 'C01'

    def __init__(self, prop='C01', expect_all=True):
        self.prop = prop
        self.expect_all = expect_all
        self.queued = {'A': [], 'B': []}      # (transfer id text, data hex) in queue order
        self.delivered = {'A': [], 'B': []}   # data hex popped at the receiver, in announce order
        self.success = {'A': [], 'B': []}     # transfer ids reported 'success' at the sender
        self.finished = {'A': [], 'B': []}    # (id, result) every send_bundle_finished
        self.to_pop = []

    def on_user(self, world, side, op, res):
        if op[0] == 'send':
            if res[0] == 'ok':
                self.queued[side].append((str(res[1]), op[1]))
            else:
                self.queued[side].append((None, op[1]))
        return ()

    def on_bus(self, world, proc, rec):
        out = []
        if rec[0] != 'signal':
            return out
        (_k, path, iface, member, args) = rec
        side = proc.name
        if member == 'recv_bundle_finished':
            (bid, length, result) = args
            if str(result) == 'success':
                self.to_pop.append((side, str(bid), int(length)))
        elif member == 'send_bundle_finished':
            (bid, length, result) = args
            self.finished[side].append((str(bid), str(result)))
            if str(result) == 'success':
                self.success[side].append(str(bid))
                # the peer must already hold the complete bundle
                idx = self._queue_index(side, str(bid))
                peer = other(side)
                if idx is None:
                    out.append(self._v(world, 'success-for-unknown-transfer', dict(), 'id %s' % bid))
                elif len(self.delivered[peer]) + sum(1 for p in self.to_pop if p[0] == peer) <= idx:
                    out.append(self._v(world, 'success-before-receipt', dict(),
                                       '%s reported success for transfer %s but %s holds %d bundles'
                                       % (side, bid, peer, len(self.delivered[peer]))))
        return out

    def _queue_index(self, side, bid):
        for (idx, (qid, _d)) in enumerate(self.queued[side]):
            if qid == bid:
                return idx
        return None

    def on_event(self, world, event):
        out = []
        pops = self.to_pop
        self.to_pop = []
        for (side, bid, length) in pops:
            proc = world.procs[side]
            res = world.bus_call(proc, PATH, 'recv_bundle_pop_data', bid, iface=IFACE)
            proc.bus.drain_records()
            if res[0] != 'ok':
                out.append(self._v(world, 'announced-bundle-cannot-be-popped', dict(), repr(res)))
                continue
            data = bytes(res[1]).hex()
            self.delivered[side].append(data)
            sender = other(side)
            idx = len(self.delivered[side]) - 1
            want = [d for (_i, d) in self.queued[sender]]
            if idx >= len(want):
                out.append(self._v(world, 'delivered-more-than-queued', dict(), 'extra bundle %s' % data))
            elif want[idx] != data:
                kind = 'delivered-data-differs'
                if data in want:
                    kind = 'delivered-out-of-order-or-duplicate'
                out.append(self._v(world, kind, dict(),
                                   '%s received %r as bundle #%d, %s queued %r' % (side, data, idx, sender, want)))
            if length * 2 != len(data):
                out.append(self._v(world, 'announced-length-differs', dict(), '%d vs %d' % (length, len(data) // 2)))
        return out

    def _v(self, world, kind, sig, detail):
        sig = dict(sig)
        sig.update(world.tags())
        return Violation(self.prop, self.name, kind, sig, detail)

    def check_final(self, world):
        out = []
        if not self.expect_all:
            return out
        for side in SIDES:
            peer = other(side)
            want = [d for (_i, d) in self.queued[side]]
            pos = world.script_pos[side]
            # user operations not yet issued are not owed
            if self.delivered[peer] != want:
                missing = want[len(self.delivered[peer]):]
                sig = dict(zero_length=any(d == '' for d in missing[:1]))
                out.append(self._v(world, 'queued-bundle-never-delivered', sig,
                                   '%s queued %r, %s holds %r' % (side, want, peer, self.delivered[peer])))
            ids = [i for (i, _d) in self.queued[side]]
            if sorted(self.success[side]) != sorted(i for i in ids if i is not None):
                sig = dict()
                out.append(self._v(world, 'success-signals-incomplete', sig,
                                   '%s queued ids %r, success for %r' % (side, ids, self.success[side])))
        return out

    def outcome(self, world):
        return 'dlv:%d/%d,%d/%d' % (len(self.delivered['B']), len(self.queued['A']),
                                    len(self.delivered['A']), len(self.queued['B']))


class WireMonitor(Monitor):
    '''C04: each direction of the connection carries only an RFC 9174-legal
    sequence, judged by the independent incremental decoder.'''
    name = 'wire'
    prop = 'C04'

    def __init__(self, prop='C04'):
        self.prop = prop
        # indexed by sending side 0 (A) / 1 (B)
        self.parser = [T.StreamParser(), T.StreamParser()]
        self.n_init = [0, 0]
        self.n_term = [0, 0]
        self.term_flags = [None, None]
        self.cur = [None, None]          # current transfer: [id, sent, declared_total]
        self.used_ids = [[], []]
        self.unacked = [[], []]          # segments sent by side i awaiting ACK: (flags, id, cumulative)
        self.peer_mru = [None, None]     # segment MRU announced *to* side i (by the other side)

    def _v(self, world, kind, sig, detail):
        sig = dict(sig)
        sig.update(world.tags())
        return Violation(self.prop, self.name, kind, sig, detail)

    def on_wire(self, world, conn, side, data):
        out = []
        for msg in self.parser[side].feed(data):
            out.extend(self.on_message(world, side, msg))
        return out

    def on_message(self, world, side, msg):
        out = []
        kind = msg['kind']
        who = SIDES[side]
        if kind == 'MALFORMED':
            out.append(self._v(world, 'undecodable-octets', dict(), '%s wrote octets no RFC 9174 decoder accepts: %s' % (who, msg['text'])))
            return out
        if kind == 'CONTACT':
            if msg['magic'] != T.MAGIC or msg['version'] != 4:
                out.append(self._v(world, 'bad-contact-header', dict(), repr(msg)))
            return out
        if self.n_init[side] == 0:
            if kind != 'SESS_INIT':
                out.append(self._v(world, 'message-before-sess-init', dict(msg=kind), '%s sent %s before SESS_INIT' % (who, kind)))
                return out
            self.n_init[side] = 1
            self.peer_mru[1 - side] = msg['segment_mru']
            return out
        if kind == 'SESS_INIT':
            out.append(self._v(world, 'second-sess-init', dict(), who))
            return out
        if kind == 'SESS_TERM':
            self.n_term[side] += 1
            self.term_flags[side] = msg['flags']
            if self.n_term[side] > 1:
                out.append(self._v(world, 'second-sess-term', dict(), '%s sent SESS_TERM twice' % who))
            return out
        if kind == 'XFER_SEGMENT':
            flags = msg['flags']
            tid = msg['transfer_id']
            if self.peer_mru[side] is None:
                out.append(self._v(world, 'segment-before-peer-sess-init', dict(), who))
            elif len(msg['data']) > self.peer_mru[side]:
                out.append(self._v(world, 'segment-exceeds-peer-mru', dict(),
                                   '%s sent %d octets, peer MRU %d' % (who, len(msg['data']), self.peer_mru[side])))
            if flags & T.FLAG_START:
                if self.n_term[side]:
                    out.append(self._v(world, 'transfer-started-after-sess-term', dict(),
                                       '%s started transfer %d after its own SESS_TERM' % (who, tid)))
                if self.cur[side] is not None:
                    out.append(self._v(world, 'start-inside-transfer', dict(), '%s: START of %d inside %r' % (who, tid, self.cur[side])))
                if tid in self.used_ids[side]:
                    out.append(self._v(world, 'transfer-id-reused', dict(), '%s reused id %d' % (who, tid)))
                self.used_ids[side].append(tid)
                total = None
                for (_f, typ, val) in msg['ext']:
                    if typ == T.EXT_TRANSFER_LENGTH and len(val) == 8:
                        total = int.from_bytes(val, 'big')
                if total is None:
                    out.append(self._v(world, 'start-without-transfer-length', dict(), who))
                self.cur[side] = [tid, 0, total]
            else:
                if self.cur[side] is None:
                    out.append(self._v(world, 'segment-without-start', dict(), '%s: id %d' % (who, tid)))
                    self.cur[side] = [tid, 0, None]
                elif self.cur[side][0] != tid:
                    out.append(self._v(world, 'segments-not-contiguous', dict(),
                                       '%s: segment of %d inside transfer %d' % (who, tid, self.cur[side][0])))
            cur = self.cur[side]
            cur[1] += len(msg['data'])
            self.unacked[side].append((flags, tid, cur[1]))
            if flags & T.FLAG_END:
                if cur[2] is not None and cur[2] != cur[1]:
                    out.append(self._v(world, 'transfer-length-mismatch', dict(),
                                       '%s declared %d sent %d' % (who, cur[2], cur[1])))
                self.cur[side] = None
            elif cur[2] is not None and cur[1] >= cur[2] and not (cur[1] == 0 and cur[2] == 0):
                out.append(self._v(world, 'end-flag-missing', dict(), '%s sent %d of %d without END' % (who, cur[1], cur[2])))
            return out
        if kind == 'XFER_ACK':
            pend = self.unacked[1 - side]
            if not pend:
                out.append(self._v(world, 'ack-without-segment', dict(), '%s: %r' % (who, msg)))
                return out
            (flags, tid, cum) = pend.pop(0)
            if (msg['flags'], msg['transfer_id'], msg['length']) != (flags, tid, cum):
                out.append(self._v(world, 'ack-does-not-echo-segment', dict(),
                                   '%s acked (flags %d id %d len %d), segment was (flags %d id %d cumulative %d)'
                                   % (who, msg['flags'], msg['transfer_id'], msg['length'], flags, tid, cum)))
            return out
        if kind == 'XFER_REFUSE':
            # refusal voids outstanding acks of that transfer
            self.unacked[1 - side] = [p for p in self.unacked[1 - side] if p[1] != msg['transfer_id']]
            return out
        return out

    def outcome(self, world):
        return 'term:%d,%d' % (self.n_term[0], self.n_term[1])


class TerminationMonitor(Monitor):
    '''C09: graceful termination completes what was started, starts nothing
    new, exchanges exactly one SESS_TERM each way (responder's marked REPLY),
    reports unstarted bundles, and always ends with both sockets closed.'''
    name = 'termination'
    prop = 'C09'

    def __init__(self, prop='C09', delivery=None, wire=None):
        self.prop = prop
        self.delivery = delivery      # DeliveryMonitor of the same world
        self.wire = wire              # WireMonitor of the same world
        self.initiated = {'A': False, 'B': False}   # user terminate() accepted
        self.term_refused = {'A': 0, 'B': 0}
        self.hard_close = {'A': False, 'B': False}  # user close()
        self.started = {'A': [], 'B': []}           # transfer ids with send_bundle_started
        self.established = {'A': False, 'B': False}
        self.ending = {'A': False, 'B': False}      # endpoint announced state 'ending'
        self.late = {'A': [], 'B': []}              # ids queued after the endpoint was 'ending'

    def _v(self, world, kind, sig, detail):
        sig = dict(sig)
        sig.update(world.tags())
        return Violation(self.prop, self.name, kind, sig, detail)

    def on_user(self, world, side, op, res):
        if op[0] == 'send' and res[0] == 'ok' and self.ending[side]:
            self.late[side].append(str(res[1]))
        if op[0] == 'terminate':
            if res[0] == 'ok':
                self.initiated[side] = True
            else:
                self.term_refused[side] += 1
        elif op[0] == 'close':
            self.hard_close[side] = True
        return ()

    def on_bus(self, world, proc, rec):
        if rec[0] == 'signal':
            member = rec[3]
            if member == 'send_bundle_started':
                self.started[proc.name].append(str(rec[4][0]))
            elif member == 'session_state_changed' and str(rec[4][0]) == 'established':
                self.established[proc.name] = True
            elif member == 'session_state_changed' and str(rec[4][0]) == 'ending':
                self.ending[proc.name] = True
        return ()

    def check_state(self, world):
        out = []
        wire = self.wire
        if wire is not None:
            for (idx, side) in enumerate(SIDES):
                flags = wire.term_flags[idx]
                if flags is None:
                    continue
                is_reply = bool(flags & T.TERM_REPLY)
                if self.initiated[side] and is_reply:
                    out.append(self._v(world, 'initiator-sess-term-marked-reply', dict(), side))
                if not self.initiated[side] and not is_reply and not self._timer_initiated(world, side):
                    out.append(self._v(world, 'responder-sess-term-not-marked-reply', dict(), side))
        return out

    def _timer_initiated(self, world, side):
        return world.params['idle'][side] > 0

    def check_final(self, world):
        out = []
        conn = world.conns[0]
        any_term = self.initiated['A'] or self.initiated['B']
        any_close = self.hard_close['A'] or self.hard_close['B']
        closed = list(conn.closed)
        if (any_term or any_close or closed[0] or closed[1]) and not (closed[0] and closed[1]):
            kind = 'session-left-half-open' if (closed[0] or closed[1]) else 'termination-never-closes'
            out.append(self._v(world, kind, dict(),
                               'sockets closed A=%s B=%s after terminate=%r close=%r'
                               % (closed[0], closed[1], self.initiated, self.hard_close)))
        for side in SIDES:
            proc = world.procs[side]
            if closed[SIDES.index(side)] and PATH in proc.bus._objects:
                out.append(self._v(world, 'closed-contact-still-on-bus', dict(), side))
        if any_term and not any_close and self.wire is not None:
            both_est = self.established['A'] and self.established['B']
            if both_est:
                for (idx, side) in enumerate(SIDES):
                    if self.wire.n_term[idx] != 1:
                        out.append(self._v(world, 'sess-term-count', dict(count=self.wire.n_term[idx]),
                                           '%s sent %d SESS_TERM messages' % (side, self.wire.n_term[idx])))
        if any_term and not any_close and self.delivery is not None:
            dlv = self.delivery
            for side in SIDES:
                peer = other(side)
                fin = dict()
                for (bid, result) in dlv.finished[side]:
                    fin.setdefault(bid, []).append(result)
                for (bid, results) in fin.items():
                    if len(results) > 1:
                        out.append(self._v(world, 'transfer-finished-twice', dict(), '%s id %s: %r' % (side, bid, results)))
                # a transfer in progress when termination was requested still completes
                for bid in self.started[side]:
                    if fin.get(bid) != ['success']:
                        out.append(self._v(world, 'started-transfer-not-completed', dict(),
                                           '%s transfer %s was started; finished signals %r' % (side, bid, fin.get(bid))))
                # queued but never started: reported, not silently lost
                for (bid, _data) in dlv.queued[side]:
                    if bid is None or bid in self.late[side]:
                        # weaker reading: a bundle queued after the endpoint announced
                        # 'ending' is not owed a report
                        continue
                    if bid not in fin:
                        out.append(self._v(world, 'queued-transfer-silently-lost', dict(),
                                           '%s transfer %s was queued, never started and never reported' % (side, bid)))
                ok_ids = [bid for (bid, res) in dlv.finished[side] if res == 'success']
                if len(dlv.delivered[peer]) != len(ok_ids):
                    out.append(self._v(world, 'success-count-differs-from-delivered', dict(),
                                       '%s success for %r, %s holds %d' % (side, ok_ids, peer, len(dlv.delivered[peer]))))
        return out

    def outcome(self, world):
        conn = world.conns[0]
        return 'closed:%d%d init:%d%d' % (conn.closed[0], conn.closed[1], self.initiated['A'], self.initiated['B'])
