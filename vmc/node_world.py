'''Whole nodes: in each process a real `bp.agent.Agent` attached through the
real `bp.cla.TcpclAdaptor` to a real `tcpcl.agent.Agent` on the same bus, the
TCPCL agents joined by the virtual TCP network (listen / connect / accept).

This is the only world in which `bp/cla.py`'s TCPCL adaptor runs: it learns of
contacts from the agent's signals, reads the session parameters, pops received
bundles on the finished signal and queues bundles until a session exists.'''
import re

from . import env as _env
from . import vnet
from .world import World, HarnessError
from .agent_world import TcpNet, TcpSocketModule, SignalLog, VTcpSocket
from . import agent_world as _aw
from . import bp_world as _bpw

TCPCL_AGENT_PATH = '/org/ietf/dtn/tcpcl/Agent'
TCPCL_AGENT_IFACE = 'org.ietf.dtn.tcpcl.Agent'
CONTACT_IFACE = 'org.ietf.dtn.tcpcl.Contact'
BP_AGENT_PATH = '/org/ietf/dtn/bp/Agent'
TCPCL_NAME = 'org.ietf.dtn.node.tcpcl'


def _connect(self, sockaddr):
    '''connect() to a listening virtual socket: the connection waits in its accept queue.'''
    key = (sockaddr[0], sockaddr[1])
    conn = self._net.targets.get(key)
    if conn is None:
        lst = self._net.listeners.get(key)
        if lst is None or lst._closed:
            raise ConnectionRefusedError(111, 'Connection refused')
        self._net.port_seq = getattr(self._net, 'port_seq', 42000) + 1
        local = (self._bound[0] if self._bound else self._net.local_addr, self._net.port_seq)
        conn = vnet.StreamConn('t%d' % len(self._net.conns), addr0=local, addr1=key)
        conn.sent_log = []
        self._net.conns.append(conn)
        self._net.on_conn(conn)
        lst._accept_q.append(conn)
    self._end = conn.ends[0]


class NodeWorld(World):
    '''params: nodes = number of nodes (2); seg_mru; listen = indices of nodes whose TCPCL agent
    listens; routes = {node index: [(pattern, next node index)]}.'''

    ADDR = ['10.1.0.1', '10.1.0.2', '10.1.0.3']

    def __init__(self, params):
        World.__init__(self)
        import time
        time.sleep = lambda _s: None        # bp.cla waits 100 ms of real time per contact before asking its state
        self.params = dict(nodes=2, seg_mru=8, listen=[1], routes={0: [('^dtn://n1/.*', 1)], 1: [('^dtn://n0/.*', 0)]})
        self.params.update(params)
        VTcpSocket.connect = _connect
        _bpw._install_probe()
        bpns = _env.load_bp()
        self.net = TcpNet()
        self.net.on_conn = self.conns.append
        self.sig = SignalLog()
        self.monitors = [self.sig]
        self.escaped = []
        self.api_errors = []
        names = ['A', 'B', 'C']
        for i in range(self.params['nodes']):
            tns = _env.load_tcpcl(names[i])
            if not isinstance(getattr(tns.agent, 'socket', None), TcpSocketModule):
                tns.agent.socket = TcpSocketModule()
            proc = self.add_proc('N%d' % i)
            tcfg = tns.config.Config(tls_enable=False, node_id='dtn://n%d/' % i, segment_size_mru=self.params['seg_mru'],
                                     segment_size_tx_initial=self.params['seg_mru'])
            tcfg._bus_conn = proc.bus
            cfgmod = bpns.config
            routes = []
            for entry in self.params['routes'].get(i, []):
                (pat, nxt) = entry[:2]
                raw = dict(next_nodeid='dtn://n%d/' % nxt, address=self.ADDR[nxt], port=4556)
                if len(entry) > 2 and entry[2] == 'unnamed':
                    # "use the session that is there": no next hop named
                    del raw['next_nodeid']
                # (a number as third element: the MTU the operator configured for this route)
                mtu = entry[2] if len(entry) > 2 and isinstance(entry[2], int) else None
                routes.append(cfgmod.TxRouteItem(eid_pattern=re.compile(pat), next_nodeid='dtn://n%d/' % nxt, cl_type='tcpcl', mtu=mtu, raw_config=raw))
            bcfg = cfgmod.Config(node_id='dtn://n%d/' % i,
                                 rx_route_table=[cfgmod.RxRouteItem(eid_pattern=re.compile('^dtn://n%d/.*' % i), action='deliver'),
                                                 cfgmod.RxRouteItem(eid_pattern=re.compile('.*'), action='forward')],
                                 tx_route_table=routes)
            bcfg._bus_conn = proc.bus

            def make(tns=tns, tcfg=tcfg, bcfg=bcfg, proc=proc, i=i):
                self.net.local_addr = self.ADDR[i]
                proc.bus.request_name(TCPCL_NAME)
                tagent = tns.agent.Agent(tcfg, bus_kwargs=dict(conn=proc.bus, object_path=TCPCL_AGENT_PATH))
                bagent = bpns.agent.Agent(bcfg, bus_kwargs=dict(conn=proc.bus, object_path=BP_AGENT_PATH))
                bagent.cl_attach('tcpcl', TCPCL_NAME)
                return (tagent, bagent)
            (tagent, bagent) = self.in_proc(proc, make)
            proc.roots['tcpcl'] = tagent
            proc.roots['bp'] = bagent
            if i in self.params['listen']:
                res = self.bus_call(proc, TCPCL_AGENT_PATH, 'listen', self.ADDR[i], 4556, iface=TCPCL_AGENT_IFACE)
                if res[0] != 'ok':
                    raise HarnessError('listen failed: %r' % (res,))
        self.collect(('init',))

    def activate(self, proc=None):
        _aw._CURRENT_NET = self.net
        if proc is not None:
            self.net.local_addr = self.ADDR[int(proc.name[1:])]
        World.activate(self, proc)

    def canon_extra(self, c):
        c.out.append('nodeworld')

    # ---- driving
    def proc_names(self):
        return ['N%d' % i for i in range(self.params['nodes'])]

    def step(self, name):
        proc = self.procs[name]
        if not self.runnable(proc):
            return False
        self.apply(('run', name))
        return True

    def run_policy(self, order, max_steps=6000, until=None):
        steps = 0
        order = list(order)
        while steps < max_steps:
            if until is not None and until():
                return steps
            for (k, name) in enumerate(order):
                if self.step(name):
                    order = order[k + 1:] + order[:k + 1]
                    steps += 1
                    break
            else:
                return steps
        raise HarnessError('no quiescence within %d steps' % max_steps)

    def bp(self, i):
        return self.procs['N%d' % i].roots['bp']

    def probe(self, i):
        '''What the applications of node i were handed.'''
        proc = self.procs['N%d' % i]
        return proc.bus._objects['/org/ietf/dtn/bp/app/probe'].seen

    def send(self, i, ctr):
        '''An application of node i asks its BP agent to send a bundle.'''
        from gi.repository import GLib
        proc = self.procs['N%d' % i]
        self.activate(proc)
        try:
            try:
                self.bp(i).send_bundle(ctr)
                return None
            except Exception as err:
                import traceback
                self.api_errors.append((type(err).__name__, str(err), traceback.format_exc()))
                return err
        finally:
            GLib.set_current(None)
            self.collect(('user',))

    def contacts(self, i):
        proc = self.procs['N%d' % i]
        res = self.bus_call(proc, TCPCL_AGENT_PATH, 'get_connections', iface=TCPCL_AGENT_IFACE)
        return [str(p) for p in res[1]] if res[0] == 'ok' else []

    def queues(self, i):
        '''(send queue, receive queue) of every contact of node i, read through the bus.'''
        proc = self.procs['N%d' % i]
        out = {}
        for path in self.contacts(i):
            sq = self.bus_call(proc, path, 'send_bundle_get_queue', iface=CONTACT_IFACE)
            rq = self.bus_call(proc, path, 'recv_bundle_get_queue', iface=CONTACT_IFACE)
            out[path] = ([str(x) for x in sq[1]] if sq[0] == 'ok' else sq, [str(x) for x in rq[1]] if rq[0] == 'ok' else rq)
        return out
