'''Canonical form of a world: a generic walk over every attribute of the
objects that make up the state (no hand-picked field list), reduced to a
digest.  See DESIGN.md 4.4 for why merged states have identical futures.

Dropped on purpose: absolute source-id numbers (replaced by rank in the owning
context), absolute time (deadlines and datetimes are made relative to the
world clock), object identity (replaced by first-visit index), loggers.
An object of unknown kind is a hard error, never an opaque token.
'''
import datetime
import hashlib
import io
import logging
import types
import enum
import re
import ipaddress

from gi.repository import GLib

from . import env as _envmod


class CanonError(Exception):
    pass


_ATOMS = (int, str, bytes, bool, float, type(None))


class Canon(object):
    def __init__(self, now_us=0):
        self.out = []
        self.seen = {}
        self.keep = []       # keep temporaries alive so ids are not reused
        self.now_us = now_us
        self.ctx = None      # GLib context owning SourceIds being walked

    def digest(self):
        h = hashlib.blake2b(digest_size=16)
        h.update('\x1f'.join(self.out).encode('utf-8', 'surrogatepass'))
        return h.hexdigest()

    def text(self):
        return ' '.join(self.out)

    # ------------------------------------------------------------------
    def walk(self, obj):
        out = self.out
        if obj is None:
            out.append('N')
            return
        tp = type(obj)
        if tp is bool:
            out.append('T' if obj else 'F')
            return
        if tp is int:
            out.append('i%d' % obj)
            return
        if tp is str:
            out.append('s' + obj)
            return
        if tp is bytes:
            out.append('b' + obj.hex())
            return
        if tp is GLib.SourceId:
            out.append('sid' + self._rank(obj))
            return
        if tp is float:
            out.append('f%r' % obj)
            return
        if tp is bytearray:
            out.append('B' + bytes(obj).hex())
            return
        if isinstance(obj, enum.Enum):
            out.append('E%s.%s' % (tp.__name__, obj.name if obj.name is not None else obj.value))
            return
        if isinstance(obj, datetime.datetime):
            base = _envmod.DT_BASE if obj.tzinfo is not None else _envmod.DT_BASE.replace(tzinfo=None)
            delta = obj - base
            us = delta.days * 86400 * 10 ** 6 + delta.seconds * 10 ** 6 + delta.microseconds
            out.append('dt%d' % (us - self.now_us))
            return
        if isinstance(obj, datetime.timedelta):
            out.append('td%r' % obj.total_seconds())
            return
        if isinstance(obj, _ATOMS):
            # subclasses of atoms (dbus types, IntEnum handled above)
            out.append('a%s:%r' % (tp.__name__, obj))
            return
        if isinstance(obj, (type, types.FunctionType, types.BuiltinFunctionType, types.ModuleType)):
            name = getattr(obj, '__qualname__', getattr(obj, '__name__', '?'))
            if isinstance(obj, types.FunctionType) and obj.__closure__:
                out.append('fn(' + name)
                for cell in obj.__closure__:
                    try:
                        self.walk(cell.cell_contents)
                    except ValueError:
                        out.append('emptycell')
                out.append(')')
            else:
                out.append('q' + name)
            return
        if tp is object:
            out.append('bareobject')
            return
        if isinstance(obj, logging.Logger):
            out.append('L')
            return
        if isinstance(obj, re.Pattern):
            out.append('re' + obj.pattern)
            return
        if isinstance(obj, (ipaddress.IPv4Address, ipaddress.IPv6Address)):
            out.append('ip' + str(obj))
            return

        oid = id(obj)
        idx = self.seen.get(oid)
        if idx is not None:
            out.append('^%d' % idx)
            return
        self.seen[oid] = len(self.seen)
        self.keep.append(obj)

        if tp is list or tp is tuple:
            out.append('[' if tp is list else '(')
            for item in obj:
                self.walk(item)
            out.append(']')
            return
        if tp is dict:
            self._walk_dict(obj)
            return
        if tp is set or tp is frozenset:
            self._walk_set(obj)
            return
        if isinstance(obj, types.MethodType):
            out.append('m' + obj.__func__.__qualname__)
            self.walk(obj.__self__)
            return
        if isinstance(obj, io.BytesIO):
            out.append('io%d:%s' % (obj.tell() if not obj.closed else -1,
                                    obj.getvalue().hex() if not obj.closed else 'closed'))
            return
        if isinstance(obj, (list, tuple)):
            out.append('[' + tp.__name__)
            for item in obj:
                self.walk(item)
            self._walk_attrs(obj)
            out.append(']')
            return
        if isinstance(obj, dict):
            out.append(tp.__name__)
            self._walk_dict(obj)
            self._walk_attrs(obj)
            return
        if isinstance(obj, (set, frozenset)):
            self._walk_set(obj)
            return
        special = getattr(obj, '__verif_canon__', None)
        if special is not None:
            out.append('<' + tp.__name__)
            special(self)
            out.append('>')
            return
        handler = _HANDLERS.get(tp)
        if handler is None:
            for (cls, func) in _SUBCLASS_HANDLERS:
                if isinstance(obj, cls):
                    handler = func
                    break
        if handler is not None:
            out.append('<' + tp.__name__)
            handler(self, obj)
            out.append('>')
            return
        if tp.__name__ in ('list_iterator', 'tuple_iterator', 'bytes_iterator', 'range_iterator'):
            import copy as _copy
            out.append('<iter')
            for item in _copy.copy(obj):
                self.walk(item)
            out.append('>')
            return
        if isinstance(obj, types.GeneratorType):
            frame = obj.gi_frame
            out.append('<gen %s' % obj.__qualname__)
            if frame is None:
                out.append('done')
            else:
                out.append('at%d' % frame.f_lasti)
                self._walk_dict(dict(frame.f_locals))
            out.append('>')
            return
        if hasattr(obj, '__dict__') or hasattr(tp, '__slots__'):
            out.append('<' + tp.__name__)
            self._walk_attrs(obj)
            out.append('>')
            return
        raise CanonError('cannot canonicalise object of type %s.%s: %r' % (tp.__module__, tp.__name__, obj))

    def _walk_attrs(self, obj):
        out = self.out
        dct = getattr(obj, '__dict__', None)
        if dct:
            for key in sorted(dct):
                out.append('.' + key)
                self.walk(dct[key])
        for cls in type(obj).__mro__:
            slots = cls.__dict__.get('__slots__', ())
            if isinstance(slots, str):
                slots = (slots,)
            for name in slots:
                if name in ('__dict__', '__weakref__'):
                    continue
                try:
                    val = getattr(obj, name)
                except AttributeError:
                    continue
                out.append('.' + name)
                self.walk(val)

    def _sub(self, item):
        sub = Canon(self.now_us)
        sub.ctx = self.ctx
        sub.seen = dict(self.seen)   # references to already-visited objects stay stable
        sub.walk(item)
        self.keep.extend(sub.keep)
        return sub

    def _walk_dict(self, obj):
        out = self.out
        out.append('{')
        items = []
        for (key, val) in obj.items():
            tk = type(key)
            if tk is str:
                items.append(('s' + key, key, val))
            elif tk is int:
                items.append(('i%d' % key, key, val))
            else:
                items.append((self._sub(key).text(), key, val))
        items.sort(key=lambda it: it[0])
        for (ktext, key, val) in items:
            out.append(ktext)
            out.append(':')
            self.walk(val)
        out.append('}')

    def _walk_set(self, obj):
        out = self.out
        out.append('set{')
        items = []
        for item in obj:
            sub = self._sub(item)
            items.append((sub.text(), item))
        items.sort(key=lambda it: it[0])
        # walk for real in canonical order so that reference indices are assigned deterministically
        for (_text, item) in items:
            self.walk(item)
        out.append('}')

    def _rank(self, sid):
        ctx = self.ctx
        if ctx is None:
            return '?%d' % int(sid)
        rank = 0
        for src in ctx.sources:
            if src.alive:
                if src.sid == sid:
                    return str(rank)
                rank += 1
        return 'dead'


# ---------------------------------------------------------------------------
# handlers for particular kinds of object

def _h_source(c, src):
    c.out.append('%s p%d' % (src.kind, src.priority))
    c.walk(src.func)
    c.walk(src.args)
    if src.kind == 'io':
        c.walk(src.chan)
        c.out.append('c%d' % src.cond)
    if src.kind == 'timeout':
        c.out.append('iv%d dl%d' % (src.interval_us, src.deadline_us - c.now_us))


def _h_context(c, ctx):
    prev = c.ctx
    c.ctx = ctx
    c.out.append('ctx ' + ctx.name)
    alive = [s for s in ctx.sources if s.alive]
    for src in alive:
        c.walk(src)
    c.out.append('pend')
    for src in ctx.pending:
        if src.alive:
            c.out.append(str(alive.index(src)))
    c.out.append('esc%d warn%d quit%d' % (len(ctx.escaped), len(ctx.warnings), int(ctx.quit_requested)))
    c.ctx = prev


def _h_clock(c, clk):
    c.out.append('clock')


def _h_packet(c, pkt):
    # scapy packet: class, explicit fields, overloaded fields (the repository
    # stores block numbers there), cached raw encoding, payload
    c.out.append('pkt')
    c._walk_dict(pkt.fields)
    if pkt.overloaded_fields:
        c.out.append('ovl')
        c._walk_dict(pkt.overloaded_fields)
    rpc = getattr(pkt, 'raw_packet_cache', None)
    if rpc is not None:
        c.out.append('rpc')
        c.walk(rpc)
    c.out.append('/')
    from scapy.packet import NoPayload
    if not isinstance(pkt.payload, NoPayload):
        c.walk(pkt.payload)


def _h_interval(c, iv):
    c.out.append(repr(iv))


_HANDLERS = {}
_SUBCLASS_HANDLERS = []


def _install():
    _HANDLERS[GLib.Source] = _h_source
    _HANDLERS[GLib.Context] = _h_context
    _HANDLERS[GLib.Clock] = _h_clock
    from scapy.packet import Packet
    _SUBCLASS_HANDLERS.append((Packet, _h_packet))
    import portion
    _SUBCLASS_HANDLERS.append((portion.Interval, _h_interval))


_install()


def digest_of(obj, now_us=0, ctx=None):
    c = Canon(now_us)
    c.ctx = ctx
    c.walk(obj)
    return c.digest()
