'''A `socket` module look-alike for datagram (UDP) and packet (AF_PACKET)
sockets on a virtual network, injected into the namespace of udpcl.agent /
btpu.agent.  Everything not overridden is taken from the real module
(constants, inet_pton, CMSG_SPACE, ...).'''
import errno
import socket as _real
import struct


class DgramNet(object):
    '''Datagrams in flight and bound sockets of one world.'''

    def __init__(self):
        self.bound = {}        # (family-kind, address, port) -> VDgramSocket
        self.in_flight = []    # dict(src=(addr,port), dst=(addr,port), data=bytes, tos=int)
        self.next_port = 50000
        self.log = []          # every datagram ever sent (drained by the harness)
        self.refuse_send = None   # number of the sendmsg() call (from 0) that the socket refuses once with ENOBUFS
        self.send_calls = 0

    def allocate_port(self):
        self.next_port += 1
        return self.next_port

    def deliver(self, index):
        '''Move one in-flight datagram into the receive queue of the socket
        bound to its destination (dropped if nobody listens).'''
        dg = self.in_flight.pop(index)
        self._enqueue(dg)

    def duplicate(self, index):
        self._enqueue(dict(self.in_flight[index]))

    def _enqueue(self, dg):
        sock = self.bound.get(dg['dst']) or self.bound.get(('0.0.0.0', dg['dst'][1]))
        if sock is not None and not sock.closed:
            sock.rxq.append(dg)
            return True
        return False

    def inject(self, dst, src, data, tos=0):
        return self._enqueue(dict(src=src, dst=dst, data=bytes(data), tos=tos))


class VDgramSocket(object):
    type = _real.SOCK_DGRAM
    proto = _real.IPPROTO_UDP

    def __init__(self, net, family):
        self.net = net
        self.family = family
        self.addr = None
        self.rxq = []
        self.closed = False
        self.opts = []
        self.peer = None

    def __repr__(self):
        return '<vudp %r%s>' % (self.addr, ' closed' if self.closed else '')

    def _v_poll(self, env):
        from gi.repository import GLib
        if self.closed:
            return 0
        cond = GLib.IO_OUT
        if self.rxq:
            cond |= GLib.IO_IN
        return cond

    def fileno(self):
        return -1 if self.closed else 200

    def setsockopt(self, *args):
        self.opts.append(tuple(a if not isinstance(a, (bytes, bytearray)) else bytes(a) for a in args))

    def getsockopt(self, *args):
        return 0

    def setblocking(self, flag):
        return None

    def bind(self, sockaddr):
        addr = (sockaddr[0] or '0.0.0.0', sockaddr[1])
        if addr[1] == 0:
            addr = (addr[0], self.net.allocate_port())
        if addr in self.net.bound and not self.net.bound[addr].closed and self.net.bound[addr] is not self:
            # SO_REUSEADDR is always set by the agents: last binder receives
            pass
        self.addr = addr
        self.net.bound[addr] = self

    def connect(self, sockaddr):
        self.peer = (sockaddr[0], sockaddr[1])

    def getsockname(self):
        if self.addr is None:
            return ('0.0.0.0', 0)
        return self.addr

    def _ensure_bound(self):
        if self.addr is None:
            self.bind(('10.0.0.1' if self.family == _real.AF_INET else '::1', 0))

    def sendmsg(self, buffers, ancdata=(), flags=0, address=None):
        if self.closed:
            raise OSError(errno.EBADF, 'Bad file descriptor')
        self._ensure_bound()
        data = b''.join(bytes(b) for b in buffers)
        tos = 0
        for (level, typ, val) in ancdata:
            if (level, typ) in ((_real.IPPROTO_IP, _real.IP_TOS), (_real.IPPROTO_IPV6, getattr(_real, 'IPV6_TCLASS', 67))):
                tos = struct.unpack('@I', bytes(val))[0] if len(bytes(val)) == 4 else bytes(val)[0]
        dst = (address[0], address[1]) if address is not None else self.peer
        if dst is None:
            raise OSError(errno.EDESTADDRREQ, 'Destination address required')
        call = self.net.send_calls
        self.net.send_calls += 1
        if self.net.refuse_send is not None and call == self.net.refuse_send:
            raise OSError(errno.ENOBUFS, 'No buffer space available')
        dg = dict(src=self.addr, dst=dst, data=data, tos=tos)
        self.net.in_flight.append(dg)
        self.net.log.append(dict(dg))
        return len(data)

    def sendto(self, data, address):
        return self.sendmsg([data], (), 0, address)

    def send(self, data):
        return self.sendmsg([data], (), 0, None)

    def recvmsg(self, bufsize, ancbufsize=0, flags=0):
        if self.closed:
            raise OSError(errno.EBADF, 'Bad file descriptor')
        if not self.rxq:
            raise BlockingIOError(errno.EAGAIN, 'Resource temporarily unavailable')
        dg = self.rxq.pop(0)
        anc = []
        if self.family == _real.AF_INET:
            anc.append((_real.IPPROTO_IP, _real.IP_TOS, bytes([dg['tos'] & 0xFF])))
        data = dg['data'][:bufsize]
        return (data, anc, 0, dg['src'])

    def recvfrom(self, bufsize, flags=0):
        (data, _anc, _f, src) = self.recvmsg(bufsize)
        return (data, src)

    def recv(self, bufsize, flags=0):
        return self.recvmsg(bufsize)[0]

    def close(self):
        self.closed = True
        if self.addr is not None and self.net.bound.get(self.addr) is self:
            del self.net.bound[self.addr]

    def shutdown(self, how):
        return None


class SocketModule(object):
    '''Stands in for the `socket` module inside one agent module.'''

    def __init__(self, net_getter, packet_factory=None):
        self._net_getter = net_getter
        self._packet_factory = packet_factory

    def __getattr__(self, name):
        return getattr(_real, name)

    def socket(self, family=_real.AF_INET, type=_real.SOCK_STREAM, proto=0, fileno=None):
        net = self._net_getter()
        if family == getattr(_real, 'AF_PACKET', 17):
            return self._packet_factory(net, proto)
        if type == _real.SOCK_DGRAM:
            return VDgramSocket(net, family)
        raise OSError('virtual socket module: unsupported socket type')

    def getaddrinfo(self, host, port, family=0, type=0, proto=0, flags=0):
        # numeric hosts only: never touches a resolver
        return _real.getaddrinfo(host, port, family, type, proto, flags | _real.AI_NUMERICHOST)

    def if_nametoindex(self, name):
        return 2

    error = OSError
    gaierror = _real.gaierror
    timeout = _real.timeout


class VPacketSocket(object):
    '''AF_PACKET / SOCK_RAW look-alike: whole Ethernet frames on a named
    virtual interface.'''
    family = getattr(_real, 'AF_PACKET', 17)
    type = _real.SOCK_RAW

    def __init__(self, net, proto):
        self.net = net
        self.proto = proto
        self.bound = None      # (ifname, proto, pkttype, hatype, mac)
        self.rxq = []
        self.closed = False
        self.opts = []

    def __repr__(self):
        return '<vpacket %r%s>' % (self.bound, ' closed' if self.closed else '')

    def _v_poll(self, env):
        from gi.repository import GLib
        if self.closed:
            return 0
        return GLib.IO_OUT | (GLib.IO_IN if self.rxq else 0)

    def fileno(self):
        return -1 if self.closed else 300

    def setsockopt(self, *args):
        self.opts.append(tuple(a if not isinstance(a, (bytes, bytearray)) else bytes(a) for a in args))

    def setblocking(self, flag):
        return None

    def bind(self, sockaddr):
        self.bound = tuple(sockaddr)
        self.net.packet_socks.append(self)

    def getsockname(self):
        if self.bound is None:
            return ('', self.proto, 0, 1, b'\x00' * 6)
        return (self.bound[0], self.bound[1], 0, 1, bytes(self.bound[4]))

    def send(self, frame):
        if self.closed:
            raise OSError(errno.EBADF, 'Bad file descriptor')
        frame = bytes(frame)
        ifname = self.bound[0] if self.bound else None
        self.net.frames.append(dict(ifname=ifname, frame=frame))
        self.net.frame_log.append(dict(ifname=ifname, frame=frame))
        return len(frame)

    def sendto(self, frame, address):
        return self.send(frame)

    def recvfrom(self, bufsize, flags=0):
        if self.closed:
            raise OSError(errno.EBADF, 'Bad file descriptor')
        if not self.rxq:
            raise BlockingIOError(errno.EAGAIN, 'Resource temporarily unavailable')
        frame = self.rxq.pop(0)
        src = frame[6:12]
        # (ifname, proto, pkttype, hatype, addr); PACKET_HOST = 0
        return (frame[:bufsize], (self.bound[0] if self.bound else '', self.proto, 0, 1, src))

    def close(self):
        self.closed = True
        try:
            self.net.packet_socks.remove(self)
        except ValueError:
            pass

    def shutdown(self, how):
        return None


class PacketNet(object):
    def __init__(self):
        self.packet_socks = []
        self.frames = []       # in flight
        self.frame_log = []

    def inject(self, ifname, frame):
        '''Deliver a frame to every socket bound on the interface.'''
        done = False
        for sock in self.packet_socks:
            if sock.bound and sock.bound[0] == ifname and not sock.closed:
                sock.rxq.append(bytes(frame))
                done = True
        return done
