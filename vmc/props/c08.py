'''C08 - block CRCs are always valid on output and always checked on input.

Fault enumeration: for a menu of bundles, every single-bit flip and every
burst (solid and end-points-only patterns, lengths 2..CRC width) that lies
inside the encoded span of a CRC-protected block is delivered to a real agent
whose routes would deliver, forward and report on the bundle.  The independent
decoder classifies the corrupted octets; where it finds an RFC 9171 bundle with
a failing block CRC the agent must do nothing with it and must still process
the pristine copy delivered next.  Every bundle the agent emits is re-checked
by the independent CRC.'''
from ..bp_world import BpWorld
from ..world import Violation
from ..oracle import bpv7 as B
from ..evidence import enum_evidence
from .c02 import admin_payload

PROP = 'C08'

RPT = B.FLAG_REQ_RECEPTION | B.FLAG_REQ_FORWARD | B.FLAG_REQ_DELIVERY | B.FLAG_REQ_DELETION


def menu():
    def mk(dest, src, crc_p, crc_b, flags=RPT, ext=(), data=b'payload-data', rpt='dtn://rpt/', ts=(700000000000, 1), **pri_over):
        pri = dict(flags=flags, crc_type=crc_p, dest=dest, src=src, report_to=rpt, ts=ts, lifetime=3600000)
        pri.update(pri_over)
        blocks = [dict(b) for b in ext] + [dict(type=1, num=1, flags=0, crc_type=crc_b, data=data)]
        return dict(primary=pri, blocks=blocks)
    hop = dict(type=10, num=2, flags=0, crc_type=1, data=B.enc_hop_count(30, 2))
    age = dict(type=7, num=3, flags=1, crc_type=2, data=B.enc_age(1000))
    unk = dict(type=200, num=4, flags=0, crc_type=1, data=b'\x01\x02\x03')
    nocrc = dict(type=201, num=5, flags=0, crc_type=0, data=b'unprotected')
    return [
        ('local-crc16', mk('dtn://node/app', 'dtn://src/', 1, 1)),
        ('local-crc32', mk('dtn://node/app', 'dtn://src/', 2, 2)),
        ('local-mixed', mk('dtn://node/app', 'dtn://src/', 2, 0, ext=[hop, nocrc])),
        ('local-ipn', mk('ipn:9.1', 'ipn:7.8', 1, 2, rpt='ipn:7.0')),
        ('fwd-crc16', mk('dtn://far/x', 'dtn://src/', 1, 1, ext=[hop])),
        ('fwd-crc32', mk('dtn://far/x', 'dtn://src/', 2, 2, ext=[age, unk])),
        ('fwd-primary-only', mk('dtn://far/x', 'dtn://src/', 2, 0)),
        ('local-fragment', mk('dtn://node/app', 'dtn://src/', 2, 1, flags=RPT | B.FLAG_IS_FRAGMENT, frag_offset=0, total_adu=24)),
        ('local-admin', mk('dtn://node/', 'dtn://src/', 2, 2, flags=B.FLAG_ADMIN, data=admin_payload(1), rpt='dtn:none')),
        ('local-query-eid', mk('dtn://node/app?x', 'dtn://src/a?b', 1, 1)),
        ('local-ts0', mk('dtn://node/app', 'dtn://src/', 1, 1, ts=(0, 7), ext=[dict(age, crc_type=1)])),
        ('fwd-empty-payload', mk('dtn://far/x', 'dtn://src/', 1, 2, data=b'')),
    ]


NODE_PARAMS = dict(node_id='dtn://node/', rx_routes=[('^dtn://node/.*', 'deliver'), ('^ipn:9\\..*', 'deliver'), ('.*', 'forward')],
                   tx_routes=[('.*', 'dtn://next/', None)])


def observe(world):
    return (len(world.probe.seen), len(world.cl.sent))


def patterns(nbits_span, start_bit, width, tier):
    '''Error patterns (as lists of absolute bit positions) starting at start_bit.'''
    yield [start_bit]
    lengths = range(2, width + 1) if tier == 'thorough' else [2, 3, 8, width - 1, width]
    for length in lengths:
        if start_bit + length > nbits_span[1]:
            break
        yield list(range(start_bit, start_bit + length))
        if length > 2:
            yield [start_bit, start_bit + length - 1]


def flip(data, bits):
    buf = bytearray(data)
    for bit in bits:
        buf[bit // 8] ^= 0x80 >> (bit % 8)
    return bytes(buf)


def run_bundle(params, known):
    tier = params['tier']
    (name, bundle) = [m for m in menu() if m[0] == params['bundle']][0]
    good = B.encode(bundle)
    dec = B.decode(good)
    violations = []
    counts = dict(total=0, malformed=0, crc_fail=0, still_valid=0)
    keys = set()
    samples = []

    def viol(kind, sig, detail, bits, data):
        if len(violations) >= 6:
            return
        v = Violation(PROP, 'crc', kind, sig, '%s: %s' % (name, detail)).as_dict()
        v['case'] = dict(bundle=name, pristine=good.hex(), corrupted=data.hex(), bits=bits)
        violations.append(v)

    # reference behaviour of the pristine bundle
    ref = BpWorld(NODE_PARAMS)
    ref.receive(good)
    ref.quiesce()
    ref_obs = observe(ref)
    if ref_obs == (0, 0) and name != 'local-fragment':
        viol('pristine-bundle-not-processed', dict(), 'reference run did nothing: %r %r' % (ref.api_errors[:1], ref.escaped[:1]), [], good)
    for out in ref.sent():
        try:
            od = B.decode(out)
            if not od['primary']['crc_ok'] or not all(b['crc_ok'] for b in od['blocks']):
                viol('crc-invalid-on-output', dict(), 'agent emitted %s' % out.hex(), [], out)
        except B.Malformed as err:
            viol('output-not-rfc9171', dict(), '%s: %s' % (err, out.hex()), [], out)

    spans = []
    if dec['primary']['crc_type']:
        spans.append((dec['primary']['span'], 16 if dec['primary']['crc_type'] == 1 else 32, 'primary'))
    for blk in dec['blocks']:
        if blk['crc_type']:
            spans.append((blk['span'], 16 if blk['crc_type'] == 1 else 32, 'block%d' % blk['num']))
    for ((s0, s1), width, which) in spans:
        for start_bit in range(s0 * 8, s1 * 8):
            for bits in patterns((s0 * 8, s1 * 8), start_bit, width, tier):
                bad = flip(good, bits)
                counts['total'] += 1
                try:
                    bdec = B.decode(bad, strict=False)
                except B.Malformed:
                    counts['malformed'] += 1
                    cls = 'malformed'
                    bdec = None
                if bdec is not None:
                    if bdec['primary']['crc_ok'] and all(b['crc_ok'] for b in bdec['blocks']):
                        counts['still_valid'] += 1
                        cls = 'valid'
                    else:
                        counts['crc_fail'] += 1
                        cls = 'crcfail'
                w = BpWorld(NODE_PARAMS)
                w.receive(bad)
                w.quiesce()
                after_bad = observe(w)
                if w.escaped:
                    viol('escaped-exception', dict(exc=w.escaped[-1][0]), 'corrupted copy (%s, %s): %s' % (which, cls, w.escaped[-1][2]), bits, bad)
                    continue
                if cls == 'crcfail':
                    keys.add((which, len(bits), bits[0] - s0 * 8))
                    if after_bad != (0, 0):
                        viol('corrupted-bundle-processed', dict(),
                             'bits %r in %s: a block CRC fails but the agent delivered %d / sent %d bundles'
                             % (bits, which, after_bad[0], after_bad[1]), bits, bad)
                        continue
                    w.receive(good)
                    w.quiesce()
                    if observe(w) != ref_obs:
                        viol('pristine-copy-not-processed-after-corrupted-one', dict(),
                             'bits %r in %s: afterwards the pristine bundle gives %r, alone it gives %r'
                             % (bits, which, observe(w), ref_obs), bits, bad)
                    if len(samples) < 2 and counts['crc_fail'] % 997 == 1:
                        samples.append(dict(bundle=name, block=which, bits=bits, corrupted=bad.hex()))
    kn, out_v = [], []
    for v in violations:
        ent = known.match(v) if known is not None else None
        (kn if ent else out_v).append(dict(v, entry=ent) if ent else v)
    return dict(name=params['name'], evaluations=counts['total'], nontrivial_keys=[repr(k) for k in sorted(keys)][:200000],
                distinct_nontrivial=len(keys), violations=out_v, known=kn, samples=samples,
                counts=counts, report_keys=['counts'])


def scenarios(tier):
    out = []
    for (name, bundle) in menu():
        size = len(B.encode(bundle))
        out.append(dict(name='flip-%s' % name, kind='enum', runner='run_bundle',
                        params=dict(name='flip-%s' % name, bundle=name, tier=tier), weight=size))
    return out


ASSUMPTIONS = [
    'burst errors are enumerated as the solid pattern and the end-points-only pattern for each start bit and length (all single-bit flips; all lengths 2..width in the thorough tier)',
    'corruptions that make the octets something other than an RFC 9171 bundle (per the independent decoder) are counted but not judged',
    'twelve bundles: CRC-16/CRC-32/mixed, fragment, administrative record, dtn and ipn endpoint IDs, empty payload',
]

RULE = ('for each bundle of the menu, every error pattern inside the encoded span of every CRC-protected block is '
        'delivered to a fresh real agent followed by the pristine copy; a case is non-trivial when the independent '
        'decoder still finds a bundle and reports a failing block CRC; distinct by (block, pattern length, bit offset)')


def evidence(tier, seed, scens, results, wall_s):
    ev = enum_evidence(PROP, 'fault_enumeration', tier, seed, scens, results, wall_s, ASSUMPTIONS, RULE)
    good = [r for r in results if r and r.get('kind') == 'enum']
    ev['coverage']['distinct_nontrivial'] = sum(r.get('distinct_nontrivial', 0) for r in good)
    tot = dict(total=0, malformed=0, crc_fail=0, still_valid=0)
    for r in good:
        for k in tot:
            tot[k] += r.get('counts', {}).get(k, 0)
    ev['coverage']['classification'] = tot
    return ev


def replay_case(body, verbose=False):
    case = body['case']
    w = BpWorld(NODE_PARAMS)
    bad = bytes.fromhex(case['corrupted'])
    try:
        d = B.decode(bad, strict=False)
        print('independent decoder: primary crc ok=%s, blocks %r' % (d['primary']['crc_ok'], [(b['num'], b['crc_ok']) for b in d['blocks']]))
    except B.Malformed as err:
        print('independent decoder: %s' % err)
    w.receive(bad)
    w.quiesce()
    print('after corrupted copy: delivered=%d sent=%d errors=%r' % (len(w.probe.seen), len(w.cl.sent), [e[:2] for e in w.api_errors]))
    w.receive(bytes.fromhex(case['pristine']))
    w.quiesce()
    print('after pristine copy: delivered=%d sent=%d' % (len(w.probe.seen), len(w.cl.sent)))
    print('recorded: %s' % body['violation']['kind'])
    return 1
