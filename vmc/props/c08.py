'''C08 - block CRCs are always valid on output and always checked on input.

Fault enumeration: for a menu of bundles, every single-bit flip and every
burst (every pattern up to 8 / 11 bits, solid and end-points-only up to the CRC width) that lies
inside the encoded span of a CRC-protected block is delivered to a real agent
whose routes would deliver, forward and report on the bundle.  Whatever the
corruption did (block boundaries kept, bundle still decodable, or structure
destroyed) the agent must do nothing with it and must still process the
pristine copy delivered next.  Every bundle the agent emits is re-checked
by the independent CRC.'''
from ..bp_world import BpWorld
from ..world import Violation
from ..oracle import bpv7 as B
from ..evidence import enum_evidence
from .c02 import admin_payload

PROP = 'C08'

# Some corruptions turn a byte-string head into an integer head; the repository's BstrField
# then evaluates bytes(<that integer>), i.e. allocates up to 4 GiB of zeros for one bundle.
# The verdict (the bundle is dropped) does not depend on whether that allocation succeeds,
# so the workers of this check run under a small address-space ceiling.
WORKER_MEM_GB = 2

RPT = B.FLAG_REQ_RECEPTION | B.FLAG_REQ_FORWARD | B.FLAG_REQ_DELIVERY | B.FLAG_REQ_DELETION


def menu():
    def mk(dest, src, crc_p, crc_b, flags=RPT, ext=(), data=b'payload-data', rpt='dtn://rpt/', ts=(700000000000, 1), **pri_over):
        pri = dict(flags=flags, crc_type=crc_p, dest=dest, src=src, report_to=rpt, ts=ts, lifetime=3600000)
        pri.update(pri_over)
        blocks = [dict(b) for b in ext] + [dict(type=1, num=1, flags=0, crc_type=crc_b, data=data)]
        return dict(primary=pri, blocks=blocks)
    hop = dict(type=10, num=2, flags=0, crc_type=1, data=B.enc_hop_count(30, 2))
    age = dict(type=7, num=3, flags=1, crc_type=2, data=B.enc_age(1000))
    unk = dict(type=200, num=4, flags=0, crc_type=1, data=b'\x01\x02\x03')
    nocrc = dict(type=201, num=5, flags=0, crc_type=0, data=b'unprotected')
    return [
        ('local-crc16', mk('dtn://node/app', 'dtn://src/', 1, 1)),
        ('local-crc32', mk('dtn://node/app', 'dtn://src/', 2, 2)),
        ('local-mixed', mk('dtn://node/app', 'dtn://src/', 2, 0, ext=[hop, nocrc])),
        ('local-ipn', mk('ipn:9.1', 'ipn:7.8', 1, 2, rpt='ipn:7.0')),
        ('fwd-crc16', mk('dtn://far/x', 'dtn://src/', 1, 1, ext=[hop])),
        ('fwd-crc32', mk('dtn://far/x', 'dtn://src/', 2, 2, ext=[age, unk])),
        ('fwd-primary-only', mk('dtn://far/x', 'dtn://src/', 2, 0)),
        ('local-fragment', mk('dtn://node/app', 'dtn://src/', 2, 1, flags=RPT | B.FLAG_IS_FRAGMENT, frag_offset=0, total_adu=24)),
        ('local-admin', mk('dtn://node/', 'dtn://src/', 2, 2, flags=B.FLAG_ADMIN, data=admin_payload(1), rpt='dtn:none')),
        ('local-query-eid', mk('dtn://node/app?x', 'dtn://src/a?b', 1, 1)),
        ('local-ts0', mk('dtn://node/app', 'dtn://src/', 1, 1, ts=(0, 7), ext=[dict(age, crc_type=1)])),
        ('fwd-empty-payload', mk('dtn://far/x', 'dtn://src/', 1, 2, data=b'')),
    ]


NODE_PARAMS = dict(node_id='dtn://node/', rx_routes=[('^dtn://node/.*', 'deliver'), ('^ipn:9\\..*', 'deliver'), ('.*', 'forward')],
                   tx_routes=[('.*', 'dtn://next/', None)])


def observe(world):
    return (len(world.probe.seen), len(world.cl.sent))


FULL_BURST = dict(quick=8, thorough=11)


def patterns(nbits_span, start_bit, width, tier):
    '''Error patterns (as lists of absolute bit positions) whose first flipped bit is
    start_bit: the single flip, EVERY burst of length 2..FULL_BURST[tier] (first and last
    bit flipped, every combination in between), and for the longer lengths up to the CRC
    width the solid and the end-points-only pattern.'''
    yield [start_bit]
    full = min(FULL_BURST[tier], width)
    for length in range(2, full + 1):
        if start_bit + length > nbits_span[1]:
            return
        last = start_bit + length - 1
        for mid in range(1 << (length - 2)):
            yield [start_bit] + [start_bit + 1 + i for i in range(length - 2) if mid >> i & 1] + [last]
    lengths = range(full + 1, width + 1) if tier == 'thorough' else [l for l in (12, width - 1, width) if l > full]
    for length in lengths:
        if start_bit + length > nbits_span[1]:
            return
        yield list(range(start_bit, start_bit + length))
        yield [start_bit, start_bit + length - 1]


def flip(data, bits):
    buf = bytearray(data)
    for bit in bits:
        buf[bit // 8] ^= 0x80 >> (bit % 8)
    return bytes(buf)


def layout(data):
    '''Spans of the top-level items of an indefinite-length outer array that is followed
    by nothing, or None.  No field of any block is interpreted.'''
    from ..oracle import cbor_min as C
    try:
        (items, end, info) = C.load(data, 0)
    except C.DecodeError:
        return None
    if end != len(data) or not isinstance(items, list) or not isinstance(info, dict) or not info.get('indef'):
        return None
    if not all(isinstance(it, list) for it in items):
        return None
    return [tuple(sp) for sp in info['spans']]


def run_bundle(params, known):
    tier = params['tier']
    (part, nparts) = params.get('part', (0, 1))
    (name, bundle) = [m for m in menu() if m[0] == params['bundle']][0]
    good = B.encode(bundle)
    dec = B.decode(good)
    good_layout = layout(good)
    violations = []
    counts = dict(total=0, malformed=0, crc_fail=0, crc_fail_layout_kept=0, still_valid=0, batches=0, batches_rerun=0)
    samples = []

    def viol(kind, sig, detail, bits, data):
        if len(violations) >= 6:
            return
        v = Violation(PROP, 'crc', kind, sig, '%s: %s' % (name, detail)).as_dict()
        v['case'] = dict(bundle=name, pristine=good.hex(), corrupted=data.hex(), bits=bits)
        violations.append(v)

    # reference behaviour of the pristine bundle
    ref = BpWorld(NODE_PARAMS)
    ref.receive(good)
    ref.quiesce()
    ref_obs = observe(ref)
    if part == 0:
        if ref_obs == (0, 0) and name != 'local-fragment':
            viol('pristine-bundle-not-processed', dict(), 'reference run did nothing: %r %r' % (ref.api_errors[:1], ref.escaped[:1]), [], good)
        for out in ref.sent():
            try:
                od = B.decode(out)
                if not od['primary']['crc_ok'] or not all(b['crc_ok'] for b in od['blocks']):
                    viol('crc-invalid-on-output', dict(), 'agent emitted %s' % out.hex(), [], out)
            except B.Malformed as err:
                viol('output-not-rfc9171', dict(), '%s: %s' % (err, out.hex()), [], out)

    def judge_one(which, cls, bits, bad):
        '''Fresh agent: the corrupted copy, then the pristine one.'''
        w = BpWorld(NODE_PARAMS)
        w.receive(bad)
        w.quiesce()
        after_bad = observe(w)
        if w.escaped:
            viol('escaped-exception', dict(exc=w.escaped[-1][0]), 'corrupted copy (%s, %s): %s' % (which, cls, w.escaped[-1][2]), bits, bad)
            return
        if cls != 'valid':
            if after_bad != (0, 0):
                what = ('the octets are no longer an RFC 9171 bundle' if cls == 'malformed'
                        else 'the block CRC does not match the received octets')
                viol('corrupted-bundle-processed', dict(cls=cls),
                     'bits %r in %s (%s): %s but the agent delivered %d / sent %d bundles'
                     % (bits, which, cls, what, after_bad[0], after_bad[1]), bits, bad)
                return
            w.receive(good)
            w.quiesce()
            if observe(w) != ref_obs:
                viol('pristine-copy-not-processed-after-corrupted-one', dict(),
                     'bits %r in %s: afterwards the pristine bundle gives %r, alone it gives %r'
                     % (bits, which, observe(w), ref_obs), bits, bad)

    def judge_batch(batch):
        '''All corrupted copies of the batch into ONE agent, then the pristine copy: when
        nothing at all is observed for the corrupted ones and the pristine one is processed
        exactly as it is alone, every member was dropped without trace.  Anything else:
        every member is judged again on its own fresh agent.'''
        counts['batches'] += 1
        w = BpWorld(NODE_PARAMS)
        clean = True
        for (_which, _cls, _bits, bad) in batch:
            w.receive(bad)
            w.quiesce()
            if w.escaped or observe(w) != (0, 0):
                clean = False
                break
        if clean:
            w.receive(good)
            w.quiesce()
            clean = (observe(w) == ref_obs and not w.escaped)
        if not clean:
            counts['batches_rerun'] += 1
            for case in batch:
                judge_one(*case)

    spans = []
    if dec['primary']['crc_type']:
        spans.append((dec['primary']['span'], 16 if dec['primary']['crc_type'] == 1 else 32, 'primary', dec['primary']['crc_type']))
    for blk in dec['blocks']:
        if blk['crc_type']:
            spans.append((blk['span'], 16 if blk['crc_type'] == 1 else 32, 'block%d' % blk['num'], blk['crc_type']))
    batch = []
    for ((s0, s1), width, which, ctype) in spans:
        for start_bit in range(s0 * 8, s1 * 8):
            if start_bit % nparts != part:
                continue
            for bits in patterns((s0 * 8, s1 * 8), start_bit, width, tier):
                bad = flip(good, bits)
                counts['total'] += 1
                if layout(bad) == good_layout:
                    # same block boundaries: the block's CRC field is where the sender put it, and
                    # it cannot match the received octets (burst no longer than the CRC width)
                    n = width // 8
                    if B.crc_of(ctype, bad[s0:s1 - n] + bytes(n)) == bad[s1 - n:s1]:
                        counts['still_valid'] += 1
                        cls = 'valid'
                    else:
                        counts['crc_fail_layout_kept'] += 1
                        cls = 'crcfail-layout'
                else:
                    try:
                        bdec = B.decode(bad, strict=False)
                        if bdec['primary']['crc_ok'] and all(b['crc_ok'] for b in bdec['blocks']):
                            counts['still_valid'] += 1
                            cls = 'valid'
                        else:
                            counts['crc_fail'] += 1
                            cls = 'crcfail'
                    except B.Malformed:
                        counts['malformed'] += 1
                        cls = 'malformed'
                if cls != 'valid':
                    batch.append((which, cls, bits, bad))
                    if len(batch) >= 64:
                        judge_batch(batch)
                        batch = []
                    if len(samples) < 2 and counts['total'] % 997 == 1:
                        samples.append(dict(bundle=name, block=which, bits=bits, corrupted=bad.hex()))
                else:
                    judge_one(which, cls, bits, bad)
    if batch:
        judge_batch(batch)
    kn, out_v = [], []
    for v in violations:
        ent = known.match(v) if known is not None else None
        (kn if ent else out_v).append(dict(v, entry=ent) if ent else v)
    return dict(name=params['name'], evaluations=counts['total'], nontrivial_keys=[],
                distinct_nontrivial=counts['crc_fail'] + counts['crc_fail_layout_kept'] + counts['malformed'], violations=out_v, known=kn, samples=samples,
                counts=counts, report_keys=['counts'])


def run_outputs(params, known):
    '''Output side: every way a bundle leaves the node - created locally / received and forwarded
    (also from a clockless source) x CRC types of primary and canonical blocks (none, CRC-16, CRC-32,
    mixed) x extension-block sets x sent whole / cut into 2 or 3 fragments by the route MTU x with and
    without an integrity block added x status reports requested (the reports leave the node too).
    Every octet string handed to the convergence layer is decoded independently and every CRC it
    carries is recomputed bit-serially.'''
    from . import c05
    _env_bp()
    violations = []
    kinds = set()
    keys = set()
    count = 0
    (part, parts) = params['part']
    idx = -1
    for crc in (0, 1, 2, 10, 20):
        for ext in sorted(c05.EXT_SETS):
            for origin in ('local', 'forward', 'forward-ts0'):
                for bib in ((False, True) if origin == 'local' else (False,)):
                    for length in (0, 1, 40, 300):
                        for spec in (None, ('split', 2, 3), ('split', 3, 3)):
                            for reports in (False, True):
                                idx += 1
                                if idx % parts != part:
                                    continue
                                bundle = c05.make_bundle(length, crc, ext, 0, origin)
                                if reports:
                                    bundle['primary'].update(flags=RPT, report_to='dtn://rpt/x')
                                mtu = None
                                if spec is not None:
                                    if length == 0:
                                        continue
                                    mtu = c05.resolve_mtu(spec, bundle, None)
                                count += 1
                                world = c05.run_send(bundle, mtu, origin, bib)
                                label = dict(crc=crc, ext=ext, origin=origin, integrity_block=bib, length=length, mtu=mtu, reports=reports)
                                sent = world.sent()
                                keys.add('%d/%s/%s/%s/%d/%s/%s/%d' % (crc, ext, origin, bib, length, mtu, reports, len(sent)))
                                for out in sent:
                                    try:
                                        od = B.decode(out)
                                    except B.Malformed as err:
                                        found = ('output-not-rfc9171', '%s: %s' % (err, out.hex()[:200]))
                                    else:
                                        bad = [('primary' if i == 0 else 'block %d' % blk['num'])
                                               for (i, blk) in enumerate([od['primary']] + od['blocks']) if not blk['crc_ok']]
                                        found = ('crc-invalid-on-output', 'invalid CRC in %s of %s' % (', '.join(bad), out.hex()[:200])) if bad else None
                                    if found and found[0] not in kinds:
                                        kinds.add(found[0])
                                        v = Violation(PROP, 'crc', found[0], dict(), '%r: %s' % (label, found[1])).as_dict()
                                        v['case'] = dict(label=label, output=out.hex())
                                        violations.append(v)
    # bundles with many blocks (the outer array / item counts cross the one-octet CBOR head at 24): forwarded and local
    for nblocks in (21, 22, 23, 24, 30):
        for origin in ('local', 'forward'):
            for crc in (1, 2):
                idx += 1
                if idx % parts != part:
                    continue
                count += 1
                bundle = c05.make_bundle(40, crc, 'none', 0, origin)
                pay = bundle['blocks'][-1]
                bundle['blocks'] = [dict(type=200 + (k % 20), num=k + 2, flags=0, crc_type=crc, data=b'blk%d' % k) for k in range(nblocks)] + [pay]
                world = c05.run_send(bundle, None, origin, False)
                label = dict(extension_blocks=nblocks, origin=origin, crc=crc)
                sent = world.sent()
                keys.add('many/%d/%s/%d/%d' % (nblocks, origin, crc, len(sent)))
                if len(sent) != 1 and 'nothing-sent' not in kinds:
                    kinds.add('nothing-sent')
                    v = Violation(PROP, 'crc', 'nothing-sent', dict(), '%r: %d bundles reached the convergence layer (%r)' % (label, len(sent), world.api_errors[:1])).as_dict()
                    v['case'] = dict(label=label, output='')
                    violations.append(v)
                for out in sent:
                    try:
                        od = B.decode(out)
                        bad = [('primary' if i == 0 else 'block %d' % blk['num'])
                               for (i, blk) in enumerate([od['primary']] + od['blocks']) if not blk['crc_ok']]
                        found = ('crc-invalid-on-output', 'invalid CRC in %s' % ', '.join(bad)) if bad else None
                        if found is None and sum(1 for blk in od['blocks'] if blk['type'] >= 200 or blk['type'] == 1) != nblocks + 1:
                            found = ('output-not-rfc9171', '%d of the %d blocks handed over are on the wire' % (
                                sum(1 for blk in od['blocks'] if blk['type'] >= 200 or blk['type'] == 1), nblocks + 1))
                    except B.Malformed as err:
                        found = ('output-not-rfc9171', '%s: %s' % (err, out.hex()[:200]))
                    if found and found[0] not in kinds:
                        kinds.add(found[0])
                        v = Violation(PROP, 'crc', found[0], dict(), '%r: %s' % (label, found[1])).as_dict()
                        v['case'] = dict(label=label, output=out.hex())
                        violations.append(v)
    return dict(name=params['name'], evaluations=count, nontrivial_keys=sorted(keys), distinct_nontrivial=len(keys),
                violations=violations, known=[], samples=[])


def _env_bp():
    from .. import env as _env
    _env.load_bp()


def scenarios(tier):
    out = []
    for part in range(8):
        nm = 'outputs#%d/8' % (part + 1)
        out.append(dict(name=nm, kind='enum', runner='run_outputs', params=dict(name=nm, part=(part, 8)), weight=400))
    nparts = 4 if tier == 'quick' else 16
    for (name, bundle) in menu():
        size = len(B.encode(bundle))
        for part in range(nparts):
            nm = 'flip-%s#%d/%d' % (name, part + 1, nparts)
            out.append(dict(name=nm, kind='enum', runner='run_bundle',
                            params=dict(name=nm, bundle=name, tier=tier, part=(part, nparts)), weight=size))
    return out


ASSUMPTIONS = [
    'error patterns per start bit: the single flip; every burst pattern of length 2..8 (quick) / 2..11 (thorough); for longer bursts up to the CRC width the solid and the end-points-only pattern (quick: lengths 12, width-1, width; thorough: every length)',
    'every enumerated corruption must be dropped without trace; they are classified by the independent side as: block boundaries kept (the CRC carried in the block then cannot match the received octets), bundle still found by the independent decoder with a failing CRC, or no longer an RFC 9171 bundle at all (e.g. an array head turned into a break, leaving octets after the bundle); a corruption after which every CRC still verifies (impossible for these patterns) would be counted and not judged',
    'cases are delivered in batches of 64 to one agent followed by the pristine copy; a batch with any observable effect, or after which the pristine copy is not processed exactly as it is alone, is repeated case by case on fresh agents',
    'output side: 5 CRC settings x extension sets x {local, forwarded, forwarded from a clockless source} x integrity block x payload 0/1/40/300 x whole / 2 / 3 fragments x reports requested, and bundles of 21-30 extension blocks; every octet string reaching the convergence layer has every CRC recomputed',
    'twelve bundles: CRC-16/CRC-32/mixed, fragment, administrative record, dtn and ipn endpoint IDs, empty payload',
]

RULE = ('for each bundle of the menu, every error pattern inside the encoded span of every CRC-protected block is '
        'delivered to a real agent followed by the pristine copy; every corruption is a distinct case '
        '(block, start bit, pattern) and non-trivial unless all CRCs still verify')


def evidence(tier, seed, scens, results, wall_s):
    ev = enum_evidence(PROP, 'fault_enumeration', tier, seed, scens, results, wall_s, ASSUMPTIONS, RULE)
    good = [r for r in results if r and r.get('kind') == 'enum']
    ev['coverage']['distinct_nontrivial'] = sum(r.get('distinct_nontrivial', 0) for r in good)
    tot = dict(total=0, malformed=0, crc_fail=0, crc_fail_layout_kept=0, still_valid=0, batches=0, batches_rerun=0)
    for r in good:
        for k in tot:
            tot[k] += r.get('counts', {}).get(k, 0)
    ev['coverage']['classification'] = tot
    return ev


def replay_case(body, verbose=False):
    case = body['case']
    w = BpWorld(NODE_PARAMS)
    bad = bytes.fromhex(case['corrupted'])
    try:
        d = B.decode(bad, strict=False)
        print('independent decoder: primary crc ok=%s, blocks %r' % (d['primary']['crc_ok'], [(b['num'], b['crc_ok']) for b in d['blocks']]))
    except B.Malformed as err:
        print('independent decoder: %s' % err)
    w.receive(bad)
    w.quiesce()
    print('after corrupted copy: delivered=%d sent=%d errors=%r' % (len(w.probe.seen), len(w.cl.sent), [e[:2] for e in w.api_errors]))
    w.receive(bytes.fromhex(case['pristine']))
    w.quiesce()
    print('after pristine copy: delivered=%d sent=%d' % (len(w.probe.seen), len(w.cl.sent)))
    print('recorded: %s' % body['violation']['kind'])
    return 1
