'''Whole-node part of C18 (and an end-to-end reading of C01): two nodes, each a real BP agent
attached by the real `bp.cla.TcpclAdaptor` to a real TCPCL agent.  The adaptor is the consumer
of the D-Bus view: it pops a received bundle when the finished signal says `success`, sends
through the contact whose session parameters name the next hop, and keeps bundles until a
session exists.  Enumerated: workloads x the scheduler step at which each later bundle is
handed over x schedule orders x session set up beforehand or on demand.'''
from ..world import Violation
from ..oracle import bpv7 as B

PROP = 'C18'
T0 = 760000000000


def _bundle(src, dst, seq, length, flags=0):
    pri = dict(flags=flags, crc_type=1, dest='dtn://n%d/app' % dst, src='dtn://n%d/app' % src, report_to='dtn:none',
               ts=(T0, seq), lifetime=3600000)
    data = bytes((i * 5 + seq * 17 + 1) & 0xFF for i in range(length))
    return dict(primary=pri, blocks=[dict(type=1, num=1, flags=0, crc_type=1, data=data)])


# name -> (world parameters, [(sender, destination, payload length)], connect beforehand)
WORKLOADS = {
    'one': (dict(), [(0, 1, 5)], False),
    'one-preconnected': (dict(), [(0, 1, 5)], True),
    'empty+segment-size': (dict(), [(0, 1, 0), (0, 1, 8)], False),
    'two': (dict(), [(0, 1, 3), (0, 1, 20)], False),
    'two-preconnected': (dict(), [(0, 1, 20), (0, 1, 3)], True),
    'three': (dict(), [(0, 1, 1), (0, 1, 9), (0, 1, 2)], False),
    # the route names no next hop ("use the session that is there"); the session exists before the bundles are handed over
    'default-session-preconnected': (dict(routes={0: [('^dtn://n1/.*', 1, 'unnamed')], 1: []}), [(0, 1, 5), (0, 1, 12)], True),
    'both-ways': (dict(listen=[0, 1]), [(0, 1, 6), (1, 0, 7)], False),
    # node 1 has no configured route back: only the route the adaptor adds for an established session carries the reply
    # the session is terminated by the user after the first bundle has crossed; the second bundle is handed over
    # j steps after that request (the adaptor may still know the contact, or must ask for a new session)
    'second-after-termination': (dict(), [(0, 1, 5), (0, 1, 6)], False),
    'reply-over-reverse-route': (dict(routes={0: [('^dtn://n1/.*', 1)], 1: []}), [(0, 1, 4), (1, 0, 11)], False),
    # the configured route carries an MTU (the BP agent fragments, node 1 puts together); with the session set up on demand
    # and beforehand (the adaptor has then already added its own route for the peer)
    'route-mtu': (dict(seg_mru=64, routes={0: [('^dtn://n1/.*', 1, 200)], 1: []}), [(0, 1, 300), (0, 1, 20)], False),
    'route-mtu-preconnected': (dict(seg_mru=64, routes={0: [('^dtn://n1/.*', 1, 200)], 1: []}), [(0, 1, 300), (0, 1, 20)], True),
}


def run_nodes(params, known):
    from .. import env as _env
    _env.load_bp()
    from ..node_world import NodeWorld, TCPCL_AGENT_PATH, TCPCL_AGENT_IFACE
    from .c05 import impl_container
    prop = params.get('prop', PROP)
    violations = []
    kinds = set()
    keys = set()
    count = 0

    def viol(kind, detail, case):
        if kind in kinds:
            return
        kinds.add(kind)
        v = Violation(prop, 'nodes', kind, dict(), '%r: %s' % (case, detail)).as_dict()
        v['case'] = case
        violations.append(v)
    wname = params['workload']
    order = params['order']
    (wparams, sends, preconnect) = WORKLOADS[wname]

    def one_run(gaps):
        """-> True when every gap could be honoured (the run offered that many steps)."""
        nonlocal count
        case = dict(workload=wname, order=order, steps_between_sends=list(gaps))
        honoured = True
        world = NodeWorld(wparams)
        live = list(order)
        if preconnect:
            world.bus_call(world.procs['N0'], TCPCL_AGENT_PATH, 'connect', world.ADDR[1], 4556, iface=TCPCL_AGENT_IFACE)
            world.run_policy(live)
        want = {}
        for (n, (src, dst, length)) in enumerate(sends):
            if n and wname == 'second-after-termination':
                world.run_policy(live)
                for path in world.contacts(0):
                    world.bus_call(world.procs['N0'], path, 'terminate', 0, iface='org.ietf.dtn.tcpcl.Contact')
            if n:
                done = 0
                while done < gaps[n - 1]:
                    for (j, name) in enumerate(live):
                        if world.step(name):
                            live = live[j + 1:] + live[:j + 1]
                            done += 1
                            break
                    else:
                        break
                if done < gaps[n - 1]:
                    honoured = False
            if n and wname == 'second-after-termination' and world.contacts(0):
                # a bundle handed to a session that is already ending is reported as not sent by the
                # convergence layer and nobody retries: outside what is decided here
                return honoured
            if n and wname == 'reply-over-reverse-route' and not world.probe(src):
                # the reply is an answer: it cannot be sent before the first bundle has been handed over
                return honoured
            bundle = _bundle(src, dst, n + 1, length)
            want.setdefault(dst, []).append(('dtn://n%d/app' % src, (T0, n + 1), bundle['blocks'][-1]['data']))
            world.send(src, impl_container(bundle))
        try:
            world.run_policy(live)
        except Exception as err:
            viol('run-does-not-end', str(err), case)
            return False
        count += 1
        keys.add('%s/%s/%r' % (wname, ''.join(order), list(gaps)))
        sig = world.sig
        if sig.escaped:
            viol('escaped-exception', '%s: %s\n%s' % (sig.escaped[-1][1], sig.escaped[-1][2], sig.escaped[-1][3][-600:]), case)
        if sig.marshal_errors:
            viol('signal-or-return-does-not-fit-signature', repr(sig.marshal_errors[-1]), case)
        if world.api_errors:
            viol('send-raised', '%s: %s' % world.api_errors[-1][:2], case)
        for node in range(world.params['nodes']):
            got = [(d['src'], tuple(d['ts']), [bytes.fromhex(b[2]) for b in d['blocks'] if b[0] == 1]) for d in world.probe(node)]
            exp = want.get(node, [])
            for (src, ts, data) in exp:
                n_got = [g for g in got if g[0] == src and g[1] == ts]
                if len(n_got) != 1:
                    viol('bundle-not-delivered-once-to-the-application', 'node %d: bundle %s %r handed over %d times (all: %r)'
                         % (node, src, ts, len(n_got), [(g[0], g[1]) for g in got]), case)
                elif n_got[0][2] != [data]:
                    viol('delivered-payload-differs', 'node %d: %r instead of %r' % (node, n_got[0][2], data), case)
            if len(got) > len(exp):
                viol('unexpected-delivery', 'node %d was handed %r' % (node, [(g[0], g[1]) for g in got]), case)
            for (path, (sq, rq)) in world.queues(node).items():
                if sq != [] or rq != []:
                    viol('queue-not-empty-at-the-end', 'node %d %s: send queue %r, receive queue %r' % (node, path, sq, rq), case)
        # every bundle sent was announced as received at least once, and only successes were announced
        # (bundles handed over before a session exists make the adaptor ask for one connection each, and
        # each new session is given everything that waits: the same bundle may cross more than once)
        fin = [(p, a) for (p, _path, m, a) in sig.log if m == 'recv_bundle_finished']
        if len(fin) < len(sends) or any(a[2] != 'success' for (_p, a) in fin):
            viol('receptions-announced-differ-from-bundles-sent', repr(fin), case)
        mtus = [e[2] for e in wparams.get('routes', {}).get(0, []) if len(e) > 2 and isinstance(e[2], int)]
        if mtus and any(a[1] > mtus[0] for (_p, a) in fin):
            viol('bundle-larger-than-the-route-mtu-crossed', 'route MTU %d, lengths received %r' % (mtus[0], [a[1] for (_p, a) in fin]), case)
        if preconnect and not mtus:
            # the session was there before anything was handed over: nothing waits, no further connection is asked for
            opened = [a for (p, _path, m, a) in sig.log if m == 'connection_opened']
            if len(fin) != len(sends) or len(opened) != 2:
                viol('bundle-crossed-more-than-once-over-an-existing-session', '%d receptions of %d bundles, %d contacts opened (two ends of one connection expected)'
                     % (len(fin), len(sends), len(opened)), case)
        return honoured

    if len(sends) == 1:
        one_run([])
    elif len(sends) == 2:
        g = 0
        while one_run([g]):
            g += 1
    else:
        g1 = 0
        while True:
            ok1 = True
            for g2 in LATER_GAPS:
                ok1 = one_run([g1, g2]) or g2 > 0
                if g2 == 0 and not ok1:
                    break
            if not ok1:
                break
            g1 += 1
    return dict(name=params['name'], evaluations=count, nontrivial_keys=sorted(keys), violations=violations, known=[], samples=[])


# the third and later bundles follow the one before after one of these numbers of scheduler steps
LATER_GAPS = (0, 1, 2, 3, 5, 8, 13, 21, 34, 55)


# ---------------------------------------------------------------------------
# whole nodes over UDPCL (bp.cla.UdpclAdaptor)

# name -> (world parameters, [(sender, destination node, payload length)])
UDP_WORKLOADS = {
    'one': (dict(), [(0, 1, 5)]),
    'three-back-to-back': (dict(), [(0, 1, 1), (0, 1, 90), (0, 1, 2)]),
    'segmented-by-the-cl': (dict(cl_mtu=120), [(0, 1, 300), (0, 1, 10), (0, 1, 200)]),
    'fragmented-by-the-route': (dict(routes={0: [('^dtn://n1/.*', 1, 200)], 1: []}), [(0, 1, 300), (0, 1, 10)]),
    'fragmented-and-segmented': (dict(cl_mtu=120, routes={0: [('^dtn://n1/.*', 1, 260)], 1: []}), [(0, 1, 400)]),
    'both-ways': (dict(cl_mtu=150), [(0, 1, 200), (1, 0, 7), (0, 1, 3), (1, 0, 180)]),
    # three nodes in a line: n0 -> n1 -> n2, forwarded by the node in the middle
    'forwarded': (dict(nodes=3, cl_mtu=150, routes={0: [('^dtn://n2/.*', 1, None)], 1: [('^dtn://n2/.*', 2, None)], 2: []}),
                  [(0, 2, 5), (0, 2, 260)]),
    # node 1 has no configured route: it learns of node 0 from its polling announcement
    'reply-to-an-announced-peer': (dict(poll=[(0, 1)], routes={0: [('^dtn://n1/.*', 1, None)], 1: []}), [(0, 1, 4), (1, 0, 170)]),
}


def run_udp_nodes(params, known):
    '''Every workload under every priority order of the processes, datagrams delivered oldest / newest
    first, bundles handed over back to back or one after the other has settled: each bundle reaches the
    destination application once and intact, nothing is left in a receive queue, every signal fits its
    declared signature, every started transfer is reported finished once.'''
    import itertools
    from .. import env as _env
    _env.load_bp()
    from ..udp_node_world import UdpNodeWorld
    from .c05 import impl_container
    prop = params.get('prop', PROP)
    violations = []
    kinds = set()
    keys = set()
    count = 0
    wname = params['workload']
    (wparams, sends) = UDP_WORKLOADS[wname]

    def viol(kind, detail, case):
        if kind in kinds:
            return
        kinds.add(kind)
        v = Violation(prop, 'udp-nodes', kind, dict(), '%r: %s' % (case, detail)).as_dict()
        v['case'] = case
        violations.append(v)
    nodes = wparams.get('nodes', 2)
    names = ['N%d' % i for i in range(nodes)]
    for (order, deliver, spacing) in itertools.product(itertools.permutations(names), ('fifo', 'lifo'), ('back-to-back', 'settled')):
        case = dict(workload=wname, order=list(order), datagrams=deliver, spacing=spacing)
        world = UdpNodeWorld(wparams)
        world.quiesce(order, deliver)
        if wparams.get('poll'):
            world.run_until(1500000, order, deliver)    # the first announcement goes out after one second
        want = {}
        for (n, (src, dst, length)) in enumerate(sends):
            if src != sends[0][0] and not world.probe(src):
                # an answer: the first bundle must have arrived before it can be sent
                world.quiesce(order, deliver)
            bundle = _bundle(src, dst, n + 1, length)
            want.setdefault(dst, []).append(('dtn://n%d/app' % src, (T0, n + 1), bundle['blocks'][-1]['data']))
            world.send(src, impl_container(bundle))
            if spacing == 'settled':
                world.quiesce(order, deliver)
        try:
            world.quiesce(order, deliver)
        except Exception as err:
            viol('run-does-not-end', str(err), case)
            continue
        count += 1
        keys.add('%s/%s/%s/%s' % (wname, ''.join(order), deliver, spacing))
        sig = world.sig
        if sig.escaped:
            viol('escaped-exception', '%s: %s\n%s' % (sig.escaped[-1][1], sig.escaped[-1][2], sig.escaped[-1][3][-600:]), case)
        if sig.marshal_errors:
            viol('signal-or-return-does-not-fit-signature', repr(sig.marshal_errors[-1]), case)
        if world.api_errors:
            viol('send-raised', '%s: %s' % world.api_errors[-1][:2], case)
        for node in range(nodes):
            got = [(d['src'], tuple(d['ts']), [bytes.fromhex(b[2]) for b in d['blocks'] if b[0] == 1]) for d in world.probe(node)]
            exp = want.get(node, [])
            for (src, ts, data) in exp:
                n_got = [g for g in got if g[0] == src and g[1] == ts]
                if len(n_got) != 1:
                    viol('bundle-not-delivered-once-to-the-application', 'node %d: bundle %s %r handed over %d times (all: %r)'
                         % (node, src, ts, len(n_got), [(g[0], g[1]) for g in got]), case)
                elif n_got[0][2] != [data]:
                    viol('delivered-payload-differs', 'node %d: %d octets instead of %d' % (node, sum(len(x) for x in n_got[0][2]), len(data)), case)
            if len(got) > len(exp):
                viol('unexpected-delivery', 'node %d was handed %r' % (node, [(g[0], g[1]) for g in got]), case)
            rq = world.rx_queue(node)
            if rq != []:
                viol('queue-not-empty-at-the-end', 'node %d: receive queue %r' % (node, rq), case)
        started = {}
        finished = {}
        for (pname, _path, member, args) in sig.log:
            if member == 'send_bundle_started':
                started[(pname, args[0])] = started.get((pname, args[0]), 0) + 1
            elif member == 'send_bundle_finished':
                finished[(pname, args[0])] = finished.get((pname, args[0]), 0) + 1
                if (pname, args[0]) not in started:
                    viol('finished-signal-without-a-started-transfer', repr((pname, args)), case)
                if args[2] != 'success':
                    viol('transfer-not-reported-successful', repr((pname, args)), case)
        for (key, num) in started.items():
            if num != 1 or finished.get(key, 0) != 1:
                viol('started-transfer-not-finished-exactly-once', '%r started %d times, finished %d times' % (key, num, finished.get(key, 0)), case)
    return dict(name=params['name'], evaluations=count, nontrivial_keys=sorted(keys), violations=violations, known=[], samples=[])
