'''C02 - BPv7 bundle encoding round-trips and is RFC 9171 well-formed.

Bounded-exhaustive enumeration of field values (every CBOR head-width boundary,
every subset of the defined flags, EID forms, CRC types, fragment fields,
extension-block lists, status reports), each point checked three ways against
the independent codec:
  (1) implementation encodes -> independent decoder reads the same values and
      finds the RFC 9171 structure (with valid CRCs);
  (2) implementation decodes its own octets to the same values;
  (3) implementation decodes the independent encoding and re-encodes it to the
      identical octets.'''
import itertools

from .. import env as _env
from ..world import Violation
from ..oracle import bpv7 as B
from ..oracle import cbor_min as C
from ..evidence import enum_evidence

PROP = 'C02'

UINTS = [0, 1, 23, 24, 255, 256, 65535, 65536, 2 ** 32 - 1, 2 ** 32, 2 ** 64 - 1]
DEFINED_FLAGS = [0x000001, 0x000002, 0x000004, 0x000020, 0x000040, 0x004000, 0x010000, 0x020000, 0x040000]
EIDS = ['dtn:none', 'dtn://n/', 'dtn://node-name/svc', 'dtn://n/a/b?c', 'dtn://NodeA/Svc#Frag', 'dtn:~group', 'ipn:1.2', 'ipn:0.0', 'ipn:977000.3.7',
        'ipn:23.24', 'ipn:255.256', 'ipn:65535.65536', 'ipn:4294967295.4294967296', 'ipn:18446744073709551615.1']
DATAS = [b'', b'\x00', b'x' * 23, b'y' * 24, b'z' * 255, b'w' * 256]


def base_bundle(kind=0):
    pri = dict(flags=0, crc_type=0, dest='dtn://dst/svc', src='dtn://src/', report_to='dtn:none',
               ts=(700000000000, 5), lifetime=3600000)
    blocks = [dict(type=1, num=1, flags=0, crc_type=0, data=b'payload')]
    if kind == 1:
        pri.update(crc_type=1)
        blocks[0].update(crc_type=1)
    elif kind == 2:
        pri.update(crc_type=2, dest='ipn:5.6', src='ipn:7.8', report_to='ipn:7.0')
        blocks[0].update(crc_type=2)
    elif kind == 3:
        pri.update(flags=B.FLAG_IS_FRAGMENT, frag_offset=10, total_adu=100, crc_type=2)
    elif kind == 4:
        blocks.insert(0, dict(type=10, num=2, flags=0, crc_type=1, data=B.enc_hop_count(30, 2)))
        blocks.insert(0, dict(type=7, num=3, flags=1, crc_type=0, data=B.enc_age(1000)))
    elif kind == 5:
        pri.update(ts=(0, 0), report_to='dtn://rpt/')
        blocks.insert(0, dict(type=192, num=7, flags=0x16, crc_type=2, data=b'\xde\xad'))
    return dict(primary=pri, blocks=blocks)


def admin_payload(variant):
    t = 700000000123
    if variant == 0:
        st = [(True, None), (False, None), (False, None), (False, None)]
        return B.enc_status_report(st, 0, 'dtn://src/', (700000000000, 5))
    if variant == 1:
        st = [(True, t), (True, t + 1), (False, None), (True, t + 2)]
        return B.enc_status_report(st, 6, 'ipn:7.8', (0, 0), frag=(10, 20))
    st = [(False, None), (False, None), (True, 0), (False, None)]
    return B.enc_status_report(st, 15, 'dtn:none', (2 ** 64 - 1, 2 ** 32))


# ---------------------------------------------------------------------------
# bridging to the implementation

def impl_build(bundle, unsaid=False):
    '''Values -> implementation objects (the way the repository builds bundles).
    unsaid: zero flags and CRC type zero are not passed at all (they are the defaults of the fields).'''
    from bp.encoding import Bundle, PrimaryBlock, CanonicalBlock, Timestamp
    pri = bundle['primary']
    kwargs = dict(bundle_flags=pri['flags'], crc_type=pri['crc_type'], destination=pri['dest'], source=pri['src'],
                  report_to=pri['report_to'], create_ts=Timestamp(dtntime=pri['ts'][0], seqno=pri['ts'][1]),
                  lifetime=pri['lifetime'])
    if unsaid:
        for key in ('bundle_flags', 'crc_type'):
            if kwargs[key] == 0:
                del kwargs[key]
    if 'version' in pri:
        kwargs['bp_version'] = pri['version']
    if pri['flags'] & B.FLAG_IS_FRAGMENT:
        kwargs.update(fragment_offset=pri['frag_offset'], total_app_data_len=pri['total_adu'])
    blocks = []
    for blk in bundle['blocks']:
        bkw = dict(type_code=blk['type'], block_num=blk['num'], block_flags=blk['flags'], crc_type=blk['crc_type'], btsd=blk['data'])
        if unsaid:
            for key in ('block_flags', 'crc_type'):
                if bkw[key] == 0:
                    del bkw[key]
        blocks.append(CanonicalBlock(**bkw))
    obj = Bundle(primary=PrimaryBlock(**kwargs), blocks=blocks)
    return obj


def impl_values(obj):
    '''Implementation objects -> values.'''
    pri = obj.primary
    flags = int(pri.getfieldval('bundle_flags'))
    out = dict(version=int(pri.getfieldval('bp_version')), flags=flags, crc_type=int(pri.getfieldval('crc_type')),
               dest=pri.getfieldval('destination') or 'dtn:none', src=pri.getfieldval('source') or 'dtn:none',
               report_to=pri.getfieldval('report_to') or 'dtn:none',
               ts=(pri.create_ts.getfieldval('dtntime'), pri.create_ts.getfieldval('seqno')),
               lifetime=pri.getfieldval('lifetime'))
    if flags & B.FLAG_IS_FRAGMENT:
        out['frag_offset'] = pri.getfieldval('fragment_offset')
        out['total_adu'] = pri.getfieldval('total_app_data_len')
    blocks = []
    for blk in obj.blocks:
        blocks.append(dict(type=int(blk.getfieldval('type_code')), num=int(blk.getfieldval('block_num')),
                           flags=int(blk.getfieldval('block_flags')), crc_type=int(blk.getfieldval('crc_type')),
                           data=bytes(blk.getfieldval('btsd'))))
    return dict(primary=out, blocks=blocks)


def want_values(bundle):
    out = B.strip(bundle)
    out['primary'].setdefault('version', 7)
    if not out['primary']['flags'] & B.FLAG_IS_FRAGMENT:
        out['primary'].pop('frag_offset', None)
        out['primary'].pop('total_adu', None)
    for blk in out['blocks']:
        blk['data'] = bytes(blk['data'])
    return out


def check_bundle(bundle, label, check_parsed=True):
    '''Returns (violation dict or None, nontrivial key).'''
    from bp.encoding import Bundle
    want = want_values(bundle)
    case = dict(label=label, values=repr(want))

    def bad(kind, detail, extra=None):
        v = Violation(PROP, 'codec', kind, dict(), '%s: %s' % (label, detail)).as_dict()
        v['case'] = dict(case, **(extra or {}))
        return v
    try:
        obj = impl_build(bundle)
        obj.update_all_crc()
        enc = bytes(obj)
    except Exception as err:
        return bad('implementation-cannot-encode', '%s: %s' % (type(err).__name__, err)), None
    case['impl_octets'] = enc.hex()
    if bundle['primary']['crc_type'] == 0 or bundle['primary']['flags'] == 0 or any(b['crc_type'] == 0 or b['flags'] == 0 for b in bundle['blocks']):
        # the same bundle built without saying what is zero anyway: the same octets
        try:
            obj2 = impl_build(bundle, unsaid=True)
            obj2.update_all_crc()
            enc2 = bytes(obj2)
        except Exception as err:
            return bad('implementation-cannot-encode', 'defaults left unsaid: %s: %s' % (type(err).__name__, err)), None
        if enc2 != enc:
            return bad('encoding-depends-on-saying-the-defaults', 'with zero flags / CRC type 0 not passed: %s, passed: %s' % (enc2.hex()[:160], enc.hex()[:160])), None
    # (1) independent decoder
    try:
        dec = B.decode(enc)
    except B.Malformed as err:
        return bad('encoding-not-rfc9171', str(err)), None
    if want_values(dec) != want:
        return bad('independent-decoder-reads-other-values', 'got %r' % (want_values(dec),)), None
    if not dec['primary']['crc_ok'] or not all(b['crc_ok'] for b in dec['blocks']):
        return bad('crc-invalid-on-output', 'primary ok=%s blocks ok=%r' % (dec['primary']['crc_ok'], [b['crc_ok'] for b in dec['blocks']])), None
    # (2) implementation decodes its own octets
    try:
        back = Bundle(enc)
        got = impl_values(back)
    except Exception as err:
        return bad('implementation-cannot-decode-own-encoding', '%s: %s' % (type(err).__name__, err)), None
    if got != want:
        return bad('decode-yields-other-values', 'got %r' % (got,)), None
    # (3) independent encoding -> implementation -> same octets
    oenc = B.encode(bundle)
    try:
        again = bytes(Bundle(oenc))
    except Exception as err:
        return bad('implementation-rejects-valid-encoding', '%s: %s' % (type(err).__name__, err), dict(oracle_octets=oenc.hex())), None
    if again != oenc:
        return bad('decode-reencode-differs', '%s -> %s' % (oenc.hex()[:160], again.hex()[:160]), dict(oracle_octets=oenc.hex())), None
    if enc != oenc:
        return bad('encoding-differs-from-independent-encoder', '%s vs %s' % (enc.hex()[:160], oenc.hex()[:160]), dict(oracle_octets=oenc.hex())), None
    # (4) the parsed form of the extension blocks the implementation knows stands for the octets it was parsed from
    import cbor2
    for blk in Bundle(oenc).blocks:
        tcode = int(blk.getfieldval('type_code'))
        parsed = blk.payload
        if not check_parsed or tcode not in (6, 7, 10, 11, 12) or type(parsed).__name__ in ('Raw', 'NoPayload', 'NoneType'):
            continue
        try:
            items = parsed.build()
            rebuilt = b''.join(cbor2.dumps(i) for i in items) if tcode in (11, 12) else cbor2.dumps(items)
        except Exception as err:
            return bad('parsed-block-cannot-be-rebuilt', 'block type %d: %s: %s' % (tcode, type(err).__name__, err), dict(oracle_octets=oenc.hex())), None
        if rebuilt != bytes(blk.getfieldval('btsd')):
            return bad('parsed-block-differs-from-its-octets', 'block type %d parsed as %r which encodes as %s, block data %s'
                       % (tcode, items, rebuilt.hex()[:120], bytes(blk.getfieldval('btsd')).hex()[:120]), dict(oracle_octets=oenc.hex())), None
    key = (len(enc), want['primary']['flags'] & 3, want['primary']['crc_type'], len(want['blocks']),
           tuple(b['crc_type'] for b in want['blocks']))
    return None, key


# ---------------------------------------------------------------------------
# the enumerated spaces

def gen_field_sweeps():
    for kind in range(6):
        base = base_bundle(kind)
        for val in UINTS:
            b = _copy(base); b['primary']['lifetime'] = val; yield ('k%d lifetime=%d' % (kind, val), b)
            b = _copy(base); b['primary']['ts'] = (val, 5); yield ('k%d ts.time=%d' % (kind, val), b)
            b = _copy(base); b['primary']['ts'] = (700000000000, val); yield ('k%d ts.seq=%d' % (kind, val), b)
            b = _copy(base); b['primary']['flags'] |= B.FLAG_IS_FRAGMENT
            b['primary']['frag_offset'] = val; b['primary']['total_adu'] = 7
            yield ('k%d frag_offset=%d' % (kind, val), b)
            b = _copy(base); b['primary']['flags'] |= B.FLAG_IS_FRAGMENT
            b['primary']['frag_offset'] = 3; b['primary']['total_adu'] = val
            yield ('k%d total_adu=%d' % (kind, val), b)
            if val >= 2:
                b = _copy(base); b['blocks'][0] = dict(b['blocks'][0]); b['blocks'].insert(0, dict(type=193, num=val, flags=0, crc_type=kind % 3, data=b'q'))
                if val != 1:
                    yield ('k%d block_num=%d' % (kind, val), b)
            if val >= 2 and val not in (6, 7, 10, 11, 12):
                b = _copy(base); b['blocks'].insert(0, dict(type=val if val > 12 else 192 + val, num=9, flags=0, crc_type=0, data=b'q'))
                yield ('k%d block_type=%d' % (kind, val), b)
        for eid in EIDS:
            for fld in ('dest', 'src', 'report_to'):
                b = _copy(base); b['primary'][fld] = eid; yield ('k%d %s=%s' % (kind, fld, eid), b)
        for crc in (0, 1, 2):
            for bcrc in (0, 1, 2):
                b = _copy(base); b['primary']['crc_type'] = crc
                for blk in b['blocks']:
                    blk['crc_type'] = bcrc
                yield ('k%d crc=%d/%d' % (kind, crc, bcrc), b)
        for bf in range(32):
            flags = (bf & 0x07) | ((bf & 0x08) << 1) | ((bf & 0x10) << 2)
            b = _copy(base); b['blocks'][-1]['flags'] = flags & ~0x01 if False else flags
            yield ('k%d payload block flags=0x%x' % (kind, flags), b)
        for data in DATAS:
            b = _copy(base); b['blocks'][-1]['data'] = data; yield ('k%d payload len=%d' % (kind, len(data)), b)
            b = _copy(base); b['blocks'].insert(0, dict(type=200, num=11, flags=0, crc_type=kind % 3, data=data))
            yield ('k%d ext len=%d' % (kind, len(data)), b)


def gen_flag_subsets():
    for mask in range(512):
        flags = 0
        for (i, f) in enumerate(DEFINED_FLAGS):
            if mask >> i & 1:
                flags |= f
        for kind in (0, 2):
            b = base_bundle(kind)
            b['primary']['flags'] = flags
            if flags & B.FLAG_IS_FRAGMENT:
                b['primary']['frag_offset'] = 4
                b['primary']['total_adu'] = 40
            if flags & B.FLAG_ADMIN:
                b['blocks'][-1]['data'] = admin_payload(mask % 3)
            yield ('flags=0x%06x k%d' % (flags, kind), b)
            if flags & B.FLAG_ADMIN and flags & B.FLAG_IS_FRAGMENT:
                # a real fragment of an administrative record: its payload is a slice of the record
                whole = admin_payload(mask % 3)
                for (name, part, off) in (('head', whole[:len(whole) // 2], 0), ('tail', whole[len(whole) // 2:], len(whole) // 2)):
                    f = _copy(b)
                    f['blocks'][-1]['data'] = part
                    f['primary']['frag_offset'] = off
                    f['primary']['total_adu'] = len(whole)
                    yield ('flags=0x%06x k%d admin-record-%s' % (flags, kind, name), f)


def gen_product():
    lifetimes = [0, 24, 2 ** 32]
    tss = [(0, 0), (700000000000, 23), (2 ** 64 - 1, 256)]
    eids = ['dtn:none', 'dtn://n/s', 'ipn:255.256']
    for (lt, ts, dest, src, rpt, crc, bcrc, frag, plen) in itertools.product(
            lifetimes, tss, eids, eids, eids, (0, 1, 2), (0, 1, 2), (False, True), (0, 24)):
        pri = dict(flags=B.FLAG_IS_FRAGMENT if frag else 0, crc_type=crc, dest=dest, src=src, report_to=rpt, ts=ts, lifetime=lt)
        if frag:
            pri.update(frag_offset=23, total_adu=65536)
        yield ('product', dict(primary=pri, blocks=[dict(type=1, num=1, flags=0, crc_type=bcrc, data=b'p' * plen)]))


def ext_menu():
    return [
        dict(type=6, flags=0, crc_type=0, data=B.enc_prev_node('dtn://prev/')),
        dict(type=6, flags=0, crc_type=2, data=B.enc_prev_node('ipn:3.0')),
        dict(type=7, flags=1, crc_type=1, data=B.enc_age(0)),
        dict(type=7, flags=0, crc_type=0, data=B.enc_age(2 ** 32)),
        dict(type=10, flags=0, crc_type=0, data=B.enc_hop_count(255, 24)),
        dict(type=192, flags=0x10, crc_type=2, data=b''),
        dict(type=192, flags=0, crc_type=0, data=b'o' * 24),
        dict(type=11, flags=0, crc_type=0, data=B.enc_asb(dict(targets=[1], context=3, flags=1, source='dtn://src/',
                                                                   params=[(5, {0: 1, -1: 1})], results=[[(17, b'\x84\x40\xa0\xf6\x41\x00')]]))),
        dict(type=12, flags=1, crc_type=1, data=B.enc_asb(dict(targets=[1, 2], context=3, flags=0, source='ipn:1.0',
                                                                   params=[], results=[[(16, b'\x83\x40\xa0\xf6')], [(16, b'\x83\x40\xa0\xf6')]]))),
        # a confidentiality block whose target has no security result (the tag stays in the ciphertext): an empty result set
        dict(type=12, flags=0, crc_type=0, data=B.enc_asb(dict(targets=[1], context=3, flags=0, source='ipn:1.0', params=[], results=[[]]))),
        # the parameters-present flag with an empty parameter array (legal for an RFC 9172 encoder; the array must not vanish)
        dict(type=11, flags=0, crc_type=1, data=B.enc_asb(dict(targets=[1], context=3, flags=1, source='ipn:1.0', params=[],
                                                                   results=[[(17, b'\x84\x40\xa0\xf6\x41\x00')]]))),
    ]


def gen_block_lists():
    menu = ext_menu()
    for n in range(0, 4):
        for combo in itertools.product(range(len(menu)), repeat=n):
            for kind in ((0, 2) if n < 3 else (0,)):
                b = base_bundle(kind)
                pay = b['blocks'][-1]
                blocks = []
                for (i, idx) in enumerate(combo):
                    blk = dict(menu[idx])
                    blk['num'] = i + 2
                    blocks.append(blk)
                b['blocks'] = blocks + [pay]
                yield ('blocks=%r k%d' % (combo, kind), b)


def gen_status_reports():
    times = [None, 0, 23, 2 ** 32]
    for asserted in itertools.product((False, True), repeat=4):
        for when in times:
            for reason in (0, 1, 6, 9, 15, 16):
                for frag in (None, (0, 24), (2 ** 32, 65536)):
                    for subj in ('dtn://src/', 'ipn:9.1'):
                        st = [(a, when if a else None) for a in asserted]
                        data = B.enc_status_report(st, reason, subj, (700000000000, 9), frag=frag)
                        b = base_bundle(2)
                        b['primary']['flags'] = B.FLAG_ADMIN
                        b['blocks'][-1]['data'] = data
                        yield ('report %r when=%r reason=%d frag=%r' % (asserted, when, reason, frag), b, dict(
                            status=st, reason=reason, subj_src=subj, subj_ts=(700000000000, 9), frag=frag))


    # reason codes the repository has no name for (11 is in RFC 9171; the others are unassigned): the record is
    # carried as it came, octet for octet
    for reason in (11, 17, 23, 24, 255, 256, 65535):
        for asserted in ((True, False, False, False), (False, False, False, True), (True, True, True, True)):
            for when in (None, 23):
                for frag in (None, (0, 24)):
                    st = [(a, when if a else None) for a in asserted]
                    b = base_bundle(2)
                    b['primary']['flags'] = B.FLAG_ADMIN
                    b['blocks'][-1]['data'] = B.enc_status_report(st, reason, 'dtn://src/', (700000000000, 9), frag=frag)
                    yield ('report %r when=%r unregistered reason=%d frag=%r' % (asserted, when, reason, frag), b)


def _copy(bundle):
    return dict(primary=dict(bundle['primary']), blocks=[dict(b) for b in bundle['blocks']])


def check_report_fields(bundle, want):
    '''The implementation's administrative-record view of a decoded report.'''
    from bp.encoding import Bundle, StatusReport
    enc = B.encode(bundle)
    obj = Bundle(enc)
    pay = obj.blocks[-1].payload
    rep = pay.payload if pay is not None else None
    if not isinstance(rep, StatusReport):
        return 'payload not recognised as a status report: %r' % (rep,)
    got_status = []
    for name in ('received', 'forwarded', 'delivered', 'deleted'):
        info = rep.status.getfieldval(name)
        got_status.append((bool(info.getfieldval('status')), info.getfieldval('at')))
    got = dict(status=got_status, reason=int(rep.getfieldval('reason_code')), subj_src=rep.getfieldval('subj_source'),
               subj_ts=(rep.subj_ts.getfieldval('dtntime'), rep.subj_ts.getfieldval('seqno')),
               frag=None)
    fo = rep.getfieldval('fragment_offset')
    pl = rep.getfieldval('payload_len')
    if fo is not None or pl is not None:
        got['frag'] = (fo, pl)
    if got != want:
        return 'implementation reads %r, encoded %r' % (got, want)
    return None


def gen_many_blocks(tier='quick'):
    '''Bundles with n extension blocks: every n up to 40, and around the widths of a CBOR
    array head (24 and 256 top-level items), although the outer array is of indefinite length.'''
    menu = ext_menu()
    counts = list(range(0, 41)) + [252, 253, 254, 255, 256, 257, 300]
    if tier == 'thorough':
        counts = list(range(0, 301))
    for n in counts:
        for kind in (0, 2):
            b = base_bundle(kind)
            pay = b['blocks'][-1]
            blocks = []
            for i in range(n):
                blk = dict(menu[(i + n) % len(menu)])
                blk['num'] = i + 2
                blocks.append(blk)
            b['blocks'] = blocks + [pay]
            yield ('extension-blocks=%d k%d' % (n, kind), b)


def time_values(tier='quick'):
    '''DTN times (ms since 2000-01-01) whose datetime / ISO text input forms are converted:
    every millisecond of windows after the epoch, around 2^k seconds, and of the present.'''
    vals = list(range(0, 3000))
    width = 2000 if tier == 'quick' else 20000
    for k in range(10, 36):
        vals.extend(range((2 ** k) * 1000 - 50, (2 ** k) * 1000 + width))
    for base in (843480000000, 700000000000, 1073741824000 + 86400000 * 30):
        vals.extend(range(base, base + width))
    return vals


def run_times(params, known):
    '''DtnTimeField input conversion (datetime and ISO text) against integer arithmetic, and a
    whole bundle per 97th value built from the datetime form.'''
    import datetime
    _env.load_bp()
    from bp.encoding import Timestamp, Bundle
    from bp.encoding.fields import DtnTimeField
    epoch = datetime.datetime(2000, 1, 1, tzinfo=datetime.timezone.utc)
    (part, parts) = (params['part'], params['parts'])
    violations = []
    count = 0
    keys = set()

    def bad(kind, detail, val):
        if len(violations) < 5:
            v = Violation(PROP, 'codec', kind, dict(), detail).as_dict()
            v['case'] = dict(label='dtn time %d' % val, dtn_time_ms=val)
            violations.append(v)

    for (idx, val) in enumerate(time_values(params['tier'])):
        if idx % parts != part:
            continue
        count += 1
        when = epoch + datetime.timedelta(days=val // 86400000, seconds=(val % 86400000) // 1000, milliseconds=val % 1000)
        text = when.strftime('%Y-%m-%dT%H:%M:%S') + '.%03d' % (val % 1000)
        try:
            got_dt = Timestamp(dtntime=when, seqno=1).getfieldval('dtntime')
            got_tx = Timestamp(dtntime=text, seqno=1).getfieldval('dtntime')
            back = DtnTimeField.dtntime_to_datetime(val)
        except Exception as err:
            bad('time-conversion-raises', '%d (%s): %s: %s' % (val, text, type(err).__name__, err), val)
            continue
        if count % 13 == 0:
            # the same instant written in other time zones
            for (hh, mm) in ((2, 0), (-5, 0), (5, 45)):
                zone = datetime.timezone(datetime.timedelta(hours=hh, minutes=mm if hh >= 0 else -mm))
                local = when.astimezone(zone)
                try:
                    got_z = Timestamp(dtntime=local, seqno=1).getfieldval('dtntime')
                except Exception as err:
                    bad('time-conversion-raises', '%s: %s: %s' % (local.isoformat(), type(err).__name__, err), val)
                    continue
                if got_z != val:
                    bad('datetime-input-gives-other-dtn-time', '%s is DTN time %d, the field holds %r' % (local.isoformat(), val, got_z), val)
        if got_dt != val:
            bad('datetime-input-gives-other-dtn-time', '%s is DTN time %d, the field holds %r' % (when.isoformat(), val, got_dt), val)
        elif got_tx != val:
            bad('text-input-gives-other-dtn-time', '%s is DTN time %d, the field holds %r' % (text, val, got_tx), val)
        elif val != 0 and back != when:
            bad('dtn-time-to-datetime-differs', 'DTN time %d is %s, got %r' % (val, when.isoformat(), back), val)
        else:
            keys.add(repr((val.bit_length(), val % 1000 == 0)))
        if count % 97 == 0:
            b = base_bundle(0)
            b['primary']['ts'] = (val, 3)
            obj = impl_build(b)
            obj.primary.create_ts = Timestamp(dtntime=when, seqno=3)
            obj.update_all_crc()
            enc = bytes(obj)
            if enc != B.encode(b):
                bad('encoding-differs-from-independent-encoder', 'bundle created %s: %s vs %s' % (text, enc.hex()[:120], B.encode(b).hex()[:120]), val)
            elif impl_values(Bundle(enc))['primary']['ts'] != (val, 3):
                bad('decode-yields-other-values', 'bundle created %s decodes to %r' % (text, impl_values(Bundle(enc))['primary']['ts']), val)
    kn, out_v = [], []
    for v in violations:
        ent = known.match(v) if known is not None else None
        (kn if ent else out_v).append(dict(v, entry=ent) if ent else v)
    return dict(name=params['name'], evaluations=count, nontrivial_keys=sorted(keys), violations=out_v, known=kn, samples=[])


ODD_BTSD = [b'', b'\x00', b'\x18\x2a', b'\x3a\x00\x01\x00\x00', b'\x63abc', b'\x41\x00', b'\x80', b'\x81\x01', b'\x82\x01\x02',
            b'\x82\x01\x63abc', b'\x82\x63abc\x01', b'\x83\x01\x02\x03', b'\x82\x81\x01\x02', b'\x82\x01\x81\x02',
            b'\x82\x03\x82\x01\x02', b'\x82\x01\x80', b'\xa0', b'\xa1\x01\x02', b'\xf6', b'\xf5', b'\xf9\x3c\x00', b'\xc1\x01',
            b'\x9f\x01\xff', b'\xff\xfe', b'\x1c', b'\x82\x01', bytes(range(0x60, 0x70))]


def gen_odd_btsd():
    '''Extension blocks of a known type whose block-type-specific data is not what that type
    defines (it may be ciphertext under a confidentiality block, or simply foreign): any CBOR
    shape, truncated CBOR, not CBOR.  The bundle is well formed at the RFC 9171 level; the data
    must survive decoding and re-encoding octet for octet.'''
    for typ in (6, 7, 10, 11, 12):
        for (i, data) in enumerate(ODD_BTSD):
            for kind in (0, 2):
                b = base_bundle(kind)
                pay = b['blocks'][-1]
                b['blocks'] = [dict(type=typ, num=2, flags=0, crc_type=(0, 1, 2)[i % 3], data=data), pay]
                yield ('type-%d btsd=%s k%d' % (typ, data.hex(), kind), b)


def gen_other_admin_records():
    '''Administrative records of types other than the status report (no class bound to them):
    [type, content] with every kind of CBOR content, the "empty" values included.'''
    contents = [0, 1, False, True, None, {}, {1: 2}, [], [1, [2]], '', 'text', b'', b'\x00\x01', 2 ** 32, -1,
                # maps whose keys are not in the order a sorting encoder would produce (RFC 9171 does not ask for one)
                {4: 1, 1: 2, 2: 3}, {'alpha': 1, 'be': 2}, {2: {9: 0, 3: 1}}, [{-1: 0, 0: 1}]]
    for rtype in (0, 2, 3, 23, 24, 65536):
        for content in contents:
            for kind in (0, 2):
                for extra in (0, B.FLAG_NO_FRAGMENT | B.FLAG_REQ_DELETION):
                    b = base_bundle(kind)
                    b['primary']['flags'] = B.FLAG_ADMIN | extra
                    b['blocks'][-1]['data'] = C.dumps([rtype, content])
                    yield ('admin record type %d content %r k%d flags+%#x' % (rtype, content, kind, extra), b)


GENERATORS = {
    'other-admin-records': gen_other_admin_records,
    'odd-btsd': gen_odd_btsd,
    'many-blocks': gen_many_blocks,
    'field-sweeps': gen_field_sweeps,
    'flag-subsets': gen_flag_subsets,
    'product': gen_product,
    'block-lists': gen_block_lists,
    'status-reports': gen_status_reports,
}


def run_chunk(params, known):
    _env.load_bp()
    gen = GENERATORS[params['space']]
    if params['space'] == 'many-blocks':
        gen = (lambda g=gen: g(params.get('tier', 'quick')))
    (part, parts) = (params['part'], params['parts'])
    violations = []
    keys = set()
    count = 0
    samples = []
    for (idx, item) in enumerate(gen()):
        if idx % parts != part:
            continue
        count += 1
        label, bundle = item[0], item[1]
        # (in the odd-btsd space the data of known block types is deliberately not what the type defines)
        (viol, key) = check_bundle(bundle, label, check_parsed=params['space'] != 'odd-btsd')
        if viol is None and len(item) > 2:
            msg = check_report_fields(bundle, item[2])
            if msg:
                viol = Violation(PROP, 'codec', 'status-report-fields-differ', dict(), '%s: %s' % (label, msg)).as_dict()
                viol['case'] = dict(label=label, oracle_octets=B.encode(bundle).hex())
        if viol is not None:
            if len(violations) < 5:
                violations.append(viol)
        else:
            keys.add(repr(key))
            if len(samples) < 1 and count % 50 == 1:
                samples.append(dict(label=label, octets=B.encode(bundle).hex()))
    kn = []
    out_v = []
    for v in violations:
        ent = known.match(v) if known is not None else None
        (kn if ent else out_v).append(dict(v, entry=ent) if ent else v)
    return dict(name=params['name'], evaluations=count, nontrivial_keys=sorted(keys), violations=out_v, known=kn, samples=samples)


def scenarios(tier):
    out = []
    plan = [('field-sweeps', 4), ('flag-subsets', 2), ('product', 8), ('status-reports', 4),
            ('block-lists', 8), ('many-blocks', 2 if tier == 'quick' else 8), ('odd-btsd', 1), ('other-admin-records', 1)]
    for (space, parts) in plan:
        for part in range(parts):
            name = '%s-%d/%d' % (space, part + 1, parts)
            out.append(dict(name=name, kind='enum', runner='run_chunk',
                            params=dict(name=name, space=space, part=part, parts=parts, tier=tier), weight=10))
    parts = 4 if tier == 'quick' else 16
    for part in range(parts):
        name = 'time-inputs-%d/%d' % (part + 1, parts)
        out.append(dict(name=name, kind='enum', runner='run_times',
                        params=dict(name=name, part=part, parts=parts, tier=tier), weight=10))
    return out


ASSUMPTIONS = [
    'unsigned fields take the values at every CBOR head-width boundary (0,1,23,24,255,256,65535,65536,2^32-1,2^32,2^64-1); values strictly in between are not enumerated',
    'extension-block lists of up to three blocks from a menu of nine (previous node, age, hop count, BIB, BCB, unknown types)',
    'administrative records of six types without a bound class x 15 contents (empty / falsy values included) x extra bundle flags',
    'known-type extension blocks (previous node, age, hop count, BIB, BCB) carrying 27 kinds of foreign block-type-specific data (other CBOR shapes, truncated CBOR, not CBOR)',
    'bundles with n extension blocks for every n up to 40 and around 24 / 256 top-level items (thorough: every n up to 300)',
    'DTN time input forms (datetime, ISO text): every millisecond of windows after the epoch, around 2^k seconds for k = 10..35 and at three later dates (2000 ms wide, thorough 20000 ms), against integer arithmetic; every 13th instant also as an aware datetime of three other time zones',
    'the independent codec (vmc/oracle/bpv7.py, cbor_min.py, crc.py) is the reference for RFC 9171 / RFC 8949',
]

RULE = ('finite product of boundary field domains enumerated completely; a point is non-trivial/distinct by its '
        '(encoded length, fragment/admin flags, CRC types, block count) signature; every point checked three ways '
        'against the independent codec')


def evidence(tier, seed, scens, results, wall_s):
    return enum_evidence(PROP, 'exploration', tier, seed, scens, results, wall_s, ASSUMPTIONS, RULE)


def replay_case(body, verbose=False):
    from bp.encoding import Bundle
    case = body['case']
    print('case %s' % case.get('label'))
    for key in ('impl_octets', 'oracle_octets'):
        if case.get(key):
            data = bytes.fromhex(case[key])
            print(' %s: %s' % (key, case[key]))
            try:
                print('   independent decoder: %r' % (B.strip(B.decode(data)),))
            except Exception as err:
                print('   independent decoder: %s' % err)
            try:
                print('   implementation re-encodes to: %s' % bytes(Bundle(data)).hex())
            except Exception as err:
                print('   implementation: %s: %s' % (type(err).__name__, err))
    print('recorded: %s: %s' % (body['violation']['kind'], body['violation']['detail'][:500]))
    return 1
