'''C01 - TCPCL delivers every queued bundle exactly once, intact and in order.

Two real endpoints, all interleavings of their event-loop callbacks and of the
user's send calls, environment deviations (short read / short write / EAGAIN)
bounded and iterated.  Oracle: ghost list of what each user queued against what
the receiver's D-Bus interface hands out (DeliveryMonitor).'''
from ..tcpcl_world import TcpclWorld
from ..monitors import EscapeMonitor, DeliveryMonitor, WireMonitor
from ..evidence import graph_evidence

PROP = 'C01'
DEVS = ('recv=one', 'send=one', 'send=allbut1', 'send=eagain')


def build(params):
    world = TcpclWorld(params)
    world.monitors = [EscapeMonitor(PROP), DeliveryMonitor(PROP)]
    return world


def _scen(name, scripts, dev_bound=0, weight=1, **over):
    params = dict(scripts=scripts, devs=DEVS if dev_bound else ())
    params.update(over)
    return dict(name=name, kind='graph', params=params, dev_bound=dev_bound, weight=weight,
                max_states=over.pop('max_states', 400000) if 'max_states' in over else 400000)


def hexn(n, start=0xa0):
    return bytes((start + i) & 0xFF for i in range(n)).hex()


def scenarios(tier):
    out = []
    s6 = ('send', hexn(6))
    s5 = ('send', hexn(5))
    s1 = ('send', hexn(1, 0xb0))
    s1b = ('send', hexn(1, 0xb8))
    s3 = ('send', hexn(3, 0xc0))
    thorough = tier == 'thorough'

    def shape(length, seg, dev):
        return _scen('shape-len%d-seg%d-d%d' % (length, seg, dev), {'A': [('send', hexn(length))], 'B': []},
                     dev_bound=dev, seg_mru={'A': seg, 'B': seg}, tx_init={'A': seg, 'B': seg}, weight=(length + 1) * (1 + 2 * dev))
    # shape sweep: every length class against two segment sizes, user queues at any time
    for length in (0, 1, 4, 5, 8):
        out.append(shape(length, 4, 1))
    for length in (0, 1, 2):
        out.append(shape(length, 1, 1))
    out.append(shape(3, 1, 0))
    out.append(shape(9, 4, 0))
    # two bundles one way (pipelining, ids, order)
    out.append(_scen('W1-A5+A1', {'A': [s5, s1], 'B': []}, dev_bound=0, weight=12))
    out.append(_scen('W1-A1+A1', {'A': [s1, s1b], 'B': []}, dev_bound=0, weight=20))
    # both directions at once
    out.append(_scen('W2-A5|B1', {'A': [s5], 'B': [s1]}, dev_bound=0, weight=40))
    # initial size above the peer MRU must be clamped
    out.append(_scen('clamp-A6-d1', {'A': [s6], 'B': []}, dev_bound=1, tx_init={'A': 64, 'B': 64}, weight=10))
    # small stream chunks: every message straddles several writes without any deviation
    out.append(_scen('chunk5-A3', {'A': [s3], 'B': []}, dev_bound=0, chunk=5, weight=40))
    if thorough:
        out.append(shape(3, 1, 1))
        out.append(_scen('W1-A1+A1-d1', {'A': [s1, s1b], 'B': []}, dev_bound=1, weight=40))
        out.append(shape(4, 1, 1))
        out.append(shape(9, 4, 1))
        out.append(shape(5, 4, 2))
        out.append(_scen('W1-A6+A1-d1', {'A': [s6, s1], 'B': []}, dev_bound=1, weight=60))
        out.append(_scen('W2-A6|B3-d0', {'A': [s6], 'B': [s3]}, dev_bound=0, weight=40))
        out.append(_scen('W2-A5|B1-d1', {'A': [s5], 'B': [s1]}, dev_bound=1, weight=100))
        out.append(_scen('W3-A5+A1|B1', {'A': [s5, s1], 'B': [s1b]}, dev_bound=0, weight=100))
        out.append(_scen('chunk5-A3|B1', {'A': [s3], 'B': [s1]}, dev_bound=0, chunk=5, weight=100))
        out.append(_scen('seg1-A2|B2', {'A': [('send', hexn(2))], 'B': [('send', hexn(2, 0xd0))]}, dev_bound=0,
                         seg_mru={'A': 1, 'B': 1}, tx_init={'A': 1, 'B': 1}, weight=80))
    return out


ASSUMPTIONS = [
    'TCP modelled as a reliable FIFO byte pipe with short reads/writes and EAGAIN; no resets',
    'each event-loop callback is one atomic transition (it performs at most one socket call)',
    'GLib dispatch order as probed from PyGObject 3.42 (io/timeout before idle, attach order)',
    'bundles of at most 9 octets, at most two per direction, segment sizes 1, 4 and clamped 64->4',
]

RULE = ('explicit-state BFS over canonical world states of two real ContactHandler objects; every '
        'interleaving of callbacks and user calls; deviations (recv 1 octet, send 1 octet, send all-but-1, '
        'EAGAIN) bounded per path; invariant checked on every transition, delivery completeness on every '
        'bottom SCC')


def evidence(tier, seed, scens, results, wall_s):
    return graph_evidence(PROP, tier, seed, scens, results, wall_s, ASSUMPTIONS, RULE)
