'''C01 - TCPCL delivers every queued bundle exactly once, intact and in order.

Two real endpoints, all interleavings of their event-loop callbacks and of the
user's send calls, environment deviations (short read / short write / EAGAIN)
bounded and iterated.  Oracle: ghost list of what each user queued against what
the receiver's D-Bus interface hands out (DeliveryMonitor).'''
from ..tcpcl_world import TcpclWorld
from ..monitors import EscapeMonitor, DeliveryMonitor, WireMonitor
from ..evidence import graph_evidence

PROP = 'C01'
DEVS = ('recv=one', 'recv=eagain', 'send=one', 'send=allbut1', 'send=eagain')


def build(params):
    world = TcpclWorld(params)
    world.monitors = [EscapeMonitor(PROP), DeliveryMonitor(PROP)]
    return world


from ..world import Monitor


class _Signals(Monitor):
    '''Collects the transfer signals of both sides in emission order.'''
    name = 'signals'

    def __init__(self):
        self.recv_finished = {'A': [], 'B': []}
        self.send_finished = {'A': [], 'B': []}

    def on_bus(self, world, proc, rec):
        if rec[0] == 'signal':
            if rec[3] == 'recv_bundle_finished':
                self.recv_finished[proc.name].append(str(rec[4][0]))
            elif rec[3] == 'send_bundle_finished':
                self.send_finished[proc.name].append(str(rec[4][0]))
        return ()


def run_many(params, known):
    '''Order beyond the small graphs: N = 1..12 bundles queued one way on one session and not
    popped until the end (two-digit transfer ids appear).  Under a fixed fair schedule the
    receive queue listing is read after every step: it must always be the ids in arrival order,
    the send queue listing the unfinished ids in the order queued; finally popping in listed
    order must hand out the bundles in the order sent.'''
    from ..tcpcl_world import PATH, IFACE
    from ..world import Violation
    violations = []
    count = 0
    for (seg, n, lumpy, pop_order) in [(sg, nn, False, po) for sg in (4, 1) for nn in range(1, 13) for po in ('listed', 'reversed', 'middle-first')
                                       if po == 'listed' or nn > 1] + [(1, 1, True, 'listed'), (1, 2, True, 'listed')]:
        if True:
            count += 1
            datas = [hexn(1 + (k % 3), 0x10 * (k + 1)) for k in range(n)]
            if lumpy:
                # one-octet segments of 70- and 140-octet bundles under a schedule that lets each side
                # run until it blocks: more than 64 messages wait in one receive buffer
                datas = [hexn(70 * (k + 1), 0x10 * (k + 1)) for k in range(n)]
            prm = dict(scripts={'A': [('send', d) for d in datas], 'B': []}, auto_pop=False,
                       seg_mru={'A': seg, 'B': seg}, tx_init={'A': seg, 'B': seg})
            w = TcpclWorld(prm)
            sig = _Signals()
            esc = EscapeMonitor(PROP)
            w.monitors = [sig, esc]
            case = dict(bundles=n, segment_size=seg, lumpy=bool(lumpy), popped=pop_order)
            found = None
            queued = []
            steps = 0
            turn = 0
            while steps < 20000 and found is None:
                steps += 1
                evs = w.enabled_events()
                user = [e for e in evs if e[0] == 'user']
                runs = [e for e in evs if e[0] == 'run']
                if user and w.handler('A').get_session_state() == 'established':
                    (vs, _e) = w.apply(user[0])
                    res = w.results['A'][-1] if w.results['A'] else None
                    queued.append(str(len(queued) + 1))
                elif runs and lumpy:
                    same = [e for e in runs if e[1] == lumpy]
                    pick = same[0] if same else runs[0]
                    lumpy = pick[1]
                    (vs, _e) = w.apply(pick)
                elif runs:
                    turn += 1
                    pick = runs[turn % len(runs)]
                    (vs, _e) = w.apply(pick)
                else:
                    break
                if vs:
                    found = 'escaped exception: %s' % (vs[0].detail[:300],)
                    break
                rq = w.bus_call(w.procs['B'], PATH, 'recv_bundle_get_queue', iface=IFACE)
                sq = w.bus_call(w.procs['A'], PATH, 'send_bundle_get_queue', iface=IFACE)
                if rq[0] == 'ok' and [str(x) for x in rq[1]] != sig.recv_finished['B']:
                    found = 'receive queue lists %r, bundles arrived in the order %r' % ([str(x) for x in rq[1]], sig.recv_finished['B'])
                want_sq = [q for q in queued if q not in sig.send_finished['A']]
                if sq[0] == 'ok' and [str(x) for x in sq[1]] != want_sq:
                    found = 'send queue lists %r, queued and unfinished are %r' % ([str(x) for x in sq[1]], want_sq)
            if found is None:
                rq = w.bus_call(w.procs['B'], PATH, 'recv_bundle_get_queue', iface=IFACE)
                listed = [str(x) for x in (rq[1] if rq[0] == 'ok' else [])]
                # the user may take the waiting bundles in any order: each id hands out the bundle announced under it
                order = list(listed)
                if pop_order == 'reversed':
                    order.reverse()
                elif pop_order == 'middle-first':
                    order = order[len(order) // 2:] + order[:len(order) // 2]
                got = {}
                for bid in order:
                    res = w.bus_call(w.procs['B'], PATH, 'recv_bundle_pop_data', bid, iface=IFACE)
                    got[bid] = bytes(res[1]).hex() if res[0] == 'ok' else repr(res)
                if [got.get(b) for b in listed] != datas:
                    found = 'popping %s yields %r for the ids %r, sent %r' % (pop_order, [got.get(b) for b in listed], listed, datas)
            if found and len(violations) < 4:
                v = Violation(PROP, 'delivery', 'queue-order-differs-from-arrival-order', dict(), '%r: %s' % (case, found)).as_dict()
                v['case'] = case
                violations.append(v)
    return dict(name=params['name'], evaluations=count, nontrivial_keys=[], violations=violations, known=[], samples=[])


def run_narrow_path(params, known):
    """Back-pressure: each direction of the connection holds at most `pipe` octets in flight, so every write is
    short and the socket is not writable again until the peer has read.  Bundles one way and both ways at once
    (up to 300 octets against pipes of 1 ... 64 octets and read chunks of 9 and 10240 octets), under four
    schedules (round robin starting with either side; either side running four callbacks for each one of the other).  Everything queued is
    delivered intact and reported successful; nobody is left waiting for the other."""
    import itertools
    from ..tcpcl_world import PATH, IFACE
    from ..world import Violation
    prop = params.get('prop', PROP)
    violations = []
    kinds = set()
    keys = set()
    count = 0

    def viol(kind, detail, case):
        if kind in kinds:
            return
        kinds.add(kind)
        v = Violation(prop, 'delivery', kind, dict(), '%r: %s' % (case, detail)).as_dict()
        v['case'] = case
        violations.append(v)
    loads = {'A5': ([5], []), 'A5|B5': ([5], [5]), 'A40|B40': ([40], [40]), 'A300|B300': ([300], [300]), 'A9+A1|B30': ([9, 1], [30])}
    for (lname, pipe, chunk, seg, policy) in itertools.product(sorted(loads), (1, 2, 3, 7, 16, 64), (9, 10240), (4, 64),
                                                               ('rr-A', 'rr-B', 'burst-A', 'burst-B')):
        (la, lb) = loads[lname]
        if max(la + lb) >= 300 and (seg == 4 or pipe < 3):
            continue
        count += 1
        case = dict(load=lname, pipe=pipe, read_chunk=chunk, segment_size=seg, schedule=policy)
        da = [hexn(n, 0x10 * (k + 1)) for (k, n) in enumerate(la)]
        db = [hexn(n, 0x90 + 0x10 * k) for (k, n) in enumerate(lb)]
        w = TcpclWorld(dict(scripts={'A': [('send', d) for d in da], 'B': [('send', d) for d in db]}, auto_pop=False, pipe=pipe, chunk=chunk,
                            seg_mru={'A': seg, 'B': seg}, tx_init={'A': seg, 'B': seg}))
        sig = _Signals()
        esc = EscapeMonitor(prop)
        w.monitors = [sig, esc]
        order = ['A', 'B'] if policy.endswith('A') else ['B', 'A']
        favoured = order[0]
        burst = 0
        steps = 0
        found = None
        while steps < 60000:
            steps += 1
            evs = w.enabled_events()
            user = [e for e in evs if e[0] == 'user']
            runs = {e[1]: e for e in evs if e[0] == 'run'}
            pick = None
            for e in user:
                if w.handler(e[1]).get_session_state() == 'established':
                    pick = e
                    break
            if pick is None:
                for name in order:
                    if name in runs:
                        pick = runs[name]
                        # round robin; 'burst': the favoured side runs up to four callbacks for each one of the other
                        # (a strict priority would starve the other side as soon as a callback polls)
                        burst = burst + 1 if name == favoured else 0
                        if policy.startswith('rr') or name != favoured or burst >= 4:
                            order = [n for n in order if n != name] + [name]
                            burst = 0
                        break
            if pick is None:
                break
            (vs, _e) = w.apply(pick)
            if vs:
                found = ('escaped-exception', vs[0].detail[:300])
                break
        else:
            found = ('run-does-not-end', 'still busy after %d steps' % steps)
        keys.add('%s/%d/%d/%d/%s' % (lname, pipe, chunk, seg, policy))
        if found:
            viol(found[0], found[1], case)
            continue
        for (side, peer, datas) in (('A', 'B', da), ('B', 'A', db)):
            rq = w.bus_call(w.procs[peer], PATH, 'recv_bundle_get_queue', iface=IFACE)
            got = []
            for bid in (rq[1] if rq[0] == 'ok' else []):
                res = w.bus_call(w.procs[peer], PATH, 'recv_bundle_pop_data', str(bid), iface=IFACE)
                got.append(bytes(res[1]).hex() if res[0] == 'ok' else repr(res))
            if got != datas:
                viol('queued-bundle-never-delivered', 'sent by %s: %r octets each, the peer holds %r (states %s / %s)'
                     % (side, [len(d) // 2 for d in datas], [len(g) // 2 for g in got],
                        w.handler('A').get_session_state(), w.handler('B').get_session_state()), case)
            elif len(sig.send_finished[side]) != len(datas):
                viol('success-signals-incomplete', '%s was told of %r' % (side, sig.send_finished[side]), case)
    return dict(name=params['name'], evaluations=count, nontrivial_keys=sorted(keys), violations=violations, known=[], samples=[])


def _scen(name, scripts, dev_bound=0, weight=1, **over):
    params = dict(scripts=scripts, devs=DEVS if dev_bound else ())
    params.update(over)
    return dict(name=name, kind='graph', params=params, dev_bound=dev_bound, weight=weight,
                max_states=over.pop('max_states', 400000) if 'max_states' in over else 400000)


def hexn(n, start=0xa0):
    return bytes((start + i) & 0xFF for i in range(n)).hex()


def run_file_api(params, known):
    from .c18 import run_file_api as run
    return run(params, known)


def scenarios(tier):
    out = []
    s6 = ('send', hexn(6))
    s5 = ('send', hexn(5))
    s1 = ('send', hexn(1, 0xb0))
    s1b = ('send', hexn(1, 0xb8))
    s3 = ('send', hexn(3, 0xc0))
    thorough = tier == 'thorough'

    def shape(length, seg, dev):
        return _scen('shape-len%d-seg%d-d%d' % (length, seg, dev), {'A': [('send', hexn(length))], 'B': []},
                     dev_bound=dev, seg_mru={'A': seg, 'B': seg}, tx_init={'A': seg, 'B': seg}, weight=(length + 1) * (1 + 2 * dev))
    # shape sweep: every length class against two segment sizes, user queues at any time
    for length in (0, 1, 4, 5, 8):
        out.append(shape(length, 4, 1))
    for length in (0, 1, 2):
        out.append(shape(length, 1, 1))
    out.append(shape(3, 1, 0))
    out.append(shape(9, 4, 0))
    # two bundles one way (pipelining, ids, order)
    out.append(_scen('W1-A5+A1', {'A': [s5, s1], 'B': []}, dev_bound=0, weight=12))
    out.append(_scen('W1-A1+A1', {'A': [s1, s1b], 'B': []}, dev_bound=0, weight=20))
    out.append(_scen('W1-A1+A5', {'A': [s1, s5], 'B': []}, dev_bound=0, weight=20))
    # both directions at once
    out.append(_scen('W2-A5|B1', {'A': [s5], 'B': [s1]}, dev_bound=0, weight=40))
    # initial size above the peer MRU must be clamped
    out.append(_scen('clamp-A6-d1', {'A': [s6], 'B': []}, dev_bound=1, tx_init={'A': 64, 'B': 64}, weight=10))
    # small stream chunks: every message straddles several writes without any deviation
    out.append(_scen('chunk5-A3', {'A': [s3], 'B': []}, dev_bound=0, chunk=5, weight=40))
    # the same with traffic both ways: acknowledgements are generated while a segment is half written
    out.append(_scen('chunk9-A1|B1', {'A': [s1], 'B': [s1b]}, dev_bound=0, chunk=9, weight=60))
    # a narrow path: each direction holds only a few octets in flight, every write is short and blocks until the peer has read
    out.append(dict(name='narrow-path', kind='enum', runner='run_narrow_path', params=dict(name='narrow-path'), weight=30))
    out.append(dict(name='many-transfers', kind='enum', runner='run_many', params=dict(name='many-transfers'), weight=30))
    # delivery into a file (recv_bundle_pop_file) and sending from one: the octets are the bundle's, nothing else
    out.append(dict(name='file-api', kind='enum', runner='run_file_api', params=dict(name='file-api', prop=PROP), weight=5))
    if thorough:
        out.append(shape(3, 1, 1))
        out.append(_scen('W1-A1+A1-d1', {'A': [s1, s1b], 'B': []}, dev_bound=1, weight=40))
        out.append(shape(4, 1, 1))
        out.append(shape(9, 4, 1))
        out.append(shape(5, 4, 2))
        out.append(_scen('W1-A6+A1-d1', {'A': [s6, s1], 'B': []}, dev_bound=1, weight=60))
        out.append(_scen('W2-A6|B3-d0', {'A': [s6], 'B': [s3]}, dev_bound=0, weight=40))
        out.append(_scen('W2-A5|B1-d1', {'A': [s5], 'B': [s1]}, dev_bound=1, weight=100))
        out.append(_scen('W3-A5+A1|B1', {'A': [s5, s1], 'B': [s1b]}, dev_bound=0, weight=100))
        out.append(_scen('chunk5-A3|B1', {'A': [s3], 'B': [s1]}, dev_bound=0, chunk=5, weight=100))
        out.append(_scen('seg1-A2|B2', {'A': [('send', hexn(2))], 'B': [('send', hexn(2, 0xd0))]}, dev_bound=0,
                         seg_mru={'A': 1, 'B': 1}, tx_init={'A': 1, 'B': 1}, weight=80))
    return out


ASSUMPTIONS = [
    'TCP modelled as a reliable FIFO byte pipe with short reads/writes and EAGAIN; no resets',
    'each event-loop callback is one atomic transition (it performs at most one socket call)',
    'GLib dispatch order as probed from PyGObject 3.42 (io/timeout before idle, attach order)',
    'bundles of at most 9 octets, at most two per direction, segment sizes 1, 4 and clamped 64->4 (state graphs); 1..12 unpopped bundles one way under one fair schedule with the queue listings read after every step (enumeration many-transfers)',
]

RULE = ('explicit-state BFS over canonical world states of two real ContactHandler objects; every '
        'interleaving of callbacks and user calls; deviations (recv 1 octet, send 1 octet, send all-but-1, '
        'EAGAIN) bounded per path; invariant checked on every transition, delivery completeness on every '
        'bottom SCC')


def evidence(tier, seed, scens, results, wall_s):
    graphs = [r for r in results if r and r.get('kind') == 'graph']
    enums = [r for r in results if r and r.get('kind') == 'enum']
    ev = graph_evidence(PROP, tier, seed, [sc for sc in scens if sc['kind'] == 'graph'], graphs, wall_s, ASSUMPTIONS, RULE)
    cov = ev['coverage']
    cov['evaluations'] = sum(r.get('evaluations', 0) for r in enums)
    cov['exhaustive'] = cov['exhaustive'] and len([r for r in results if r and r.get('kind') != 'error']) == len(results)
    return ev
