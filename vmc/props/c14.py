'''C14 - TCPCL negotiates parameters correctly and keeps its timers.

Timed state graphs of two real endpoints under a virtual clock (time advances
to the next timer deadline only when no process can run), over pairs of
keepalive values, idle times and MRUs; an endpoint that is terminating against
a silent peer; adaptive segment sizing under every assignment of slow/fast
acknowledgement delays.'''
import itertools

from ..tcpcl_world import TcpclWorld
from ..peer_world import PeerWorld, PATH as RPATH, IFACE as RIFACE
from ..monitors import EscapeMonitor, WireMonitor, NegotiationMonitor, TimerMonitor, DeliveryMonitor
from ..world import Violation
from ..oracle import tcpclv4 as T
from ..evidence import graph_evidence
from .c01 import hexn

PROP = 'C14'


def build(params):
    world = TcpclWorld(params)
    world.monitors = [NegotiationMonitor(PROP), TimerMonitor(PROP), WireMonitor(PROP), EscapeMonitor(PROP),
                      DeliveryMonitor(PROP, expect_all=False)]
    return world


def _scen(name, weight=1, **over):
    params = dict(scripts={'A': [], 'B': []}, devs=(), max_ticks=6)
    params.update(over)
    return dict(name=name, kind='graph', params=params, dev_bound=0, weight=weight, max_states=300000,
                liveness=False)


def scenarios(tier):
    out = []
    kas = (0, 1, 2, 5)
    idles = (0, 3, 7)
    thorough = tier == 'thorough'
    for (ka, kb) in itertools.product(kas, kas):
        for (k, (ia, ib)) in enumerate(itertools.product(idles, idles)):
            if not thorough and (ka * 7 + kb * 3 + k) % 3 != 0 and not (ia == ib):
                continue
            out.append(_scen('ka%d-kb%d-ia%d-ib%d' % (ka, kb, ia, ib),
                             keepalive={'A': ka, 'B': kb}, idle={'A': ia, 'B': ib}))
    # a transfer interleaved with the timers; MRU / initial size combinations
    for (mru, init) in ((4, 4), (2, 64), (64, 3)):
        out.append(_scen('xfer-mru%d-init%d' % (mru, init), weight=20,
                         scripts={'A': [('send', hexn(5))], 'B': []}, keepalive={'A': 2, 'B': 1}, idle={'A': 0, 'B': 5},
                         seg_mru={'A': mru, 'B': mru}, tx_init={'A': init, 'B': init}, max_ticks=4))
    out.append(dict(name='silent-peer', kind='enum', runner='run_silent_peer', params=dict(thorough=thorough), weight=5))
    # the peer does not fall silent but vanishes (connection reset), with and without idle timer, at every stage
    out.append(dict(name='peer-reset', kind='enum', runner='run_peer_reset', params=dict(name='peer-reset', prop=PROP), weight=5))
    out.append(dict(name='adaptive', kind='enum', runner='run_adaptive', params=dict(thorough=thorough), weight=50))
    out.append(dict(name='partial-reads', kind='enum', runner='run_partial_reads', params=dict(), weight=10))
    out.append(dict(name='keepalive-busy', kind='enum', runner='run_keepalive_busy', params=dict(), weight=10))
    out.append(dict(name='adaptive-second-init', kind='enum', runner='run_adaptive_second_init', params=dict(), weight=30))
    out.append(dict(name='reported-limits', kind='enum', runner='run_reported_limits', params=dict(), weight=10))
    out.append(dict(name='file-timers', kind='enum', runner='run_file_timers', params=dict(), weight=10))
    out.append(dict(name='slow-negotiation', kind='enum', runner='run_slow_negotiation', params=dict(), weight=10))
    return out


def run_peer_reset(params, known):
    from .c09 import run_peer_reset as run
    res = run(params, known)
    res['kind'] = 'enum'
    return res


def run_silent_peer(params, known):
    '''An endpoint that is already terminating and hears nothing further must
    still end by closing (every idle time x every moment of termination).'''
    violations = []
    count = 0
    for role in ('passive', 'active'):
        for idle in (1, 3):
            for keepalive in (0, 1, 5):
                for when in ('at-once', 'after-tick', 'own-transfer-unacknowledged', 'inbound-transfer-half-received',
                             'own-transfer-unacknowledged+peer-replies', 'inbound-transfer-half-received+peer-replies',
                             'own-transfer-unacknowledged+peer-replies+keepalive', 'inbound-transfer-half-received+peer-replies+keepalive',
                             'own-transfer-unacknowledged+peer-terminates-first+keepalive'):
                    count += 1
                    queued = (bytes(range(0xa0, 0xa3)).hex(),) if when.startswith('own-transfer') else ()
                    w = PeerWorld(dict(role=role, idle=idle, keepalive=keepalive, seg_mru=64, tx_init=64, queued=queued))
                    w.peer_write(T.enc_contact(0) + T.enc_sess_init(keepalive, 64, 1000, b'dtn://p/'))
                    w.quiesce()
                    if when == 'after-tick' and keepalive:
                        w.apply(('tick',))
                        w.quiesce()
                    if when.startswith('inbound-transfer'):
                        # the peer starts a transfer and never finishes it
                        w.peer_write(T.enc_segment(2, 7, b'ab', [T.ext_total_length(4)]))
                        w.quiesce()
                    if 'peer-terminates-first' in when:
                        # the peer asks first (the endpoint answers by itself), says one more thing, then nothing
                        w.peer_write(T.enc_sess_term(0, 0))
                        w.quiesce()
                        res = ('ok',)
                    else:
                        res = w.bus_call(w.proc, RPATH, 'terminate', 0, iface=RIFACE)
                        w.quiesce()
                    if '+peer-replies' in when:
                        # both SESS_TERM exchanged while a transfer can never complete; then silence
                        w.peer_write(T.enc_sess_term(1, 0))
                        w.quiesce()
                    if when.endswith('+keepalive'):
                        # one more message from the peer after its SESS_TERM (half the idle time later), then silence for ever
                        w.clock.now_us += idle * 500000
                        w.peer_write(T.enc_keepalive())
                        w.quiesce()
                    # the peer stays silent for ever; let time pass
                    for _ in range(16):
                        if w.r_closed() or w.next_deadline() is None:
                            break
                        w.apply(('tick',))
                        w.quiesce()
                    case = dict(role=role, idle=idle, keepalive=keepalive, when=when)
                    if w.escaped:
                        esc = w.escaped[-1]
                        v = Violation(PROP, 'silent-peer', 'escaped-exception', dict(exc=esc[0]),
                                      '%r: %s: %s\n%s' % (case, esc[0], esc[2], esc[3])).as_dict()
                        v['case'] = case
                        violations.append(v)
                    elif not w.r_closed():
                        v = Violation(PROP, 'silent-peer', 'terminating-endpoint-never-closes', dict(),
                                      '%r: terminate() returned %r; after %d us the socket is still open' % (case, res, w.clock.now_us)).as_dict()
                        v['case'] = case
                        violations.append(v)
    return dict(name='silent-peer', evaluations=count, violations=violations[:4], known=[],
                samples=[dict(role='passive', idle=1, keepalive=0, when='at-once')])


def run_partial_reads(params, known):
    '''"Idle" means no traffic in either direction: octets of a message that is not yet
    complete are traffic too.  A message is delivered in two reads, the second after the idle
    deadline armed by the earlier traffic; the endpoint must not start an idle termination
    before (time of the second read + idle time), and with a silent peer afterwards must
    start it exactly then.'''
    violations = []
    count = 0
    msgs = [('segment', T.enc_segment(3, 5, b'0123456789' * 3, [T.ext_total_length(30)])), ('keepalive+segment-head', None),
            ('ack-unknown', T.enc_ack(3, 9, 2))]
    for role in ('passive', 'active'):
        for idle in (2, 10):
            for (mname, octets) in msgs:
                if octets is None:
                    octets = T.enc_keepalive() + T.enc_segment(3, 5, b'xy', [T.ext_total_length(2)])
                for cut in sorted(set([1, 2, 9, len(octets) // 2, len(octets) - 1])):
                    if not 0 < cut < len(octets):
                        continue
                    for (f1, f2) in ((0.5, 1.25), (0.75, 1.5), (0.25, 1.05)):
                        count += 1
                        case = dict(role=role, idle=idle, message=mname, cut=cut, first_read_at=f1 * idle, second_read_at=f2 * idle)
                        w = PeerWorld(dict(role=role, idle=idle, keepalive=0, seg_mru=64, tx_init=64))
                        w.peer_write(T.enc_contact(0) + T.enc_sess_init(0, 64, 1000, b'dtn://p/'))
                        w.quiesce()
                        t0 = w.clock.now_us
                        parser = T.StreamParser()
                        seen = 0

                        def terms():
                            nonlocal seen
                            out = [m for m in parser.feed(w.out_octets[seen:]) if m['kind'] == 'SESS_TERM']
                            seen = len(w.out_octets)
                            return out
                        terms()
                        found = None
                        for (frac, data) in ((f1, octets[:cut]), (f2, octets[cut:])):
                            w.clock.now_us = t0 + int(frac * idle * 1e6)
                            # timers due by now fire first
                            w.quiesce()
                            if terms():
                                found = 'idle termination at or before t=%.2f s although octets of an unfinished message arrived at t=%.2f s' % (frac * idle, f1 * idle)
                                break
                            w.peer_write(data)
                            w.quiesce()
                        if found is None:
                            # peer silent from now on: termination exactly one idle time after the last read
                            t_last = t0 + int(f2 * idle * 1e6)
                            w.clock.now_us = t_last + int(idle * 1e6) - 1000
                            w.quiesce()
                            if terms():
                                found = 'idle termination before a full idle time had passed since the last read'
                            else:
                                w.clock.now_us = t_last + int(idle * 1e6) + 1000
                                w.quiesce()
                                got = terms()
                                if len(got) != 1 or got[0].get('reason') != 1:
                                    found = 'no idle-timeout SESS_TERM one idle time after the last traffic (got %r)' % (got,)
                        if w.escaped and found is None:
                            found = 'escaped %s: %s' % (w.escaped[-1][0], w.escaped[-1][2])
                        if found and len(violations) < 4:
                            v = Violation(PROP, 'partial-reads', 'idle-timer-ignores-partial-message', dict(), '%r: %s' % (case, found)).as_dict()
                            v['case'] = case
                            violations.append(v)
    return dict(name='partial-reads', evaluations=count, violations=violations, known=[], samples=[])


def run_keepalive_busy(params, known):
    '''"A KEEPALIVE is sent whenever the negotiated interval elapses with nothing else sent" -
    also while the session is not idle: the endpoint has sent a bundle and the peer holds back
    the acknowledgement for a multiple of the interval (or leaves a message half sent).  Time
    advances from timer deadline to timer deadline; no two consecutive transmissions of the
    endpoint may be further apart than the negotiated interval until the horizon.'''
    violations = []
    count = 0
    for role in ('passive', 'active'):
        for (own, peer) in ((2, 5), (5, 2), (3, 3)):
            interval = min(own, peer)
            for situation in ('ack-outstanding', 'partial-message-from-peer', 'idle'):
                for delay in (0.5, 1.5, 3.5):
                    count += 1
                    case = dict(role=role, keepalive_own=own, keepalive_peer=peer, situation=situation, ack_after_intervals=delay)
                    queued = (bytes(range(0xa0, 0xa3)).hex(),) if situation == 'ack-outstanding' else ()
                    w = PeerWorld(dict(role=role, idle=0, keepalive=own, seg_mru=64, tx_init=64, queued=queued))
                    w.peer_write(T.enc_contact(0) + T.enc_sess_init(peer, 64, 1000, b'dtn://p/'))
                    w.quiesce()
                    t0 = w.clock.now_us
                    sent_at = [t0]          # times at which R wrote anything
                    seen = len(w.out_octets)
                    if situation == 'partial-message-from-peer':
                        w.peer_write(T.enc_segment(3, 5, b'0123456789', [T.ext_total_length(10)])[:7])
                        w.quiesce()
                    t_ack = t0 + int(delay * interval * 1e6)
                    horizon = t0 + int((delay + 2.5) * interval * 1e6)
                    acked = False
                    found = None
                    guard = 0
                    while guard < 200:
                        guard += 1
                        dl = w.next_deadline()
                        nxt = horizon if dl is None else min(dl, horizon)
                        if not acked and situation == 'ack-outstanding' and t_ack <= nxt:
                            w.clock.now_us = max(w.clock.now_us, t_ack)
                            w.peer_write(T.enc_ack(3, 1, 3))
                            acked = True
                        else:
                            if nxt <= w.clock.now_us and dl is None:
                                break
                            w.clock.now_us = max(w.clock.now_us, nxt)
                        w.quiesce()
                        if len(w.out_octets) > seen:
                            seen = len(w.out_octets)
                            sent_at.append(w.clock.now_us)
                        if w.r_closed() or w.clock.now_us >= horizon:
                            break
                    gaps = [b - a for (a, b) in zip(sent_at, sent_at[1:] + [w.clock.now_us])]
                    worst = max(gaps) if gaps else 0
                    if w.escaped:
                        found = 'escaped %s: %s' % (w.escaped[-1][0], w.escaped[-1][2])
                    elif w.r_closed():
                        found = 'endpoint closed the connection'
                    elif worst > interval * 1e6 + 1000:
                        found = 'nothing transmitted for %.2f s although the negotiated keepalive interval is %d s (transmissions at %r s)' % (
                            worst / 1e6, interval, [round((t - t0) / 1e6, 2) for t in sent_at])
                    if found and len(violations) < 4:
                        v = Violation(PROP, 'keepalive', 'keepalive-missing-while-not-idle' if situation != 'idle' else 'keepalive-missing', dict(), '%r: %s' % (case, found)).as_dict()
                        v['case'] = case
                        violations.append(v)
    return dict(name='keepalive-busy', evaluations=count, violations=violations, known=[], samples=[])


def run_slow_negotiation(params, known):
    '''The peer is slow: its contact header, or its SESS_INIT, arrives only after several of the
    endpoint's configured keepalive / idle intervals.  Until the session is negotiated nothing but
    the contact header and one SESS_INIT may be written (no KEEPALIVE, no SESS_TERM timers run on
    un-negotiated values), and the session must still come up.'''
    prop = params.get('prop', PROP)
    violations = []
    count = 0
    for role in ('passive', 'active'):
        for (own_ka, own_idle) in ((0, 0), (2, 0), (5, 0), (2, 9)):
            for stall in ('before-contact-header', 'before-sess-init'):
                for wait_s in (1, 11, 45):
                    count += 1
                    case = dict(role=role, keepalive=own_ka, idle=own_idle, stall=stall, wait_s=wait_s)
                    w = PeerWorld(dict(role=role, keepalive=own_ka, idle=own_idle, seg_mru=64, tx_init=64))

                    def let_time_pass(seconds):
                        end = w.clock.now_us + int(seconds * 1e6)
                        guard = 0
                        while guard < 400:
                            guard += 1
                            dl = w.next_deadline()
                            if dl is None or dl > end:
                                break
                            w.clock.now_us = max(w.clock.now_us, dl)
                            w.quiesce()
                        w.clock.now_us = end
                        w.quiesce()
                    if stall == 'before-contact-header':
                        let_time_pass(wait_s)
                        w.peer_write(T.enc_contact(0))
                        w.quiesce()
                    else:
                        w.peer_write(T.enc_contact(0))
                        w.quiesce()
                        let_time_pass(wait_s)
                    w.peer_write(T.enc_sess_init(7, 64, 1000, b'dtn://p/'))
                    w.quiesce()
                    (msgs, _rest) = T.parse_all(w.out_octets, with_contact=True)
                    kinds = [m['kind'] for m in msgs]
                    found = None
                    if w.escaped:
                        found = 'escaped %s: %s' % (w.escaped[-1][0], w.escaped[-1][2])
                    elif own_idle == 0 and kinds[:2] != ['CONTACT', 'SESS_INIT']:
                        found = 'the endpoint wrote %r: the octets written are a contact header, then a SESS_INIT, then only messages' % (kinds,)
                    elif own_idle == 0 and ('session_state_changed', 'established') not in w.signals:
                        found = 'session not established after the late peer caught up (wrote %r)' % (kinds,)
                    elif own_idle and kinds and (kinds[0] != 'CONTACT' or any(k not in ('CONTACT', 'SESS_INIT', 'SESS_TERM') for k in kinds[:2])):
                        found = 'the endpoint wrote %r before the session was negotiated' % (kinds,)
                    if found and len(violations) < 4:
                        v = Violation(prop, 'wire', 'message-before-sess-init', dict(), '%r: %s' % (case, found)).as_dict()
                        v['case'] = case
                        violations.append(v)
    return dict(name=params.get('name', 'slow-negotiation'), evaluations=count, violations=violations, known=[], samples=[])


def run_file_timers(params, known):
    '''Keepalive and idle time as the daemon gets them - from the configuration file over the
    defaults: keepalive_time absent / 0 / 5 / 30, idle_time absent / 0 / 7 / null (null = twice the
    keepalive time, as the loader documents), against a peer announcing keepalive 0 or 3 that then
    stays silent for 100 s; with and without a terminate() call refused before the session exists.  The loaded values are what the file says; an endpoint without idle time
    never starts an idle termination; with an idle time and no keepalive traffic it starts it then.'''
    import json
    violations = []
    kinds = set()
    count = 0
    ABSENT = object()

    def viol(kind, detail, case):
        if kind in kinds:
            return
        kinds.add(kind)
        v = Violation(PROP, 'timers', kind, dict(), '%r: %s' % (case, detail)).as_dict()
        v['case'] = case
        violations.append(v)
    for role in ('passive', 'active'):
        for own_ka in (ABSENT, 0, 5, 30):
            for own_idle in (ABSENT, 0, 7, None):
                for (peer_ka, early_term) in ((0, False), (3, False), (0, True), (3, True)):
                    count += 1
                    content = {}
                    if own_ka is not ABSENT:
                        content['keepalive_time'] = own_ka
                    if own_idle is not ABSENT:
                        content['idle_time'] = own_idle
                    text = json.dumps({'tcpcl': content})
                    case = dict(role=role, file=text, peer_keepalive=peer_ka, terminate_refused_before_the_session=early_term)
                    w = PeerWorld(dict(role=role, keepalive=0, idle=0, seg_mru=64, tx_init=64, config_text=text))
                    if early_term:
                        # the user asks for termination while there is no session yet: refused, and without consequence
                        res = w.bus_call(w.proc, RPATH, 'terminate', 0, iface=RIFACE)
                        w.quiesce()
                        if res[0] == 'ok':
                            viol('terminate-accepted-without-a-session', repr(res), case)
                    eff_ka = 0 if own_ka is ABSENT else own_ka
                    eff_idle = 0 if own_idle is ABSENT else (2 * eff_ka if own_idle is None else own_idle)
                    if (w.cfg.keepalive_time, w.cfg.idle_time) != (eff_ka, eff_idle):
                        viol('setting-differs-from-file', 'loaded keepalive_time %r idle_time %r, the file gives %r and %r'
                             % (w.cfg.keepalive_time, w.cfg.idle_time, eff_ka, eff_idle), case)
                        continue
                    w.peer_write(T.enc_contact(0) + T.enc_sess_init(peer_ka, 64, 1000, b'dtn://p/'))
                    w.quiesce()
                    t0 = w.clock.now_us
                    end = t0 + 100 * 10 ** 6
                    term_at = None
                    guard = 0
                    while guard < 2000:
                        guard += 1
                        dl = w.next_deadline()
                        if dl is None or dl > end or w.r_closed():
                            break
                        w.clock.now_us = max(w.clock.now_us, dl)
                        w.quiesce()
                        if term_at is None and 'ending' in [sg[1] for sg in w.signals if sg[0] == 'session_state_changed']:
                            term_at = w.clock.now_us - t0
                    (msgs, _rest) = T.parse_all(w.out_octets, with_contact=True)
                    terms = [m for m in msgs if m['kind'] == 'SESS_TERM']
                    neg_ka = min(eff_ka, peer_ka) if eff_ka and peer_ka else 0
                    if w.escaped:
                        viol('escaped-exception', '%s: %s' % (w.escaped[-1][0], w.escaped[-1][2]), case)
                    elif eff_idle == 0:
                        if terms or w.r_closed():
                            viol('idle-termination-without-idle-time', 'no idle time is configured; after %.1f s of silence the endpoint wrote %r'
                                 % ((term_at or 0) / 1e6, [(m['kind'], m.get('reason')) for m in terms]), case)
                    elif neg_ka == 0:
                        if not terms or terms[0].get('reason') != 1 or term_at is None or abs(term_at - eff_idle * 10 ** 6) > 50000:
                            viol('idle-termination-not-at-the-configured-time', 'idle time %d s, no keepalive: SESS_TERM %r decided after %r us'
                                 % (eff_idle, [(m['kind'], m.get('reason')) for m in terms], term_at), case)
    return dict(name='file-timers', evaluations=count, violations=violations, known=[], samples=[])


def run_reported_limits(params, known):
    '''get_session_parameters() against a peer announcing boundary values: keepalive 0..65535,
    segment and transfer MRU at every head-width / sign boundary up to 2**64-1.  The report is a
    D-Bus variant holding a signed 32-bit integer, so a limit is reported as announced or, above
    2**31-1, saturated to 2**31-1 - never as some other number.'''
    violations = []
    count = 0
    big = [1, 23, 24, 255, 256, 65535, 65536, 2 ** 31 - 1, 2 ** 31, 2 ** 31 + 1000, 2 ** 32 - 1, 2 ** 32, 2 ** 32 + 5, 2 ** 63, 2 ** 64 - 2, 2 ** 64 - 1]
    for role in ('passive', 'active'):
        for (seg, xfer) in [(v, 2 ** 64 - 1) for v in big] + [(64, v) for v in big] + [(v, v) for v in (2 ** 31, 2 ** 32)]:
            for (own_ka, peer_ka) in ((0, 0), (7, 65535), (65535, 3)):
                count += 1
                case = dict(role=role, segment_mru=seg, transfer_mru=xfer, keepalive_own=own_ka, keepalive_peer=peer_ka)
                w = PeerWorld(dict(role=role, keepalive=own_ka, seg_mru=64, tx_init=64))
                w.peer_write(T.enc_contact(0) + T.enc_sess_init(peer_ka, seg, xfer, b'dtn://p/'))
                w.quiesce()
                prm = w.bus_call(w.proc, RPATH, 'get_session_parameters', iface=RIFACE)
                found = None
                if w.escaped:
                    found = 'escaped %s: %s' % (w.escaped[-1][0], w.escaped[-1][2])
                elif prm[0] != 'ok':
                    found = 'get_session_parameters failed: %r' % (prm,)
                else:
                    got = prm[1]
                    for (key, announced) in (('peer_segment_mru', seg), ('peer_transfer_mru', xfer)):
                        if key in got and int(got[key]) not in (announced, min(announced, 2 ** 31 - 1)):
                            found = '%s reported as %d, the peer announced %d' % (key, int(got[key]), announced)
                    want_ka = min(own_ka, peer_ka)
                    if 'keepalive' in got and int(got['keepalive']) != want_ka:
                        found = 'keepalive reported as %r, negotiated min(%d, %d)' % (got['keepalive'], own_ka, peer_ka)
                    if str(got.get('peer_nodeid')) != 'dtn://p/':
                        found = 'peer node id reported as %r' % (got.get('peer_nodeid'),)
                if found and len(violations) < 4:
                    v = Violation(PROP, 'negotiation', 'reported-parameters-differ-from-announced', dict(), '%r: %s' % (case, found)).as_dict()
                    v['case'] = case
                    violations.append(v)
    # node IDs outside ASCII (two and three octets per character), long ones, with a keepalive to negotiate
    for role in ('passive', 'active'):
        for nid in ('dtn://k\u00f6ln/', 'dtn://\u8282\u70b9/x', 'dtn://n\u0153ud-\u00e9/', 'dtn://' + 'a' * 249 + '/', 'ipn:977000.3.0'):
            count += 1
            case = dict(role=role, peer_node_id=nid)
            w = PeerWorld(dict(role=role, keepalive=9, seg_mru=64, tx_init=64))
            w.peer_write(T.enc_contact(0) + T.enc_sess_init(4, 64, 1000, nid.encode('utf-8')))
            w.quiesce()
            prm = w.bus_call(w.proc, RPATH, 'get_session_parameters', iface=RIFACE)
            found = None
            if w.escaped:
                found = 'escaped %s: %s' % (w.escaped[-1][0], w.escaped[-1][2])
            elif w.handler().get_session_state() != 'established':
                found = 'session not established (state %r)' % (w.handler().get_session_state(),)
            elif prm[0] != 'ok' or str(prm[1].get('peer_nodeid')) != nid or int(prm[1].get('keepalive', -1)) != 4:
                found = 'reported %r' % (prm[1] if prm[0] == 'ok' else prm,)
            if found and len(violations) < 4:
                v = Violation(PROP, 'negotiation', 'reported-parameters-differ-from-announced', dict(node_id='not ascii'), '%r: %s' % (case, found)).as_dict()
                v['case'] = case
                violations.append(v)
    return dict(name='reported-limits', evaluations=count, violations=violations, known=[], samples=[])


def run_adaptive_second_init(params, known):
    '''Adaptive sizing against a peer that sends a second SESS_INIT (refused by the endpoint)
    announcing other limits: the limits of the session stay those of the first SESS_INIT, on
    the wire (every segment) and in get_session_parameters(), whatever the acknowledgement
    timing and wherever the stray SESS_INIT arrives.'''
    violations = []
    count = 0
    mru = 20000
    for role in ('passive', 'active'):
        for second_mru in (1000, mru, 10 ** 6):
            for where in ('before-first-bundle', 'after-first-ack', 'between-bundles'):
                for delays in itertools.product((1, 10 ** 7), repeat=3):
                    count += 1
                    case = dict(role=role, first_segment_mru=mru, second_segment_mru=second_mru, second_init=where, ack_delays_us=list(delays))
                    data = bytes(range(256)) * 235          # 60160 octets: several segments at any adapted size
                    w = PeerWorld(dict(role=role, seg_mru=64000, tx_init=5000, modulate=1, max_quiesce=4000))
                    w.peer_write(T.enc_contact(0) + T.enc_sess_init(0, mru, 10 ** 9, b'dtn://p/'))
                    w.quiesce()
                    parser = T.StreamParser()
                    pos = 0
                    pending = []
                    found = None
                    stray_sent = False
                    acks = 0

                    def absorb():
                        nonlocal pos, found
                        for m in parser.feed(w.out_octets[pos:]):
                            if m['kind'] == 'XFER_SEGMENT':
                                pending.append(m)
                                if len(m['data']) > mru and found is None:
                                    found = 'XFER_SEGMENT of %d octets, the peer announced a segment MRU of %d' % (len(m['data']), mru)
                        pos = len(w.out_octets)

                    def stray():
                        nonlocal stray_sent
                        stray_sent = True
                        w.peer_write(T.enc_sess_init(0, second_mru, 10 ** 9, b'dtn://p/'))
                        w.quiesce()
                        absorb()
                    absorb()
                    if where == 'before-first-bundle':
                        stray()
                    totals = {}
                    for bundle_no in (1, 2):
                        if bundle_no == 2 and where == 'between-bundles' and not stray_sent:
                            stray()
                        w.bus_call(w.proc, RPATH, 'send_bundle_data', data, iface=RIFACE)
                        w.quiesce()
                        absorb()
                        guard = 0
                        while pending and found is None and guard < 400:
                            guard += 1
                            m = pending.pop(0)
                            totals[m['transfer_id']] = totals.get(m['transfer_id'], 0) + len(m['data'])
                            w.clock.now_us += delays[min(acks, 2)]
                            acks += 1
                            w.peer_write(T.enc_ack(m['flags'], m['transfer_id'], totals[m['transfer_id']]))
                            w.quiesce()
                            absorb()
                            if where == 'after-first-ack' and not stray_sent:
                                stray()
                        if found:
                            break
                    if found is None:
                        prm = w.bus_call(w.proc, RPATH, 'get_session_parameters', iface=RIFACE)
                        if prm[0] != 'ok' or int(prm[1].get('peer_segment_mru', -1)) != mru:
                            found = 'get_session_parameters reports peer segment MRU %r, negotiated %d' % (prm[1].get('peer_segment_mru') if prm[0] == 'ok' else prm, mru)
                    if found is None and w.escaped:
                        found = 'escaped %s: %s' % (w.escaped[-1][0], w.escaped[-1][2])
                    if found and len(violations) < 4:
                        v = Violation(PROP, 'wire', 'segment-exceeds-peer-mru' if 'XFER_SEGMENT' in found else 'negotiated-parameters-changed', dict(), '%r: %s' % (case, found)).as_dict()
                        v['case'] = case
                        violations.append(v)
    return dict(name='adaptive-second-init', evaluations=count, violations=violations, known=[], samples=[])


def run_adaptive(params, known):
    '''Adaptive segment sizing: every assignment of {fast, slow} delays to the
    acknowledgements of a bundle of several segments (and a second pipelined
    bundle); no segment may exceed the peer's segment MRU.'''
    prop = params.get('prop', PROP)
    violations = []
    count = 0
    samples = []
    nacks = 6 if params.get('thorough') else 4
    # peer MRUs above and *below* the controller's internal floor of 10240 octets
    for (mru, init, target, first) in ((20000, 5000, 1, None), (12000, 20000, 1, None), (64000, 11000, 2, None), (4096, 4096, 1, None), (10239, 3000, 1, None),
                                       # the first bundle has no octets at all / a single one (its only acknowledgement covers nothing / one octet)
                                       (20000, 5000, 1, ''), (20000, 5000, 1, 'ab')):
        for (delays, late_second) in itertools.product(itertools.product((1, 10 ** 7), repeat=nacks), (False, True, 'after-the-first-has-finished')):
            count += 1
            size = 24000
            prm = dict(scripts={'A': [('send', 'ab' * size if first is None else first), ('send', 'cd' * size)], 'B': []},
                       seg_mru={'A': mru, 'B': mru}, tx_init={'A': init, 'B': init},
                       modulate={'A': target, 'B': None}, max_ticks=0)
            w = TcpclWorld(prm)
            wire = WireMonitor(prop)
            dlv = DeliveryMonitor(prop, expect_all=True)
            w.monitors = [wire, dlv, EscapeMonitor(prop)]
            found = []
            acks = 0
            # deterministic schedule: run A to quiescence, then B, advancing the clock before
            # each burst of acknowledgements by the chosen delay
            steps = 0
            queued = 0
            while steps < 4000:
                steps += 1
                evs = w.enabled_events()
                user = [e for e in evs if e[0] == 'user']
                first_done = bool(dlv.success['A'])
                if user and queued < 2 and (queued == 0 or not late_second or (acks >= 2 and late_second is True)
                                            or (late_second == 'after-the-first-has-finished' and first_done)):
                    # queue the first bundle as soon as the session is established; the second
                    # either at once (pipelined) or only after acknowledgements have already
                    # moved the controller (its segments are then cut with the adapted size), or only when the
                    # first has been acknowledged completely and reported (nothing is in flight any more)
                    if w.handler('A').get_session_state() == 'established':
                        (vs, _e) = w.apply(user[0])
                        found.extend(vs)
                        queued += 1
                        continue
                runs = [e for e in evs if e[0] == 'run']
                if not runs:
                    break
                pick = runs[0]
                if pick[1] == 'A' and w.conns[0].buf[0] and wire.used_ids[0]:
                    # acknowledgements are waiting for A: let the chosen delay pass first
                    delay = delays[min(acks, nacks - 1)]
                    acks += 1
                    w.clock.now_us += delay
                (vs, _e) = w.apply(pick)
                found.extend(vs)
                found.extend(w.check_state())
                if found:
                    break
            found.extend(w.check_final() if not found else [])
            if len(samples) < 2:
                samples.append(dict(mru=mru, init=init, delays=list(delays), late_second=late_second, steps=steps))
            for viol in found[:1]:
                v = viol.as_dict()
                v['case'] = dict(mru=mru, init=init, target=target, delays=list(delays), late_second=late_second, first_bundle_octets=(size if first is None else len(first) // 2))
                violations.append(v)
        if violations:
            break
    return dict(name=params.get('name', 'adaptive'), evaluations=count, violations=violations[:4], known=[], samples=samples)


ASSUMPTIONS = [
    'one shared virtual clock; time advances to the next timer deadline only when no process can run',
    'keepalive values {0,1,2,5} s, idle times {0,3,7} s, at most 6 clock advances per path',
    'adaptive sizing: one deterministic run-to-block schedule per assignment of ACK delays (delays in {1 us, 10 s})',
]

RULE = ('timed explicit-state BFS over two real endpoints for every (keepalive, keepalive, idle, idle) combination with '
        'clock advances as transitions; negotiated values read through get_session_parameters(); KEEPALIVE / idle '
        'SESS_TERM timing judged against the virtual clock on every transition and in every quiescent state; plus '
        'enumerations for the silent-peer closure and adaptive segment sizing')


def evidence(tier, seed, scens, results, wall_s):
    ev = graph_evidence(PROP, tier, seed, scens, [r for r in results if r and r.get('kind') == 'graph'], wall_s, ASSUMPTIONS, RULE)
    enum = [r for r in results if r and r.get('kind') == 'enum']
    ev['coverage']['enumerated_executions'] = sum(r.get('evaluations', 0) for r in enum)
    ev['coverage']['exhaustive'] = ev['coverage']['exhaustive'] and len([r for r in results if r and r.get('kind') != 'error']) == len(results)
    return ev


def replay_case(body, verbose=False):
    print('case: %r -- rerun: python -m vmc.check C14 --only %s' % (body.get('case'), body['scenario']['name']))
    return 1
