'''C05 - BP fragmentation keeps every fragment within the route MTU and loses
nothing.

Bounded-exhaustive grid of (payload length, MTU) pairs across the CBOR
length-head boundaries x CRC types x extension-block sets (with and without
the replicate flag) x origin (locally created / received and forwarded / received from a clockless source with lifetime 0) x
flags (plain, do-not-fragment, already a fragment) x integrity policy on/off.
Every octet string the real agent hands to the convergence layer for one send
request is decoded by the independent decoder and judged against a tiling
model.'''
import re

from ..bp_world import BpWorld
from ..world import Violation
from ..oracle import bpv7 as B
from ..oracle import cbor_min as C
from ..evidence import enum_evidence

PROP = 'C05'
NODE = 'dtn://node/'

EXT_SETS = {
    'none': [],
    'hop': [dict(type=10, flags=0, crc_type=0, data=B.enc_hop_count(30, 1))],
    'hop+repl': [dict(type=10, flags=0, crc_type=0, data=B.enc_hop_count(30, 1)),
                 dict(type=193, flags=B.BLK_REPLICATE, crc_type=0, data=b'replicate-me')],
    'unk+age': [dict(type=194, flags=0, crc_type=0, data=b'only-first'),
                dict(type=7, flags=B.BLK_REPLICATE, crc_type=0, data=B.enc_age(77))],
}


def payload_bytes(length):
    return bytes((i * 31 + 7) & 0xFF for i in range(length))


def make_bundle(length, crc, ext, flags, origin):
    src = NODE + 'app' if origin == 'local' else 'dtn://src/app'
    pri = dict(flags=flags, crc_type=crc, dest='dtn://far/app', src=src, report_to='dtn:none',
               ts=(700000000000, 4), lifetime=3600000)
    if flags & B.FLAG_IS_FRAGMENT:
        pri.update(frag_offset=5, total_adu=length + 100)
    if origin == 'forward-ts0':
        # source without a clock (the bundle then carries an age block) and lifetime zero:
        # the values for which a locally created bundle would get defaults
        pri.update(ts=(0, 4), lifetime=0)
    # crc 10 / 20: primary block without CRC, canonical blocks with CRC-16 / CRC-32; 1 / 2 etc.: all alike
    bcrc = crc
    if crc >= 10:
        bcrc = crc // 10
        pri['crc_type'] = 0
    blocks = []
    for (i, blk) in enumerate(EXT_SETS[ext]):
        blk = dict(blk, num=i + 2, crc_type=bcrc if blk['type'] != 7 else 0)
        blocks.append(blk)
    blocks.append(dict(type=1, num=1, flags=0, crc_type=bcrc, data=payload_bytes(length)))
    return dict(primary=pri, blocks=blocks)


def impl_container(bundle):
    '''What a local application hands to Agent.send_bundle().'''
    from bp.util import BundleContainer
    from bp.encoding import PrimaryBlock, CanonicalBlock, Timestamp
    pri = bundle['primary']
    kwargs = dict(bundle_flags=pri['flags'], crc_type=pri['crc_type'], destination=pri['dest'], source=pri['src'],
                  report_to=pri['report_to'], create_ts=Timestamp(dtntime=pri['ts'][0], seqno=pri['ts'][1]),
                  lifetime=pri['lifetime'])
    if pri['flags'] & B.FLAG_IS_FRAGMENT:
        kwargs.update(fragment_offset=pri['frag_offset'], total_app_data_len=pri['total_adu'])
    ctr = BundleContainer()
    ctr.bundle.primary = PrimaryBlock(**kwargs)
    blocks = []
    for blk in bundle['blocks']:
        blocks.append(CanonicalBlock(type_code=blk['type'], block_num=blk['num'], block_flags=blk['flags'],
                                     crc_type=blk['crc_type'], btsd=blk['data']))
    ctr.bundle.blocks = blocks
    ctr.reload()
    return ctr


def enable_bib(world):
    from pycose.keys import SymmetricKey, keyops
    from pycose import algorithms
    from bp.app.bpsec import SecAssociation, SecOperation
    cose = world.cose()
    key = SymmetricKey(k=bytes(range(32)), optional_params={})
    key.kid = b'mac-key'
    key.alg = algorithms.HMAC256
    key.key_ops = [keyops.MacCreateOp, keyops.MacVerifyOp]
    cose.sym_key_store[key.kid] = key
    cose.sec_assoc.append(SecAssociation(
        src_pat=re.compile(re.escape(NODE) + '.*'), dst_pat=re.compile('.*'), tgt_blk_types=[1],
        templates=[SecOperation(sec_type='bib', role='source', priv_key_id=key.kid)]))


def run_send(bundle, mtu, origin, bib):
    world = BpWorld(dict(node_id=NODE, tx_routes=[('.*', 'dtn://next/', mtu)],
                         rx_routes=[('^dtn://node/.*', 'deliver'), ('.*', 'forward')]))
    if bib:
        enable_bib(world)
    if origin == 'local':
        world.send(impl_container(bundle))
    else:
        world.receive(B.encode(bundle))
    world.quiesce()
    return world


def frag_size(template_blocks, pri, offset, total, data_len):
    '''Encoded size of a fragment per the independent encoder.'''
    fpri = dict(pri, flags=pri['flags'] | B.FLAG_IS_FRAGMENT, frag_offset=offset, total_adu=total)
    blocks = [dict(b) for b in template_blocks]
    blocks[-1] = dict(blocks[-1], data=bytes(data_len))
    return len(B.encode(dict(primary=fpri, blocks=blocks)))


def judge(label, bundle, mtu, origin, bib, world, reference):
    out = []
    length = len(bundle['blocks'][-1]['data'])

    def bad(kind, sig, detail):
        v = Violation(PROP, 'fragment', kind, sig, '%r: %s' % (label, detail)).as_dict()
        v['case'] = dict(label=label)
        out.append(v)
    if world.escaped:
        esc = world.escaped[-1]
        bad('exception-escaped-idle-callback', dict(exc=esc[0]), '%s: %s' % (esc[0], esc[2]))
    sent = []
    for octets in world.sent():
        try:
            dec = B.decode(octets)
        except B.Malformed as err:
            bad('sent-octets-not-rfc9171', dict(), '%s' % err)
            return out, 'broken'
        if dec['primary']['flags'] & B.FLAG_ADMIN:
            continue
        if not dec['primary']['crc_ok'] or not all(b['crc_ok'] for b in dec['blocks']):
            bad('crc-invalid-on-output', dict(), 'block CRCs %r' % [(b['num'], b['crc_ok']) for b in dec['blocks']])
        sent.append((octets, dec))
    flags = bundle['primary']['flags']
    whole = len(reference) if reference is not None else None
    must_not_fragment = bool(flags & (B.FLAG_NO_FRAGMENT | B.FLAG_IS_FRAGMENT))
    fits = whole is not None and (mtu is None or whole <= mtu)
    if fits or must_not_fragment:
        # sent unchanged
        if len(sent) != 1:
            bad('unfragmentable-or-fitting-bundle-not-sent-once', dict(count=len(sent)), 'convergence layer got %d bundles' % len(sent))
            return out, 'whole'
        if reference is not None and sent[0][0] != reference:
            bad('bundle-altered-although-it-needs-no-fragmentation', dict(),
                'sent %s..., unconstrained route sends %s...' % (sent[0][0].hex()[:80], reference.hex()[:80]))
        return out, 'whole'
    # the bundle exceeds the MTU and may be fragmented
    if not sent:
        return out, 'nothing'
    over = [len(o) for (o, _d) in sent if len(o) > mtu]
    if over:
        bad('oversized-bundle-transmitted', dict(), 'MTU %d, sizes sent %r' % (mtu, [len(o) for (o, _d) in sent]))
        return out, 'broken'
    src_pri = B.strip(bundle)['primary']
    pieces = []
    for (octets, dec) in sent:
        pri = B.strip(dec)['primary']
        if not pri['flags'] & B.FLAG_IS_FRAGMENT:
            bad('unfragmented-bundle-among-fragments', dict(), 'flags 0x%x' % pri['flags'])
            return out, 'broken'
        for fld in ('dest', 'src', 'report_to', 'ts', 'lifetime', 'crc_type'):
            if pri[fld] != src_pri[fld]:
                bad('fragment-identity-differs', dict(field=fld), '%s: %r vs %r' % (fld, pri[fld], src_pri[fld]))
        if pri['flags'] & ~B.FLAG_IS_FRAGMENT != src_pri['flags']:
            bad('fragment-flags-differ', dict(), '0x%x vs 0x%x' % (pri['flags'], src_pri['flags']))
        if pri['total_adu'] != length:
            bad('fragment-total-length-wrong', dict(), '%d vs payload %d' % (pri['total_adu'], length))
        pieces.append((pri['frag_offset'], B.payload(dec), dec))
    pieces.sort(key=lambda p: p[0])
    pos = 0
    for (off, data, _dec) in pieces:
        if off != pos:
            bad('fragments-do-not-tile-the-payload', dict(), 'offsets/lengths %r, payload %d' % ([(p[0], len(p[1])) for p in pieces], length))
            return out, 'broken'
        if len(data) == 0:
            bad('empty-fragment', dict(), repr([(p[0], len(p[1])) for p in pieces]))
        pos += len(data)
    if pos != length:
        bad('fragments-do-not-tile-the-payload', dict(), 'offsets/lengths %r, payload %d' % ([(p[0], len(p[1])) for p in pieces], length))
        return out, 'broken'
    if b''.join(p[1] for p in pieces) != bundle['blocks'][-1]['data']:
        bad('fragment-data-differs-from-payload', dict(), 'reassembly differs')
    src_ext = [(b['type'], b['flags'], bytes(b['data'])) for b in bundle['blocks'][:-1]]
    for (k, (off, _data, dec)) in enumerate(pieces):
        ext = [(b['type'], b['flags'], bytes(b['data'])) for b in dec['blocks'][:-1]
               if b['type'] not in (B.T_BIB, B.T_PREV_NODE)]
        want = src_ext if k == 0 else [e for e in src_ext if e[1] & B.BLK_REPLICATE]
        if origin != 'local':
            # forwarding replaces/updates hop-by-hop blocks; compare types only
            ext = sorted((e[0], e[1] & 1) for e in ext if e[0] not in (B.T_AGE,))
            want = sorted((e[0], e[1] & 1) for e in want if e[0] not in (B.T_AGE,))
        if ext != want:
            bad('fragment-extension-blocks-wrong', dict(first=(k == 0)),
                'fragment at offset %d carries %r, expected %r' % (off, ext, want))
            break
    return out, 'fragmented'


def grid(tier):
    '''(length, mtu-spec) pairs; an MTU spec is ("delta", d) relative to the
    empty-payload first fragment, ("abs", n), or ("whole", d) relative to the
    unfragmented size.'''
    small = list(range(0, 61))
    mid = list(range(250, 263))
    big = list(range(65530, 65542))
    pairs = []
    for length in small:
        for d in list(range(1, 31)):
            pairs.append((length, ('delta', d)))
        for d in (-1, 0, 1):
            pairs.append((length, ('whole', d)))
        pairs.append((length, ('delta', -1)))
    for length in mid:
        for k in (1, 2, 3):
            for d in range(-2, 7):
                pairs.append((length, ('split', k, d)))
        for n in (255, 256, 257):
            pairs.append((length, ('abs', n)))
        pairs.append((length, ('whole', 0)))
    for length in big:
        for k in (1, 2, 3):
            for d in (-1, 0, 1, 2, 3, 4, 5):
                pairs.append((length, ('split', k, d)))
        for n in (65535, 65536, 65537):
            pairs.append((length, ('abs', n)))
    return pairs


def variants(tier):
    '''(crc, ext, origin, flagname, bib, grid filter)'''
    out = []
    full = lambda length, spec: True
    sparse = lambda length, spec: (length % 5 in (0, 3) or length >= 250) and (spec[0] != 'delta' or spec[1] % 4 == 1 or spec[1] < 0)
    thin = lambda length, spec: (length in (0, 1, 23, 24, 37, 60, 255, 256, 65535, 65536)) and (spec[0] != 'delta' or spec[1] in (1, 2, 9, 30, -1))
    out.append((1, 'none', 'local', 'plain', False, full))
    for crc in (0, 2):
        out.append((crc, 'none', 'local', 'plain', False, sparse))
    for ext in ('hop', 'hop+repl', 'unk+age'):
        out.append((2, ext, 'local', 'plain', False, sparse))
    out.append((1, 'hop+repl', 'forward', 'plain', False, sparse))
    out.append((0, 'none', 'forward', 'plain', False, sparse))
    out.append((1, 'unk+age', 'forward-ts0', 'plain', False, sparse))
    out.append((10, 'hop', 'local', 'plain', False, sparse))
    out.append((20, 'hop+repl', 'local', 'plain', False, sparse))
    for flagname in ('dnf', 'isfrag'):
        out.append((1, 'hop', 'local', flagname, False, thin))
        out.append((1, 'hop', 'forward', flagname, False, thin))
    out.append((1, 'none', 'local', 'plain', True, sparse))
    out.append((2, 'hop+repl', 'local', 'plain', True, thin))
    if tier == 'thorough':
        for crc in (0, 2):
            for ext in EXT_SETS:
                out.append((crc, ext, 'local', 'plain', False, full))
        out.append((1, 'unk+age', 'forward', 'plain', False, full))
        out.append((1, 'hop', 'local', 'plain', True, full))
    return out


FLAGS = {'plain': 0, 'dnf': B.FLAG_NO_FRAGMENT, 'isfrag': B.FLAG_IS_FRAGMENT}


def resolve_mtu(spec, bundle, reference_len):
    length = len(bundle['blocks'][-1]['data'])
    pri = bundle['primary']
    h_first = frag_size(bundle['blocks'], pri, 0, length, 0)
    if spec[0] == 'delta':
        return h_first + spec[1]
    if spec[0] == 'abs':
        return spec[1]
    if spec[0] == 'whole':
        return (reference_len or h_first + length) + spec[1]
    if spec[0] == 'split':
        (_s, k, d) = spec
        return h_first + C.head_len(length) + (length + k - 1) // k + d
    raise ValueError(spec)


def run_variant(params, known):
    (crc, ext, origin, flagname, bib) = params['variant']
    filt = variants(params['tier'])[params['index']][5]
    (part, parts) = (params['part'], params['parts'])
    violations = []
    kinds = set()
    keys = set()
    outcomes = {}
    count = 0
    samples = []
    refs = {}
    for (idx, (length, spec)) in enumerate(grid(params['tier'])):
        if not filt(length, spec):
            continue
        if idx % parts != part:
            continue
        bundle = make_bundle(length, crc, ext, FLAGS[flagname], origin)
        if length not in refs:
            # what an unconstrained route transmits for this bundle
            ref_world = run_send(bundle, None, origin, bib)
            data = [o for o in ref_world.sent() if not (B.decode(o)['primary']['flags'] & B.FLAG_ADMIN)]
            refs[length] = data[0] if len(data) == 1 else None
        reference = refs[length]
        mtu = resolve_mtu(spec, bundle, len(reference) if reference else None)
        if mtu <= 0:
            continue
        count += 1
        label = dict(length=length, mtu=mtu, mtu_spec=list(spec), crc=crc, ext=ext, origin=origin, flags=flagname, bib=bib)
        world = run_send(bundle, mtu, origin, bib)
        (found, outcome) = judge(label, bundle, mtu, origin, bib, world, reference)
        outcomes[outcome] = outcomes.get(outcome, 0) + 1
        if outcome == 'nothing':
            # acceptable only when fragmentation is impossible by a conservative budget
            pri = bundle['primary']
            need_first = frag_size(bundle['blocks'], pri, 0, length, 1)
            repl = [b for b in bundle['blocks'][:-1] if b['flags'] & B.BLK_REPLICATE] + [bundle['blocks'][-1]]
            need_later = frag_size(repl, pri, max(length - 1, 0), length, 1)
            slack = 3 * C.head_len(length) + 8 + (120 if bib else 0) + (40 if origin != 'local' else 0)
            if mtu >= max(need_first, need_later) + slack and length > 0:
                v = Violation(PROP, 'fragment', 'nothing-sent-although-fragmentation-is-possible', dict(),
                              '%r: one-octet fragments need %d / %d octets, MTU is %d' % (label, need_first, need_later, mtu)).as_dict()
                v['case'] = dict(label=label)
                found.append(v)
        for v in found:
            key = (v['kind'], tuple(sorted(v['signature'].items())))
            if key not in kinds:
                kinds.add(key)
                violations.append(v)
        if outcome == 'fragmented':
            keys.add((length, mtu))
            if len(samples) < 1:
                samples.append(dict(label=label, sizes=[len(o) for o in world.sent()]))
    kn, out_v = [], []
    for v in violations:
        ent = known.match(v) if known is not None else None
        (kn if ent else out_v).append(dict(v, entry=ent) if ent else v)
    name = params['name']
    return dict(name=name, evaluations=count, nontrivial_keys=['%s %r' % (name.split('#')[0], k) for k in sorted(keys)],
                violations=out_v, known=kn, samples=samples, outcomes=outcomes, report_keys=['outcomes'])


def run_container_histories(params, known):
    '''What an application may do with the container it hands to send_bundle(): (1) leave the
    numbering of its extension blocks to the agent (no block numbers given; 2, 3, 8, 12 and 23 extension
    blocks); (2) use one container again for its next bundle (new blocks with the same numbers) -
    bundles of 700, 333, 40 and 650 octets in a row over an MTU-200 route.  Every bundle is judged
    like any other: transmissions within the MTU, identity, fragments tiling the payload of THIS
    bundle, blocks numbered uniquely.'''
    from .. import env as _env
    _env.load_bp()
    from bp.encoding import CanonicalBlock
    violations = []
    kinds = set()
    count = 0
    keys = set()

    def viol(kind, detail, case):
        if kind in kinds:
            return
        kinds.add(kind)
        v = Violation(PROP, 'fragment', kind, dict(), '%r: %s' % (case, detail)).as_dict()
        v['case'] = case
        violations.append(v)

    def judge_sent(world, start, payload, mtu, case):
        cover = [0] * len(payload)
        for octets in world.sent()[start:]:
            if mtu is not None and len(octets) > mtu:
                viol('oversized-bundle-transmitted', '%d octets on an MTU-%d route' % (len(octets), mtu), case)
            try:
                dec = B.decode(octets)
            except B.Malformed as err:
                viol('sent-octets-not-rfc9171', str(err), case)
                return
            off = dec['primary'].get('frag_offset', 0) if dec['primary']['flags'] & B.FLAG_IS_FRAGMENT else 0
            total = dec['primary'].get('total_adu', len(payload)) if dec['primary']['flags'] & B.FLAG_IS_FRAGMENT else len(B.payload(dec))
            if total != len(payload):
                viol('total-length-differs', 'announced %d, the payload has %d octets' % (total, len(payload)), case)
            data = B.payload(dec)
            if payload[off:off + len(data)] != data:
                viol('fragment-data-not-from-this-bundle', 'fragment at offset %d' % off, case)
            for i in range(off, min(off + len(data), len(payload))):
                cover[i] += 1
        if any(c != 1 for c in cover):
            viol('fragments-do-not-tile-the-payload', 'octets covered 0 times: %d, more than once: %d'
                 % (sum(1 for c in cover if c == 0), sum(1 for c in cover if c > 1)), case)
    # (1) agent-numbered extension blocks
    for next_ in (2, 3, 8, 12, 23):
        for (length, mtu) in ((40, None), (40, 400 + 12 * next_), (700, 200 + 8 * next_), (700, 260 + 8 * next_)):
            for crc in (0, 1):
                count += 1
                case = dict(extension_blocks_without_number=next_, length=length, mtu=mtu, crc=crc)
                world = BpWorld(dict(node_id=NODE, tx_routes=[('.*', 'dtn://next/', mtu)], rx_routes=[('.*', 'forward')]))
                bundle = make_bundle(length, crc, 'none', 0, 'local')
                ctr = impl_container(bundle)
                for k in range(next_):
                    ctr.bundle.blocks.insert(0, CanonicalBlock(type_code=200 + k, block_flags=0, crc_type=crc, btsd=b'ext%d' % k))
                ctr.reload()
                world.send(ctr)
                world.quiesce()
                keys.add('numbered-by-agent/%d/%d/%s/%d' % (next_, length, mtu, crc))
                if world.api_errors and 'too large for route MTU' in world.api_errors[-1][1] and not world.sent():
                    continue        # the blocks alone exceed this MTU: refused, nothing left the node
                if world.escaped or world.api_errors:
                    esc = (world.escaped or world.api_errors)[-1]
                    viol('exception-escaped', '%s: %s' % (esc[0], esc[2] if world.escaped else esc[1]), case)
                    continue
                if not world.sent():
                    viol('nothing-sent', 'no bundle left the node', case)
                judge_sent(world, 0, bundle['blocks'][-1]['data'], mtu, case)
    # (2) one container, several bundles
    for lengths in ((700, 333, 40, 650), (40, 700), (333, 700, 700)):
        for mtu in (200, None):
            count += 1
            case = dict(one_container_for_bundles_of=list(lengths), mtu=mtu)
            world = BpWorld(dict(node_id=NODE, tx_routes=[('.*', 'dtn://next/', mtu)], rx_routes=[('.*', 'forward')]))
            ctr = None
            for (k, length) in enumerate(lengths):
                bundle = make_bundle(length, 1, 'hop', 0, 'local')
                bundle['primary']['ts'] = (700000000000, 10 + k)
                bundle['blocks'][-1]['data'] = bytes((i * 7 + 11 * k + 3) & 0xFF for i in range(length))
                fresh = impl_container(bundle)
                if ctr is None:
                    ctr = fresh
                else:
                    ctr.bundle.primary = fresh.bundle.primary
                    ctr.bundle.blocks = fresh.bundle.blocks
                start = len(world.sent())
                world.send(ctr)
                world.quiesce()
                if world.escaped or world.api_errors:
                    esc = (world.escaped or world.api_errors)[-1]
                    viol('exception-escaped', 'bundle %d: %s: %s' % (k + 1, esc[0], esc[2] if world.escaped else esc[1]), case)
                    break
                judge_sent(world, start, bundle['blocks'][-1]['data'], mtu, dict(case, bundle=k + 1))
            keys.add('reuse/%r/%s' % (lengths, mtu))
    return dict(name=params['name'], evaluations=count, nontrivial_keys=sorted(keys), violations=violations, known=[], samples=[])


def run_burst(params, known):
    """Several bundles to be forwarded (or sent) reach the agent before its loop has run - the fragments an
    upstream node made of one bundle arrive in one burst, say: two and three bundles of lengths below and above the
    MTU, from the network, from a local application, or mixed.  Every one of them is handed to the convergence layer
    within the MTU and its payload tiled exactly once."""
    import itertools
    violations = []
    kinds = set()
    count = 0
    keys = set()

    def viol(kind, detail, case):
        if kind in kinds:
            return
        kinds.add(kind)
        v = Violation(PROP, 'fragment', kind, dict(), '%r: %s' % (case, detail)).as_dict()
        v['case'] = case
        violations.append(v)
    for (mtu, lengths, origins) in itertools.product((150, 330), ((40, 40), (400, 40), (40, 400), (400, 500), (40, 400, 40), (400, 400, 400)),
                                                     ('forward', 'local', 'mixed')):
        count += 1
        case = dict(mtu=mtu, lengths=list(lengths), origin=origins)
        world = BpWorld(dict(node_id=NODE, tx_routes=[('.*', 'dtn://next/', mtu)], rx_routes=[('^dtn://node/.*', 'deliver'), ('.*', 'forward')]))
        sent_bundles = []
        for (k, length) in enumerate(lengths):
            origin = origins if origins != 'mixed' else ('forward', 'local')[k % 2]
            bundle = make_bundle(length, 1, 'hop', 0, origin)
            bundle['primary']['ts'] = (bundle['primary']['ts'][0], 50 + k)
            sent_bundles.append((bundle, origin))
            # (no loop turn in between)
            if origin == 'local':
                world.send(impl_container(bundle))
            else:
                world.receive(B.encode(bundle))
        world.quiesce()
        keys.add('%d/%r/%s' % (mtu, lengths, origins))
        if world.escaped or world.api_errors:
            esc = (world.escaped or world.api_errors)[-1]
            viol('exception-escaped', '%s: %s' % (esc[0], esc[2] if world.escaped else esc[1]), case)
            continue
        covers = {50 + k: [0] * length for (k, length) in enumerate(lengths)}
        for octets in world.sent():
            if len(octets) > mtu:
                viol('oversized-bundle-transmitted', '%d octets, MTU %d' % (len(octets), mtu), case)
            dec = B.decode(octets)
            if dec['primary']['flags'] & B.FLAG_ADMIN:
                continue
            seq = dec['primary']['ts'][1]
            off = dec['primary'].get('frag_offset', 0) if dec['primary']['flags'] & B.FLAG_IS_FRAGMENT else 0
            for i in range(off, off + len(B.payload(dec))):
                if seq in covers and i < len(covers[seq]):
                    covers[seq][i] += 1
        for (seq, cover) in sorted(covers.items()):
            if any(c != 1 for c in cover):
                viol('fragments-do-not-tile-the-payload', 'bundle %d of the burst: octets covered 0 times: %d, more than once: %d'
                     % (seq - 49, sum(1 for c in cover if c == 0), sum(1 for c in cover if c > 1)), case)
    return dict(name=params['name'], evaluations=count, nontrivial_keys=sorted(keys), violations=violations, known=[], samples=[])


def run_route_added(params, known):
    '''The transmit table grows while fragments wait to be sent (the adaptors add routes when a
    session comes up): a second route for the same destinations, with a smaller / larger / no MTU and
    another next hop, is appended before the send request, or between the request and the loop turns
    that send the fragments.  Every bundle handed to the convergence layer fits the MTU of the route
    it is handed over with, and the fragments tile the payload.'''
    from .. import env as _env
    ns = _env.load_bp()
    violations = []
    kinds = set()
    count = 0
    keys = set()

    def viol(kind, detail, case):
        if kind in kinds:
            return
        kinds.add(kind)
        v = Violation(PROP, 'fragment', kind, dict(), '%r: %s' % (case, detail)).as_dict()
        v['case'] = case
        violations.append(v)
    for length in (300, 1000):
        for m1 in (150, 300):
            for m2 in (80, 150, 600, None):
                for when in ('before-the-request', 'after-the-request', 'after-one-loop-turn'):
                    for origin in ('local', 'forward'):
                        count += 1
                        case = dict(length=length, first_route_mtu=m1, added_route_mtu=m2, added=when, origin=origin)
                        world = BpWorld(dict(node_id=NODE, tx_routes=[('.*', 'dtn://next/', m1)],
                                             rx_routes=[('^dtn://node/.*', 'deliver'), ('.*', 'forward')]))
                        cfgmod = ns.config

                        def add():
                            item = cfgmod.TxRouteItem(eid_pattern=re.compile('^dtn://far/.*'), next_nodeid='dtn://other/', cl_type='udpcl', mtu=m2,
                                                      raw_config=dict(address='10.0.0.77', port=4556))
                            world.in_proc(world.proc, lambda: world.agent.add_tx_route(item))
                        bundle = make_bundle(length, 1, 'hop', 0, origin)
                        if when == 'before-the-request':
                            add()
                        if origin == 'local':
                            world.send(impl_container(bundle))
                        else:
                            world.receive(B.encode(bundle))
                        if when == 'after-one-loop-turn' and world.runnable(world.proc):
                            world.run_one()
                        if when != 'before-the-request':
                            add()
                        world.quiesce()
                        keys.add('%d/%s/%s/%s/%s' % (length, m1, m2, when, origin))
                        if world.escaped or world.api_errors:
                            esc = (world.escaped or world.api_errors)[-1]
                            viol('exception-escaped', '%s: %s' % (esc[0], esc[2] if world.escaped else esc[1]), case)
                            continue
                        cover = [0] * length
                        for (octets, txp) in world.cl.sent:
                            limit = m2 if str(txp.get('address')) == '10.0.0.77' else m1
                            if limit is not None and len(octets) > limit:
                                viol('oversized-bundle-transmitted', '%d octets handed over with the route to %s whose MTU is %s'
                                     % (len(octets), txp.get('address'), limit), case)
                            dec = B.decode(octets)
                            if dec['primary']['flags'] & B.FLAG_ADMIN:
                                continue
                            off = dec['primary'].get('frag_offset', 0) if dec['primary']['flags'] & B.FLAG_IS_FRAGMENT else 0
                            for i in range(off, off + len(B.payload(dec))):
                                if i < length:
                                    cover[i] += 1
                        if any(c != 1 for c in cover):
                            viol('fragments-do-not-tile-the-payload', 'octets covered 0 times: %d, more than once: %d'
                                 % (sum(1 for c in cover if c == 0), sum(1 for c in cover if c > 1)), case)
    return dict(name=params['name'], evaluations=count, nontrivial_keys=sorted(keys), violations=violations, known=[], samples=[])


def scenarios(tier):
    out = []
    out.append(dict(name='container-histories', kind='enum', runner='run_container_histories', params=dict(name='container-histories'), weight=100))
    out.append(dict(name='route-added', kind='enum', runner='run_route_added', params=dict(name='route-added'), weight=200))
    out.append(dict(name='burst', kind='enum', runner='run_burst', params=dict(name='burst'), weight=50))
    for (index, var) in enumerate(variants(tier)):
        (crc, ext, origin, flagname, bib, filt) = var
        npts = sum(1 for (length, spec) in grid(tier) if filt(length, spec))
        parts = max(1, min(8, npts // 150))
        for part in range(parts):
            name = 'crc%d-%s-%s-%s-%s#%d/%d' % (crc, ext, origin, flagname, 'bib' if bib else 'nobib', part + 1, parts)
            out.append(dict(name=name, kind='enum', runner='run_variant',
                            params=dict(name=name, variant=[crc, ext, origin, flagname, bib], index=index, tier=tier,
                                        part=part, parts=parts), weight=npts // parts))
    return out


ASSUMPTIONS = [
    'payload lengths 0..60, 250..262, 65530..65541; MTUs from just below the empty first fragment up to the whole bundle, '
    'for long payloads MTUs that give 1-3 fragments and the 255/256/65535/65536 boundaries',
    '"nothing sent" is accepted when one-octet fragments would not fit with a conservative slack for worst-case length heads (and for an added integrity block)',
    'the application leaves the numbering of 2 / 3 / 8 / 12 / 23 extension blocks to the agent; one container used again for the next bundle (four bundles in a row over an MTU-200 route)',
    'a second transmit route (other next hop, MTU 80 / 150 / 600 / none) appended before the request, right after it, or after one loop turn, while the fragments of a 300- / 1000-octet bundle wait to be sent',
    'integrity policy: one COSE_Mac0 BIB over the payload applied by the source',
]

RULE = ('finite grid of (payload length, MTU) x CRC x extension sets x origin x flags x integrity policy enumerated; every '
        'send request is executed on a fresh real agent and all octets reaching the convergence layer are decoded '
        'independently; non-trivial = the bundle was actually fragmented; distinct by (variant, length, MTU)')


def evidence(tier, seed, scens, results, wall_s):
    ev = enum_evidence(PROP, 'exploration', tier, seed, scens, results, wall_s, ASSUMPTIONS, RULE)
    tot = {}
    for r in results:
        if r and r.get('kind') == 'enum':
            for (k, v) in r.get('outcomes', {}).items():
                tot[k] = tot.get(k, 0) + v
    ev['coverage']['outcomes'] = tot
    return ev


def replay_case(body, verbose=False):
    label = body['case']['label']
    bundle = make_bundle(label['length'], label['crc'], label['ext'], FLAGS[label['flags']], label['origin'])
    ref_world = run_send(bundle, None, label['origin'], label['bib'])
    data = [o for o in ref_world.sent() if not (B.decode(o)['primary']['flags'] & B.FLAG_ADMIN)]
    reference = data[0] if len(data) == 1 else None
    world = run_send(bundle, label['mtu'], label['origin'], label['bib'])
    print('MTU %d, unfragmented size %s, sizes sent %r' % (label['mtu'], len(reference) if reference else None, [len(o) for o in world.sent()]))
    (found, outcome) = judge(label, bundle, label['mtu'], label['origin'], label['bib'], world, reference)
    print('outcome %s' % outcome)
    for v in found:
        print(' observed %s: %s' % (v['kind'], v['detail'][:500]))
    return 1 if found else 0
