'''C09 - TCPCL termination is graceful, complete and always finishes.

terminate() / close() requested by either or both users at every
between-iteration point of executions with transfers in progress; safety
monitors on every transition, "both sockets closed, everything reported" on
every bottom SCC of the state graph.'''
from ..tcpcl_world import TcpclWorld
from ..peer_world import PeerWorld, PATH, IFACE
from ..world import Violation
from ..oracle import tcpclv4 as T
from ..monitors import EscapeMonitor, DeliveryMonitor, WireMonitor, TerminationMonitor
from ..evidence import graph_evidence
from .c01 import hexn, DEVS

PROP = 'C09'


# ---------------------------------------------------------------------------
# one real endpoint against a scripted, conforming peer that may also refuse a transfer

class TermPeerWorld(PeerWorld):
    '''Events: one callback of the endpoint R; the user calls terminate() (once); the peer
    sends its SESS_TERM (once; marked as reply when R's has already arrived), acknowledges the
    oldest unacknowledged segment, or refuses R's transfer (once, if the scenario allows it).
    The peer reads everything R writes at once.  R's transfer has several segments, so every
    one of these can happen before, between and after the segments.'''

    def __init__(self, params):
        prm = dict(role=params.get('role', 'passive'), seg_mru=4, tx_init=4, queued=tuple(params['bundles']), max_quiesce=400,
                   chunk=params.get('chunk', 10240))
        self.opts = dict(refuse=params.get('refuse', False), user_term=params.get('user_term', True),
                         peer_term=params.get('peer_term', True), stray=params.get('stray'))
        self.prop = params.get('prop', PROP)
        self.sent_data = {}        # transfer id -> data octets of the segments R wrote
        self.malformed = None
        self.parser = T.StreamParser()
        self.parsed = 0
        self.outstanding = []      # (transfer id, cumulative length, flags) written by R, not acknowledged
        self.acked = {}
        self.refused = set()
        self.ended = set()         # transfers whose final segment R has written
        self.started = []          # transfer ids whose START segment R wrote
        self.r_term_seen = 0       # SESS_TERM messages R wrote
        self.done = dict(user_term=False, peer_term=False, refuse=False, stray=False)
        self.start_after_term = False
        PeerWorld.__init__(self, prm)
        # establish the session (R runs to quiescence; its queued bundles may start)
        self.peer_write(T.enc_contact(0) + T.enc_sess_init(0, 4, 1000, b'dtn://peer/'))
        self.absorb()

    def canon_extra(self, c):
        PeerWorld.canon_extra(self, c)
        c.walk(self.outstanding)
        c.walk(sorted(self.acked.items()))
        c.walk(sorted(self.refused))
        c.walk(self.done)
        c.out.append('t%d' % self.r_term_seen)

    def absorb(self):
        for msg in self.parser.feed(self.out_octets[self.parsed:]):
            if msg['kind'] == 'MALFORMED' and self.malformed is None:
                self.malformed = msg.get('text', 'undecodable')
            if msg['kind'] == 'XFER_SEGMENT':
                tid = msg['transfer_id']
                self.sent_data[tid] = self.sent_data.get(tid, b'') + bytes(msg['data'])
                if msg['flags'] & 1:
                    self.ended.add(tid)
                if msg['flags'] & 2:
                    self.started.append(tid)
                    if self.r_term_seen:
                        self.start_after_term = True
                prev = [o for o in self.outstanding if o[0] == tid]
                total = (prev[-1][1] if prev else self.acked.get(tid, 0)) + len(msg['data'])
                if tid not in self.refused:
                    self.outstanding.append((tid, total, msg['flags']))
            elif msg['kind'] == 'SESS_TERM':
                self.r_term_seen += 1
        self.parsed = len(self.out_octets)

    def established(self):
        return any(sig == ('session_state_changed', 'established') for sig in self.signals)

    def enabled_events(self):
        events = []
        if self.runnable(self.proc):
            events.append(('run', 'R'))
        if self.r_closed():
            return events
        if self.opts['user_term'] and not self.done['user_term'] and self.established():
            events.append(('user', 'terminate'))
        if self.opts['peer_term'] and not self.done['peer_term']:
            events.append(('peer', 'sess-term'))
        if self.outstanding:
            events.append(('peer', 'ack-next'))
        if self.opts['refuse'] == 'completed':
            # the peer refuses a transfer it has received completely and not yet acknowledged in full
            if not self.done['refuse'] and any(o[0] in self.ended for o in self.outstanding):
                events.append(('peer', 'refuse'))
        elif self.opts['refuse'] and not self.done['refuse'] and self.started:
            events.append(('peer', 'refuse'))
        if self.opts['stray'] == 'ack-final-early':
            # a final acknowledgement for the transfer that is being sent, before its final segment has been written
            tmp = getattr(self.handler(), '_tx_tmp', None)
            if not self.done['stray'] and self.started and tmp is not None and getattr(tmp, 'transfer_id', None) == self.started[-1]:
                events.append(('peer', 'stray'))
        elif self.opts['stray'] and not self.done['stray'] and self.established():
            events.append(('peer', 'stray'))
        return events

    def is_deviation(self, event):
        return False

    def apply(self, event):
        viols = []
        if event[0] == 'peer':
            if event[1] == 'sess-term':
                self.done['peer_term'] = True
                self.peer_write(T.enc_sess_term(1 if self.r_term_seen else 0, 0))
            elif event[1] == 'ack-next':
                (tid, total, flags) = self.outstanding.pop(0)
                self.acked[tid] = total
                self.peer_write(T.enc_ack(flags, tid, total))
            elif event[1] == 'stray':
                # an out-of-place message (acknowledgement / refusal of a transfer that does not exist)
                self.done['stray'] = True
                if self.opts['stray'] == 'ack-final-early':
                    tid = self.started[-1]
                    self.peer_write(T.enc_ack(1, tid, len(bytes.fromhex(self.params['queued'][tid - 1]))))
                else:
                    self.peer_write(T.enc_ack(3, 99, 2) if self.opts['stray'] == 'ack' else T.enc_refuse(1, 99))
            elif event[1] == 'refuse':
                self.done['refuse'] = True
                tid = self.started[-1]
                if self.opts['refuse'] == 'completed':
                    tid = [o[0] for o in self.outstanding if o[0] in self.ended][0]
                self.refused.add(tid)
                self.outstanding = [o for o in self.outstanding if o[0] != tid]
                self.peer_write(T.enc_refuse(1, tid))
            viols.extend(self.collect(event))
        elif event[0] == 'user':
            self.done['user_term'] = True
            res = self.bus_call(self.proc, PATH, 'terminate', 0, iface=IFACE)
            self.user_results.append(res[0])
            viols.extend(self.collect(event))
        else:
            (more, _eff) = PeerWorld.apply(self, event)
            viols.extend(more)
        # the peer reads whatever R wrote
        pipe = self.conns[0].buf[1 - self.ridx]
        if pipe:
            del pipe[:]
        self.absorb()
        viols.extend(self.judge())
        return viols, True

    def v(self, kind, sig, detail):
        return Violation(self.prop, 'scripted-peer', kind, sig, detail)

    def judge(self):
        out = []
        if self.escaped:
            esc = self.escaped[-1]
            out.append(self.v('escaped-exception', dict(exc=esc[0]), '%s: %s' % (esc[0], esc[2])))
        if self.malformed is not None:
            out.append(self.v('undecodable-octets-written', dict(), 'the octets R wrote are not a sequence of RFC 9174 messages: %s' % self.malformed))
        if self.r_term_seen > 1:
            out.append(self.v('second-sess-term', dict(), 'R wrote SESS_TERM %d times' % self.r_term_seen))
        if self.start_after_term:
            out.append(self.v('transfer-started-after-sess-term', dict(), 'transfers started %r' % (self.started,)))
        # (what the endpoint has produced runs ahead of what is on the wire, so "being sent" is read from the endpoint:
        # the transfer it is still cutting into segments)
        tmp = getattr(self.handler(), '_tx_tmp', None)
        for sig in self.signals:
            if sig[0] == 'send_bundle_finished' and sig[3] == 'success' and tmp is not None and str(getattr(tmp, 'transfer_id', None)) == str(sig[1]):
                out.append(self.v('transfer-reported-finished-before-it-was-sent', dict(),
                                  'transfer %s reported as sent successfully while the endpoint is still producing its segments (written so far: %r)'
                                  % (sig[1], {k: len(v) for (k, v) in self.sent_data.items()})))
        fins = [sig[1] for sig in self.signals if sig[0] == 'send_bundle_finished']
        for bid in set(fins):
            if fins.count(bid) > 1:
                out.append(self.v('transfer-finished-twice', dict(), 'id %s' % bid))
        return out

    def check_state(self):
        '''Terminal states (nothing enabled): once both SESS_TERM have crossed and every segment R
        wrote is acknowledged or its transfer refused, R must have closed on its own, every transfer
        it started completed or was refused, and everything queued has been reported.'''
        out = []
        if self.enabled_events():
            return out
        if (self.opts['stray'] or self.opts['refuse'] == 'completed') and not self.r_closed():
            # own transfers unaffected by the out-of-place message / by the refusal of another transfer:
            # everything was written intact and reported once
            fins = dict((sig[1], sig[3]) for sig in self.signals if sig[0] == 'send_bundle_finished')
            for (k, hexdata) in enumerate(self.params['queued']):
                tid = k + 1
                if tid in self.refused:
                    continue
                if self.sent_data.get(tid, b'') != bytes.fromhex(hexdata):
                    out.append(self.v('own-transfer-corrupted-on-the-wire', dict(), 'transfer %d: wrote %r, queued %s' % (tid, self.sent_data.get(tid), hexdata)))
                elif fins.get(str(tid)) != 'success':
                    out.append(self.v('own-transfer-not-reported', dict(), 'transfer %d acknowledged in full, finished signals %r' % (tid, fins)))
        if self.r_closed():
            fins = dict((sig[1], sig[3]) for sig in self.signals if sig[0] == 'send_bundle_finished')
            for (k, res) in enumerate(self.user_results_of_send()):
                if res is not None and str(res) not in fins:
                    out.append(self.v('queued-bundle-never-reported', dict(), 'id %s; finished signals %r' % (res, fins)))
            for tid in self.started:
                if tid not in self.refused and fins.get(str(tid)) != 'success' and self.r_term_seen and self.done['peer_term']:
                    out.append(self.v('started-transfer-not-completed', dict(), 'id %d: %r' % (tid, fins.get(str(tid)))))
            return out
        if self.r_term_seen and self.done['peer_term'] and not self.outstanding:
            out.append(self.v('terminated-session-never-closes', dict(refused=bool(self.refused)),
                              'both SESS_TERM exchanged, nothing outstanding (acknowledged %r, refused %r), '
                              'R stays open in state %r' % (self.acked, sorted(self.refused), [s[1] for s in self.signals if s[0] == 'session_state_changed'][-1:])))
        return out

    def user_results_of_send(self):
        # ids handed out for the bundles queued at start (in order)
        return list(range(1, len(self.params['queued']) + 1))

    def outcome(self):
        return 'closed=%s refused=%s' % (self.r_closed(), sorted(self.refused))


# ---------------------------------------------------------------------------
# the agent level: Agent.shutdown() with several contacts

def run_agent_shutdown(params, known):
    '''A real tcpcl Agent with 1-3 contacts (outgoing and accepted), each to a real
    ContactHandler in its own process.  Some contacts carry a two-segment transfer in one
    or the other direction.  The user calls Agent.shutdown() after k scheduler steps, for every
    k up to the end of the run, under every rotation-fair schedule given by a priority order of
    the processes.  At the end every transfer that had started must have completed and been
    delivered intact, every queued bundle reported, every connection closed on both sides, each
    contact announced closed once, and the agent stopped exactly once - and not before.'''
    import itertools
    from ..agent_world import AgentWorld, AGENT_PATH, AGENT_IFACE, CONTACT_IFACE
    PPATH = '/org/ietf/dtn/tcpcl/Contact0'
    violations = []
    kinds = set()
    count = 0
    keys = set()
    (part, parts) = (params['part'], params['parts'])
    data_x = bytes(range(0xa0, 0xa5))
    data_p = bytes(range(0xb0, 0xb6))

    def viol(kind, sig, detail, case):
        key = (kind, tuple(sorted(sig.items())))
        if key in kinds:
            return
        kinds.add(key)
        v = Violation(PROP, 'agent-shutdown', kind, sig, '%r: %s' % (case, detail)).as_dict()
        v['case'] = case
        violations.append(v)

    configs = []
    for contacts in (['out'], ['in'], ['out', 'out'], ['out', 'in'], ['in', 'in'], ['out', 'in', 'out']):
        n = len(contacts)
        # workloads: per contact none / X sends / the peer sends; at least one idle contact when n > 1
        for load in itertools.product(('idle', 'x-sends', 'p-sends'), repeat=n):
            if n > 1 and 'idle' not in load:
                continue
            if n == 3 and load.count('idle') != 1:
                continue
            configs.append((contacts, load, False))
    # a peer asks for termination at the same time (its SESS_TERM may already be answered, with the
    # reply not yet written or a transfer of X still awaiting its acknowledgement, when the user asks)
    for contacts in (['out'], ['in'], ['out', 'out'], ['out', 'in'], ['in', 'out']):
        for load in itertools.product(('idle', 'p-terms', 'x-sends+p-terms'), repeat=len(contacts)):
            if all(what == 'idle' for what in load):
                continue
            configs.append((contacts, load, False))
    # the user asks while the contacts are still being set up (k steps after their creation)
    for contacts in (['out'], ['in'], ['out', 'in'], ['in', 'out']):
        configs.append((contacts, tuple('idle' for _ in contacts), True))
    idx = -1
    for (contacts, load, early) in configs:
        names = ['X'] + ['P%d' % i for i in range(len(contacts))]
        orders = [(names[k:] + names[:k], True) for k in range(len(names))] + [(list(reversed(names)), True)]
        if len(contacts) > 1 and not early:
            # strict priorities: one peer is slow (it runs only when nobody else has anything to do),
            # so its acknowledgements and replies come after everything else has settled
            orders += [([n for n in names if n != slow] + [slow], False) for slow in names[1:]]
        for (order, rotate) in orders:
            idx += 1
            if idx % parts != part:
                continue
            k = 0
            while True:
                case = dict(contacts=contacts, load=list(load), order=order, shutdown_after=k, early=early)
                if not rotate:
                    case['schedule'] = 'strict priorities'
                w = AgentWorld(dict(contacts=contacts))
                if not early:
                    w.run_policy(order)                 # all sessions established
                paths = [str(p) for p in w.x_contacts()[1]]
                if not early and len(paths) != len(contacts):
                    viol('contact-missing-after-setup', dict(), repr(paths), case)
                    break
                # X's contact object of contact i: outgoing ones are numbered in creation order first
                peer_of = {}
                for path in paths:
                    prm = w.bus_call(w.procs['X'], path, 'get_session_parameters', iface=CONTACT_IFACE)
                    peer_of[path] = str(prm[1]['peer_nodeid']) if prm[0] == 'ok' and 'peer_nodeid' in prm[1] else None
                by_peer = {v: kk for (kk, v) in peer_of.items()}
                sent = []
                for (i, what) in enumerate(load):
                    xpath = by_peer.get('dtn://p%d/' % i)
                    if what.startswith('x-sends'):
                        res = w.bus_call(w.procs['X'], xpath, 'send_bundle_data', data_x, iface=CONTACT_IFACE)
                        sent.append(('X', xpath, 'P%d' % i, PPATH, data_x, str(res[1]) if res[0] == 'ok' else None))
                    elif what == 'p-sends':
                        res = w.bus_call(w.procs['P%d' % i], PPATH, 'send_bundle_data', data_p, iface=CONTACT_IFACE)
                        sent.append(('P%d' % i, PPATH, 'X', xpath, data_p, str(res[1]) if res[0] == 'ok' else None))
                    if what.endswith('p-terms'):
                        w.bus_call(w.procs['P%d' % i], PPATH, 'terminate', 0, iface=CONTACT_IFACE)
                done = 0
                live = list(order)
                while done < k:
                    for (j, name) in enumerate(live):
                        if w.step(name):
                            if rotate:
                                live = live[j + 1:] + live[:j + 1]
                            done += 1
                            break
                    else:
                        break
                exhausted = done < k
                res = w.bus_call(w.procs['X'], AGENT_PATH, 'shutdown', iface=AGENT_IFACE)
                stops_at_call = w.stops
                w.collect(('user',))
                try:
                    w.run_policy(live, rotate=rotate)
                except Exception as err:
                    viol('run-does-not-end', dict(), str(err), case)
                    break
                count += 1
                keys.add('%s/%s/%s%s/%d/%s' % ('+'.join(contacts), '+'.join(load), ''.join(order), '' if rotate else '!', k, early))
                sig = w.sig
                # the watch of a listening socket that was closed earlier in the same loop iteration still fires
                # once (accept() then fails with EBADF and the watch goes away): no contact is concerned
                sig.escaped = [e for e in sig.escaped if not (e[1] == 'OSError' and 'Bad file descriptor' in e[2] and 'in _accept' in e[3])]
                if sig.escaped:
                    viol('escaped-exception', dict(exc=sig.escaped[-1][1]), '%s: %s' % (sig.escaped[-1][1], sig.escaped[-1][2]), case)
                if sig.marshal_errors:
                    viol('signal-or-return-does-not-fit-signature', dict(), repr(sig.marshal_errors[-1]), case)
                if res[0] != 'ok':
                    viol('shutdown-call-failed', dict(), repr(res), case)
                open_ends = [(c.name, e) for c in w.conns for e in (0, 1) if not c.closed[e]]
                if open_ends:
                    viol('connection-left-open-after-shutdown', dict(), repr(open_ends), case)
                if w.stops != 1:
                    viol('agent-stopped-%d-times' % w.stops, dict(), 'on_stop callback count %d (at the time shutdown() returned: %d)' % (w.stops, stops_at_call), case)
                started = {}
                finished = {}
                for (pname, path, member, args) in sig.log:
                    if member == 'send_bundle_started':
                        started[(pname, path, args[0])] = True
                    elif member == 'send_bundle_finished':
                        finished.setdefault((pname, path, args[0]), []).append(args[2])
                for (sp, spath, rp, rpath, data, bid) in sent:
                    fin = finished.get((sp, spath, bid), [])
                    if len(fin) != 1:
                        viol('queued-bundle-not-reported-exactly-once', dict(), '%s %s id %s: %r' % (sp, spath, bid, fin), case)
                        continue
                    got = [args for (pn, pth, member, args) in sig.log if pn == rp and member == 'recv_bundle_finished']
                    if started.get((sp, spath, bid)) and fin[0] != 'success':
                        viol('started-transfer-cut-by-shutdown', dict(), '%s %s id %s finished %r' % (sp, spath, bid, fin[0]), case)
                    if fin[0] == 'success' and not any(a[1] == len(data) and a[2] == 'success' for a in got):
                        viol('success-without-reception', dict(), 'receiver signals %r' % (got,), case)
                closed = [args[0] for (pn, pth, member, args) in sig.log if pn == 'X' and member == 'connection_closed']
                if early:
                    if len(closed) != len(set(closed)):
                        viol('contacts-not-announced-closed-once', dict(), 'closed %r' % (closed,), case)
                elif sorted(closed) != sorted(paths):
                    viol('contacts-not-announced-closed-once', dict(), 'closed %r, contacts %r' % (closed, paths), case)
                if exhausted:
                    break
                k += 1
    kn, out_v = [], []
    for v in violations:
        ent = known.match(v) if known is not None else None
        (kn if ent else out_v).append(dict(v, entry=ent) if ent else v)
    return dict(name=params['name'], evaluations=count, nontrivial_keys=sorted(keys), violations=out_v, known=kn, samples=[])


def run_peer_reset(params, known):
    """The peer vanishes abortively (the connection is reset): the endpoint's next read fails with ECONNRESET.
    At every stage - idle session, after its own terminate(), its own transfer unacknowledged, an inbound transfer half
    received, both SESS_TERM exchanged with a transfer outstanding - the endpoint ends with its socket closed and its
    contact announced closed, and no exception leaves a callback."""
    import itertools
    violations = []
    kinds = set()
    keys = set()
    count = 0

    def viol(kind, detail, case):
        if kind in kinds:
            return
        kinds.add(kind)
        v = Violation(params.get('prop', PROP), 'termination', kind, dict(), '%r: %s' % (case, detail)).as_dict()
        v['case'] = case
        violations.append(v)
    stages = ('negotiating', 'idle-session', 'after-terminate', 'own-transfer-unacknowledged', 'own-transfer-unacknowledged+terminate',
              'inbound-half-received', 'inbound-half-received+terminate', 'both-terminating-transfer-outstanding')
    for (role, stage, idle) in itertools.product(('passive', 'active'), stages, (0, 5)):
        count += 1
        case = dict(role=role, peer_reset_when=stage, idle_time=idle)
        queued = (bytes(range(0xa0, 0xa3)).hex(),) if 'own-transfer' in stage or stage.startswith('both') else ()
        w = PeerWorld(dict(role=role, idle=idle, keepalive=0, seg_mru=64, tx_init=64, queued=queued))
        w.peer_write(T.enc_contact(0))
        w.quiesce()
        if stage != 'negotiating':
            w.peer_write(T.enc_sess_init(0, 64, 1000, b'dtn://p/'))
            w.quiesce()
        if stage.startswith('inbound'):
            w.peer_write(T.enc_segment(2, 7, b'ab', [T.ext_total_length(4)]))
            w.quiesce()
        if 'terminat' in stage and stage != 'negotiating':
            w.bus_call(w.proc, PATH, 'terminate', 0, iface=IFACE)
            w.quiesce()
        if stage.startswith('both'):
            w.peer_write(T.enc_sess_term(1, 0))
            w.quiesce()
        w.peer_reset()
        w.quiesce()
        for _ in range(4):
            if w.r_closed() or w.next_deadline() is None:
                break
            w.apply(('tick',))
            w.quiesce()
        keys.add('%s/%s/%d' % (role, stage, idle))
        if w.escaped:
            viol('exception-escaped-callback', '%s: %s' % (w.escaped[-1][0], w.escaped[-1][2]), case)
        elif not w.r_closed():
            viol('connection-left-half-open-after-a-reset', 'the socket is still open, state %r' % (w.handler().get_session_state(),), case)
        # (as for close() and an orderly end of stream, nothing is demanded about a transfer that had started)
    return dict(name=params['name'], evaluations=count, nontrivial_keys=sorted(keys), violations=violations, known=[], samples=[])


def run_narrow_path(params, known):
    """Termination under back-pressure: each direction of the connection holds at most `pipe` octets in flight
    (every write is short and blocks until the peer has read).  One or both users terminate, with and without a
    transfer under way, under four fair schedules and two read sizes.  Judged by the same monitors as the state
    graphs (wire sequencing, delivery, termination) on every step and at the end of the run."""
    import itertools
    prop = params.get('prop', PROP)
    violations = []
    kinds = set()
    keys = set()
    count = 0
    term = ('terminate', 0)
    s5 = ('send', hexn(5))
    s40 = ('send', hexn(40, 0x20))
    loads = {'termA': ([term], []), 'termB': ([], [term]), 'termA|termB': ([term], [term]), 'A5+termA|termB': ([s5, term], [term]),
             'A40+termA': ([s40, term], []), 'A40|termB': ([s40], [term]), 'A5+termA|B40': ([s5, term], [s40])}
    combos = [(l, p, c, pol, wh, 'fast') for (l, p, c, pol, wh) in itertools.product(sorted(loads), (1, 2, 3, 7, 16), (9, 10240),
                                                                                      ('rr-A', 'rr-B', 'burst-A', 'burst-B'), ('at-once', 'later'))]
    # a slow path as well: one second passes after every fourth callback, both sides run keepalive (5 s) and idle (30 s)
    # timers; a 300-octet segment takes longer to cross than keepalive plus idle time, its receiver asks for termination
    # meanwhile and has nothing to say but KEEPALIVE - the transfer still completes
    s300 = ('send', hexn(300, 0x30))
    loads.update({'A300|termB': ([s300], [term]), 'A5+termA|B300': ([s5, term], [s300])})
    combos += [(l, p, 10240, pol, wh, 'slow') for (l, p, pol, wh) in itertools.product(('A300|termB', 'A5+termA|B300'), (2, 3),
                                                                                      ('rr-A', 'rr-B', 'burst-A', 'burst-B'), ('at-once', 'later'))]
    for (lname, pipe, chunk, policy, when, link) in combos:
        count += 1
        case = dict(load=lname, pipe=pipe, read_chunk=chunk, schedule=policy, user_calls=when, link=link)
        (sa, sb) = loads[lname]
        prm = dict(scripts={'A': list(sa), 'B': list(sb)}, pipe=pipe, chunk=chunk)
        if link == 'slow':
            prm.update(keepalive={'A': 5, 'B': 5}, idle={'A': 30, 'B': 30}, seg_mru={'A': 400, 'B': 400}, tx_init={'A': 400, 'B': 400})
        w = TcpclWorld(prm)
        wire = WireMonitor(prop)
        dlv = DeliveryMonitor(prop, expect_all=False)
        w.monitors = [wire, dlv, TerminationMonitor(prop, delivery=dlv, wire=wire), EscapeMonitor(prop)]
        order = ['A', 'B'] if policy.endswith('A') else ['B', 'A']
        favoured = order[0]
        burst = 0
        steps = 0
        held = 0
        found = []
        while steps < 60000 and not found:
            steps += 1
            evs = w.enabled_events()
            user = [e for e in evs if e[0] == 'user' and w.handler(e[1]).get_session_state() == 'established']
            runs = {e[1]: e for e in evs if e[0] == 'run'}
            pick = None
            if user and (when == 'at-once' or held >= 3 or not runs):
                pick = user[0]
                held = 0
            else:
                held += 1 if user else 0
                for name in order:
                    if name in runs:
                        pick = runs[name]
                        burst = burst + 1 if name == favoured else 0
                        if policy.startswith('rr') or name != favoured or burst >= 4:
                            order = [n for n in order if n != name] + [name]
                            burst = 0
                        break
            if pick is None:
                if link == 'slow' and w.next_deadline() is not None and not all(w.conns[0].closed):
                    w.clock.now_us = max(w.clock.now_us, w.next_deadline())
                    continue
                break
            if pick[0] == 'tick':
                continue
            (vs, _e) = w.apply(pick)
            found.extend(vs)
            if link == 'slow' and steps % 4 == 0:
                w.clock.now_us += 1000000
        else:
            if not found:
                found.append(Violation(prop, 'termination', 'run-does-not-end', dict(), 'still busy after %d steps' % steps))
        if not found:
            found.extend(w.check_final())
        keys.add('%s/%d/%d/%s/%s/%s' % (lname, pipe, chunk, policy, when, link))
        for v in found:
            if v.kind in kinds:
                continue
            kinds.add(v.kind)
            d = v.as_dict()
            d['detail'] = '%r: %s' % (case, d['detail'])
            d['case'] = case
            violations.append(d)
    return dict(name=params['name'], evaluations=count, nontrivial_keys=sorted(keys), violations=violations, known=[], samples=[])


def build(params):
    if params.get('scripted_peer'):
        return TermPeerWorld(params)
    world = TcpclWorld(params)
    wire = WireMonitor(PROP)
    dlv = DeliveryMonitor(PROP, expect_all=False)
    world.monitors = [wire, dlv, TerminationMonitor(PROP, delivery=dlv, wire=wire), EscapeMonitor(PROP)]
    return world


def _scen(name, scripts, dev_bound=0, weight=1, **over):
    params = dict(scripts=scripts, devs=DEVS if dev_bound else ())
    params.update(over)
    return dict(name=name, kind='graph', params=params, dev_bound=dev_bound, weight=weight, max_states=600000)


def scenarios(tier):
    s5 = ('send', hexn(5))
    s1 = ('send', hexn(1, 0xb0))
    s1b = ('send', hexn(1, 0xb8))
    s3 = ('send', hexn(3, 0xc0))
    term = ('terminate', 0)
    close = ('close',)
    out = []
    out.append(_scen('termA-idle-d1', {'A': [term], 'B': []}, dev_bound=1, weight=5))
    out.append(_scen('termB-idle-d1', {'A': [], 'B': [term]}, dev_bound=1, weight=5))
    out.append(_scen('termA|termB-d1', {'A': [term], 'B': [term]}, dev_bound=1, weight=10))
    out.append(_scen('A5+termA', {'A': [s5, term], 'B': []}, dev_bound=0, weight=30))
    out.append(_scen('A5|termB', {'A': [s5], 'B': [term]}, dev_bound=0, weight=30))
    out.append(_scen('A1+termA-d1', {'A': [s1, term], 'B': []}, dev_bound=1, weight=40))
    out.append(_scen('A1|termB', {'A': [s1], 'B': [term]}, dev_bound=0, weight=20))
    out.append(_scen('A1+A1+termA', {'A': [s1, s1b, term], 'B': []}, dev_bound=0, weight=30))
    out.append(_scen('closeA-anywhere-d1', {'A': [s5, close], 'B': []}, dev_bound=1, weight=30))
    out.append(_scen('closeB-anywhere', {'A': [s5], 'B': [close]}, dev_bound=0, weight=30))
    # scripted conforming peer (acknowledges, terminates, may refuse the transfer in progress)
    for role in ('passive', 'active'):
        for (label, opts) in (('user-term+refusal', dict(refuse=True, user_term=True, peer_term=True)),
                              ('peer-term+refusal', dict(refuse=True, user_term=False, peer_term=True)),
                              ('user-term', dict(refuse=False, user_term=True, peer_term=True))):
            nm = 'peer/%s/%s' % (role, label)
            out.append(dict(name=nm, kind='graph', params=dict(scripted_peer=True, role=role, bundles=[hexn(9)], **opts),
                            dev_bound=0, weight=15, max_states=600000, liveness=False))
    for part in range(8):
        if part == 0:
            out.append(dict(name='narrow-path', kind='enum', runner='run_narrow_path', params=dict(name='narrow-path'), weight=20))
            out.append(dict(name='peer-reset', kind='enum', runner='run_peer_reset', params=dict(name='peer-reset'), weight=5))
        nm = 'agent-shutdown-%d/8' % (part + 1)
        out.append(dict(name=nm, kind='enum', runner='run_agent_shutdown', params=dict(name=nm, part=part, parts=8), weight=25))
    if tier == 'thorough':
        for role in ('passive', 'active'):
            nm = 'peer/%s/two-bundles+refusal' % role
            out.append(dict(name=nm, kind='graph', params=dict(scripted_peer=True, role=role, bundles=[hexn(9), hexn(5, 0xb0)],
                                                               refuse=True, user_term=True, peer_term=True),
                            dev_bound=0, weight=60, max_states=600000, liveness=False))
        out.append(_scen('A1|termB-d1', {'A': [s1], 'B': [term]}, dev_bound=1, weight=60))
        out.append(_scen('A1+termA|B1', {'A': [s1, term], 'B': [s1b]}, dev_bound=0, weight=90))
        out.append(_scen('A1+termA|termB', {'A': [s1, term], 'B': [term]}, dev_bound=0, weight=60))
        out.append(_scen('closeB-anywhere-d1', {'A': [s5], 'B': [close]}, dev_bound=1, weight=30))
        out.append(_scen('A5+termA-d1', {'A': [s5, term], 'B': []}, dev_bound=1, weight=60))
        out.append(_scen('A5|termB-d1', {'A': [s5], 'B': [term]}, dev_bound=1, weight=60))
        out.append(_scen('A3+termA|B1', {'A': [s3, term], 'B': [s1]}, dev_bound=0, weight=100))
        out.append(_scen('A5+termA|B3+termB', {'A': [s5, term], 'B': [s3, term]}, dev_bound=0, weight=100))
        out.append(_scen('A5+A1+termA', {'A': [s5, s1, term], 'B': []}, dev_bound=0, weight=60))
        out.append(_scen('termA|termB-d2', {'A': [term], 'B': [term]}, dev_bound=2, weight=30))
        out.append(_scen('closeA|closeB', {'A': [s1, close], 'B': [close]}, dev_bound=0, weight=30))
    return out


ASSUMPTIONS = [
    'TCP modelled as a reliable FIFO byte pipe with short reads/writes and EAGAIN; no resets',
    'terminate() before the session is established is answered with an error reply and counts as refused',
    'for close()/peer disconnect only "no half-open session, no escaped exception" is required',
    'liveness is judged on bottom SCCs of the complete state graph (weak fairness of the event loop)',
    'agent level (enumeration, not all interleavings): 1-3 contacts, outgoing and accepted, idle or carrying one two-segment transfer either way; Agent.shutdown() after every number of scheduler steps under each rotation-fair schedule given by the cyclic priority orders of the processes and the reversed order',
    'scripted-peer graphs: a conforming peer that reads at once, acknowledges in order, sends its SESS_TERM at any point and may refuse the transfer in progress at any point; in terminal states with both SESS_TERM exchanged and nothing outstanding the endpoint must have closed by itself',
]

RULE = ('explicit-state BFS over two real ContactHandler objects with user terminate()/close() enabled at '
        'every between-iteration point; SESS_TERM counting/reply flag/no-new-transfer on every transition; '
        'closure, completion of started transfers and reporting of unstarted ones on every bottom SCC')


def evidence(tier, seed, scens, results, wall_s):
    graphs = [r for r in results if r and r.get('kind') == 'graph']
    enums = [r for r in results if r and r.get('kind') == 'enum']
    ev = graph_evidence(PROP, tier, seed, [sc for sc in scens if sc['kind'] == 'graph'], graphs, wall_s, ASSUMPTIONS, RULE)
    cov = ev['coverage']
    cov['evaluations'] = sum(r.get('evaluations', 0) for r in enums)
    cov['exhaustive'] = cov['exhaustive'] and len([r for r in results if r and r.get('kind') != 'error']) == len(results)
    return ev
