'''C09 - TCPCL termination is graceful, complete and always finishes.

terminate() / close() requested by either or both users at every
between-iteration point of executions with transfers in progress; safety
monitors on every transition, "both sockets closed, everything reported" on
every bottom SCC of the state graph.'''
from ..tcpcl_world import TcpclWorld
from ..monitors import EscapeMonitor, DeliveryMonitor, WireMonitor, TerminationMonitor
from ..evidence import graph_evidence
from .c01 import hexn, DEVS

PROP = 'C09'


def build(params):
    world = TcpclWorld(params)
    wire = WireMonitor(PROP)
    dlv = DeliveryMonitor(PROP, expect_all=False)
    world.monitors = [wire, dlv, TerminationMonitor(PROP, delivery=dlv, wire=wire), EscapeMonitor(PROP)]
    return world


def _scen(name, scripts, dev_bound=0, weight=1, **over):
    params = dict(scripts=scripts, devs=DEVS if dev_bound else ())
    params.update(over)
    return dict(name=name, kind='graph', params=params, dev_bound=dev_bound, weight=weight, max_states=600000)


def scenarios(tier):
    s5 = ('send', hexn(5))
    s1 = ('send', hexn(1, 0xb0))
    s1b = ('send', hexn(1, 0xb8))
    s3 = ('send', hexn(3, 0xc0))
    term = ('terminate', 0)
    close = ('close',)
    out = []
    out.append(_scen('termA-idle-d1', {'A': [term], 'B': []}, dev_bound=1, weight=5))
    out.append(_scen('termB-idle-d1', {'A': [], 'B': [term]}, dev_bound=1, weight=5))
    out.append(_scen('termA|termB-d1', {'A': [term], 'B': [term]}, dev_bound=1, weight=10))
    out.append(_scen('A5+termA', {'A': [s5, term], 'B': []}, dev_bound=0, weight=30))
    out.append(_scen('A5|termB', {'A': [s5], 'B': [term]}, dev_bound=0, weight=30))
    out.append(_scen('A1+termA-d1', {'A': [s1, term], 'B': []}, dev_bound=1, weight=40))
    out.append(_scen('A1|termB', {'A': [s1], 'B': [term]}, dev_bound=0, weight=20))
    out.append(_scen('A1+A1+termA', {'A': [s1, s1b, term], 'B': []}, dev_bound=0, weight=30))
    out.append(_scen('closeA-anywhere-d1', {'A': [s5, close], 'B': []}, dev_bound=1, weight=30))
    out.append(_scen('closeB-anywhere', {'A': [s5], 'B': [close]}, dev_bound=0, weight=30))
    if tier == 'thorough':
        out.append(_scen('A1|termB-d1', {'A': [s1], 'B': [term]}, dev_bound=1, weight=60))
        out.append(_scen('A1+termA|B1', {'A': [s1, term], 'B': [s1b]}, dev_bound=0, weight=90))
        out.append(_scen('A1+termA|termB', {'A': [s1, term], 'B': [term]}, dev_bound=0, weight=60))
        out.append(_scen('closeB-anywhere-d1', {'A': [s5], 'B': [close]}, dev_bound=1, weight=30))
        out.append(_scen('A5+termA-d1', {'A': [s5, term], 'B': []}, dev_bound=1, weight=60))
        out.append(_scen('A5|termB-d1', {'A': [s5], 'B': [term]}, dev_bound=1, weight=60))
        out.append(_scen('A3+termA|B1', {'A': [s3, term], 'B': [s1]}, dev_bound=0, weight=100))
        out.append(_scen('A5+termA|B3+termB', {'A': [s5, term], 'B': [s3, term]}, dev_bound=0, weight=100))
        out.append(_scen('A5+A1+termA', {'A': [s5, s1, term], 'B': []}, dev_bound=0, weight=60))
        out.append(_scen('termA|termB-d2', {'A': [term], 'B': [term]}, dev_bound=2, weight=30))
        out.append(_scen('closeA|closeB', {'A': [s1, close], 'B': [close]}, dev_bound=0, weight=30))
    return out


ASSUMPTIONS = [
    'TCP modelled as a reliable FIFO byte pipe with short reads/writes and EAGAIN; no resets',
    'terminate() before the session is established is answered with an error reply and counts as refused',
    'for close()/peer disconnect only "no half-open session, no escaped exception" is required',
    'liveness is judged on bottom SCCs of the complete state graph (weak fairness of the event loop)',
]

RULE = ('explicit-state BFS over two real ContactHandler objects with user terminate()/close() enabled at '
        'every between-iteration point; SESS_TERM counting/reply flag/no-new-transfer on every transition; '
        'closure, completion of started transfers and reporting of unstarted ones on every bottom SCC')


def evidence(tier, seed, scens, results, wall_s):
    return graph_evidence(PROP, tier, seed, scens, results, wall_s, ASSUMPTIONS, RULE)
