'''C19 - status reports are sent exactly when requested and say what happened.

Decision-table enumeration: all 32 combinations of the report-request flags
(reception, forwarding, delivery, deletion, status time) x report-to
{dtn:none, a node, a node with a clockless subject} x 19 processing outcomes
(deliver, forward, forward with fragmentation, delete by route, no matching
route, three kinds of security failure, forward without transmit route,
route MTU below the headers (with and without payload octets), first fragment
only, duplicate, the node's own administrative endpoint under a receive table whose first match says forward or delete).  Every administrative record the real
agent hands to the convergence layer is decoded by the independent decoder and
compared with a reference report generator.'''
import itertools
import re

from ..bp_world import BpWorld
from ..world import Violation
from ..oracle import bpv7 as B
from ..evidence import enum_evidence

PROP = 'C19'
NODE = 'dtn://node/'

REQ = {'receive': B.FLAG_REQ_RECEPTION, 'forward': B.FLAG_REQ_FORWARD, 'deliver': B.FLAG_REQ_DELIVERY, 'delete': B.FLAG_REQ_DELETION}
ORDER = ['receive', 'forward', 'deliver', 'delete']   # order of the status assertions in the record

OUTCOMES = {
    # name: (destination, occurred actions, data bundles expected at the CL)
    'deliver': ('dtn://node/app', {'receive', 'deliver'}),
    'forward': ('dtn://far/app', {'receive', 'forward'}),
    'forward-fragmented': ('dtn://farfrag/app', {'receive', 'forward'}),
    'delete-by-route': ('dtn://drop/app', {'receive', 'delete'}),
    'no-matching-route': ('xyz://nowhere/app', {'receive'}),
    'security-failure': ('dtn://node/secure', {'receive', 'delete'}),
    'security-failure-bcb-context': ('dtn://node/secure', {'receive', 'delete'}),
    'security-failure-bcb-undecodable': ('dtn://node/secure', {'receive', 'delete'}),
    'forward-without-tx-route': ('dtn://orphan/app', {'receive', 'delete'}),
    'duplicate': ('dtn://node/app', set()),
    # the transmit chain fails (route MTU smaller than the headers): nothing leaves the node
    'forward-mtu-too-small': ('dtn://fartiny/app', {'receive', 'delete'}),
    # only the first of two fragments of a bundle for a local endpoint has arrived: nothing is delivered
    'fragment-incomplete': ('dtn://node/app', {'receive'}),
    # a bundle without payload octets whose blocks alone exceed the route MTU: nothing can leave the node
    'forward-mtu-too-small-empty-payload': ('dtn://fartiny/app', {'receive', 'delete'}),
    # the node's own administrative endpoint, claimed by the administrative application, while the first
    # matching entry of the receive table says forward / delete: it is delivered, nothing else
    'own-endpoint-under-forward-table': ('dtn://node/', {'receive', 'deliver'}),
    'own-endpoint-under-delete-table': ('dtn://node/', {'receive', 'deliver'}),
    # an integrity block whose data cannot be decoded at all, for an application endpoint and for the node's own endpoint
    'security-failure-bib-undecodable': ('dtn://node/secure', {'receive', 'delete'}),
    'own-endpoint-bib-undecodable': ('dtn://node/', {'receive', 'delete'}),
    # an endpoint whose ID merely begins with the node ID is not the administrative endpoint: the table (forward) decides
    'node-prefix-endpoint-under-forward-table': ('dtn://node/app7', {'receive', 'forward'}),
    # the convergence layer refuses the bundle (error reply to the send call) while the small report still gets through
    'forward-refused-by-the-cl': ('dtn://far/app', {'receive', 'delete'}),
}


FORWARDED = ('forward', 'forward-fragmented', 'node-prefix-endpoint-under-forward-table')
REPORT_REQUIRED = ('node-prefix-endpoint-under-forward-table', 'deliver', 'forward', 'forward-fragmented', 'delete-by-route', 'own-endpoint-under-forward-table', 'own-endpoint-under-delete-table')


def world_for(outcome):
    rx = [('^dtn://node/.*', 'deliver'), ('^dtn://drop/.*', 'delete'), ('^dtn://.*', 'forward')]
    if outcome == 'own-endpoint-under-forward-table':
        rx = [('^dtn://.*', 'forward')]
    if outcome == 'own-endpoint-under-delete-table':
        rx = [('^dtn://node/$', 'delete'), ('^dtn://.*', 'forward')]
    tx = [('^dtn://far/.*', 'dtn://next/', None), ('^dtn://farfrag/.*', 'dtn://next/', 120), ('^dtn://fartiny/.*', 'dtn://next/', 60),
          ('^dtn://rpt/.*', 'dtn://next/', None), ('^dtn://Rp/.*', 'dtn://next/', None), ('^ipn:9\\..*', 'dtn://next/', None), ('^ipn:977000\\.100\\..*', 'dtn://next/', None)]
    if outcome == 'node-prefix-endpoint-under-forward-table':
        rx = [('^dtn://.*', 'forward')]
        tx = tx + [('^dtn://node/.*', 'dtn://next/', None)]
    return BpWorld(dict(node_id=NODE, rx_routes=rx, tx_routes=tx, cl_refuse_over=(260 if outcome == 'forward-refused-by-the-cl' else None)))


def bundle_for(outcome, flags, report_to, seq=1, subject='clock'):
    dest = OUTCOMES[outcome][0]
    if outcome == 'no-matching-route':
        dest = 'ipn:77.1'
    pri = dict(flags=flags, crc_type=1, dest=dest, src='dtn://src/app', report_to=report_to,
               ts=(700000000000, seq), lifetime=3600000)
    blocks = [dict(type=1, num=1, flags=0, crc_type=1, data=bytes(range(200)) if outcome == 'forward-fragmented' else b'report-me')]
    if subject.startswith('crc'):
        # other CRC types on the subject (none / CRC-32)
        crc = int(subject[3:])
        pri['crc_type'] = crc
        blocks[-1]['crc_type'] = crc
    if subject == 'fragment' and not pri['flags'] & B.FLAG_IS_FRAGMENT:
        # the subject is itself a fragment of a larger bundle (forwarded or deleted as such)
        pri.update(flags=pri['flags'] | B.FLAG_IS_FRAGMENT, frag_offset=100, total_adu=1000)
    if subject == 'ipn3':
        # three-number ipn endpoint IDs as the subject's source (its report-to is given by the caller)
        pri.update(src='ipn:977000.5.1')
    if subject == 'odd-eids':
        # endpoint IDs whose node name has capitals and whose demux part is only a query
        pri.update(src='dtn://Sr/?s=7')
    if subject == 'clockless':
        # a source without a clock: creation time zero, told apart by the sequence number, with an age block
        pri.update(ts=(0, 7 + seq))
        blocks.insert(0, dict(type=B.T_AGE, num=3, flags=0, crc_type=0, data=B.enc_age(5000)))
    if outcome == 'forward-mtu-too-small':
        blocks[-1]['data'] = bytes(range(100))
    if outcome == 'forward-refused-by-the-cl':
        blocks[-1]['data'] = bytes(range(250))
    if outcome == 'forward-mtu-too-small-empty-payload':
        blocks[-1]['data'] = b''
        blocks.insert(0, dict(type=B.T_HOP_COUNT, num=4, flags=0, crc_type=1, data=B.enc_hop_count(30, 1)))
    if outcome.startswith('own-endpoint-under-'):
        # a status report about some other bundle, which the administrative application only logs
        blocks[-1]['data'] = B.enc_status_report([(True, None), (False, None), (False, None), (False, None)], 0,
                                                 'dtn://elsewhere/app', (700000000001, 3))
    if outcome == 'fragment-incomplete':
        pri.update(flags=flags | B.FLAG_IS_FRAGMENT, frag_offset=0, total_adu=40)
        blocks[-1]['data'] = bytes(range(20))
    if outcome == 'security-failure-bcb-context':
        asb = dict(targets=[1], context=99, flags=0, source='dtn://src/', params=[], results=[[(1, b'xx')]])
        blocks.insert(0, dict(type=B.T_BCB, num=2, flags=0, crc_type=0, data=B.enc_asb(asb)))
    if outcome in ('security-failure-bib-undecodable', 'own-endpoint-bib-undecodable'):
        blocks.insert(0, dict(type=B.T_BIB, num=2, flags=0, crc_type=0, data=b'\x00'))
    if outcome == 'own-endpoint-bib-undecodable':
        blocks[-1]['data'] = B.enc_status_report([(True, None), (False, None), (False, None), (False, None)], 0,
                                                 'dtn://elsewhere/app', (700000000001, 3))
    if outcome == 'security-failure-bcb-undecodable':
        blocks.insert(0, dict(type=B.T_BCB, num=2, flags=0, crc_type=0, data=b'\x01\x02\x03'))
    if outcome == 'security-failure':
        # an integrity block whose security context is unknown to the receiver
        asb = dict(targets=[1], context=99, flags=0, source='dtn://src/', params=[], results=[[(1, b'xx')]])
        blocks.insert(0, dict(type=B.T_BIB, num=2, flags=0, crc_type=0, data=B.enc_asb(asb)))
    return dict(primary=pri, blocks=blocks)


def check_case(outcome, flagbits, report_to, subject='clock'):
    flags = 0
    requested = set()
    for (i, name) in enumerate(ORDER):
        if flagbits >> i & 1:
            flags |= REQ[name]
            requested.add(name)
    want_time = bool(flagbits >> 4 & 1)
    if want_time:
        flags |= B.FLAG_STATUS_TIME
    world = world_for(outcome)
    prior = None
    base = subject
    if subject.endswith('-after') or subject.endswith('-after2'):
        # history: the same agent has already processed an earlier bundle of the same source (same creation time,
        # the sequence number before this one; no reports requested), so the subject is not the first it sees;
        # -after2: two earlier bundles, with the sequence numbers on either side of the subject's
        base = subject[:subject.rindex('-after')]
        prior = [B.encode(bundle_for(outcome, 0, 'dtn:none', seq=q, subject=base)) for q in ((0, 2) if subject.endswith('2') else (0,))]
    bundle = bundle_for(outcome, flags, report_to, subject=base)
    data = B.encode(bundle)
    label = dict(outcome=outcome, requested=sorted(requested), status_time=want_time, report_to=report_to, subject=subject)
    out = []

    def bad(kind, sig, detail):
        v = Violation(PROP, 'reports', kind, sig, '%r: %s' % (label, detail)).as_dict()
        v['case'] = dict(label=label, received=data.hex(), flagbits=flagbits)
        out.append(v)
    before = 0
    if prior is not None:
        for octets in prior:
            world.receive(octets)
            world.quiesce()
        before = len(world.sent())
    if outcome == 'duplicate':
        world.receive(data)
        world.quiesce()
        before = len(world.sent())
        world.receive(data)
        world.quiesce()
        sent = world.sent()[before:]
    else:
        world.receive(data)
        world.quiesce()
        sent = world.sent()[before:]
    if world.escaped:
        esc = world.escaped[-1]
        bad('exception-escaped-idle-callback', dict(exc=esc[0]), '%s: %s' % (esc[0], esc[2]))
    if world.api_errors:
        err = world.api_errors[-1]
        bad('exception-escaped-receive-path', dict(exc=err[0]), '%s: %s' % (err[0], err[1]))
    occurred = set(OUTCOMES[outcome][1])
    reports = []
    data_bundles = []
    for octets in sent:
        try:
            dec = B.decode(octets)
        except B.Malformed as err:
            bad('sent-octets-not-rfc9171', dict(), str(err))
            continue
        if dec['primary']['flags'] & B.FLAG_ADMIN:
            reports.append(dec)
        else:
            data_bundles.append(dec)
    if outcome in FORWARDED and not data_bundles:
        bad('bundle-not-forwarded-in-reference-scenario', dict(), 'scenario set-up expects a transmission')
    if outcome not in FORWARDED and data_bundles:
        bad('unexpected-data-bundle', dict(), '%d data bundles sent' % len(data_bundles))
    allowed = report_to != 'dtn:none' and bool(requested & occurred)
    if reports and not allowed:
        bad('report-sent-without-cause', dict(), 'report-to %s, requested %r, occurred %r, %d reports'
            % (report_to, sorted(requested), sorted(occurred), len(reports)))
    if allowed and not reports and outcome in REPORT_REQUIRED:
        bad('requested-report-missing', dict(outcome=outcome), 'requested %r, occurred %r' % (sorted(requested), sorted(occurred)))
    asserted_total = set()
    for rep in reports:
        pri = rep['primary']
        if pri['dest'] != report_to:
            bad('report-addressed-elsewhere', dict(), '%s instead of %s' % (pri['dest'], report_to))
        if pri['flags'] & (B.FLAG_REQ_RECEPTION | B.FLAG_REQ_FORWARD | B.FLAG_REQ_DELIVERY | B.FLAG_REQ_DELETION):
            bad('report-requests-reports', dict(), 'flags 0x%x' % pri['flags'])
        if not pri['crc_ok'] or not all(b['crc_ok'] for b in rep['blocks']):
            bad('crc-invalid-on-output', dict(), 'report')
        if pri['crc_type'] == 0 or any(b['crc_type'] == 0 for b in rep['blocks']):
            bad('report-without-crc', dict(), 'crc types %r' % ([pri['crc_type']] + [b['crc_type'] for b in rep['blocks']]))
        try:
            body = B.dec_status_report(B.payload(rep))
        except Exception as err:
            bad('report-payload-undecodable', dict(), '%s: %s' % (type(err).__name__, err))
            continue
        if body['subj_src'] != bundle['primary']['src'] or tuple(body['subj_ts']) != tuple(bundle['primary']['ts']):
            bad('report-names-another-subject', dict(), '%s %r' % (body['subj_src'], body['subj_ts']))
        asserted = set()
        for (name, (flag, when)) in zip(ORDER, body['status']):
            if flag:
                asserted.add(name)
                if want_time and when is None:
                    bad('status-time-missing', dict(action=name), 'time requested but absent')
                if not want_time and when is not None:
                    bad('status-time-unrequested', dict(action=name), 'time %r present though not requested' % when)
        asserted_total |= asserted
        extra = asserted - requested
        if extra:
            bad('unrequested-action-asserted', dict(actions=','.join(sorted(extra))), 'asserted %r, requested %r' % (sorted(asserted), sorted(requested)))
        phantom = asserted - occurred
        if phantom:
            bad('action-asserted-that-did-not-occur', dict(actions=','.join(sorted(phantom)), outcome=outcome),
                'asserted %r, occurred %r' % (sorted(asserted), sorted(occurred)))
        if not asserted:
            bad('empty-report', dict(), 'no assertion set')
        if outcome in FORWARDED and 'delete' in asserted:
            bad('forwarded-bundle-reported-deleted', dict(outcome=outcome), 'reason %r' % body['reason'])
    if allowed and reports and outcome in REPORT_REQUIRED:
        missing = (requested & occurred) - asserted_total
        if missing:
            bad('requested-action-not-reported', dict(actions=','.join(sorted(missing)), outcome=outcome),
                'asserted %r of requested-and-occurred %r' % (sorted(asserted_total), sorted(requested & occurred)))
    return out, bool(reports)


def run_outcome(params, known):
    outcome = params['outcome']
    violations = []
    kinds = set()
    keys = set()
    count = 0
    samples = []
    combos = [('dtn:none', 'clock'), ('dtn://rpt/x', 'clock'), ('dtn://rpt/x', 'clockless'), ('ipn:977000.100.7', 'ipn3'),
              ('dtn://Rp/?b', 'odd-eids'), ('dtn://rpt/x', 'clock-after'), ('dtn://rpt/x', 'clockless-after')]
    if params.get('tier') == 'thorough':
        combos += [('dtn://rpt/x', 'crc0'), ('dtn://rpt/x', 'crc2'), ('ipn:9.9', 'clock'), ('dtn:none', 'clockless'),
                   ('ipn:977000.100.7', 'ipn3-after'), ('dtn://rpt/x', 'clock-after2'), ('dtn://rpt/x', 'clockless-after2'),
                   ('dtn://Rp/?b', 'odd-eids-after')]
        if outcome in ('forward', 'delete-by-route', 'forward-without-tx-route', 'no-matching-route'):
            combos.append(('dtn://rpt/x', 'fragment'))
    for (report_to, subject) in combos:
        for flagbits in range(32):
            count += 1
            (found, emitted) = check_case(outcome, flagbits, report_to, subject)
            for v in found:
                key = (v['kind'], tuple(sorted(v['signature'].items())))
                if key not in kinds:
                    kinds.add(key)
                    violations.append(v)
            if emitted:
                keys.add('%s/%d/%s/%s' % (outcome, flagbits, report_to, subject))
                if not samples:
                    samples.append(dict(outcome=outcome, flagbits=flagbits, report_to=report_to))
    kn, out_v = [], []
    for v in violations:
        ent = known.match(v) if known is not None else None
        (kn if ent else out_v).append(dict(v, entry=ent) if ent else v)
    return dict(name=params['name'], evaluations=count, nontrivial_keys=sorted(keys), violations=out_v, known=kn, samples=samples)


def scenarios(tier):
    return [dict(name='outcome-%s' % o, kind='enum', runner='run_outcome', params=dict(name='outcome-%s' % o, outcome=o, tier=tier), weight=1)
            for o in OUTCOMES]


ASSUMPTIONS = [
    'an absent report-to endpoint is encoded as dtn:none (RFC 9171 has no other way to omit it)',
    'the nineteen outcomes are produced by routing tables / a BIB or BCB with an unknown security context / an undecodable BCB / a route MTU of 120 octets',
    'thorough tier: also subjects without CRC / with CRC-32, an ipn report-to endpoint, and subjects that are themselves fragments (fragment fields of the report are not judged)',
    'subjects: a bundle with a creation time, one from a clockless source (creation time 0, sequence number, age block), and one whose source and report-to are three-number ipn endpoint IDs',
    'histories: the subject is also judged as the second bundle of its source on one agent (same creation time, next sequence number; with and without a clock); thorough tier: also as the third, between the sequence numbers of two earlier ones, and with ipn / odd endpoint IDs',
    'a report is required for deliver / forward / delete-by-route / own-endpoint when a requested action occurred (the title says "exactly when requested"); for the other outcomes only reports that are emitted are judged',
]

RULE = ('decision table of 32 flag combinations x (no report-to, report-to, report-to with a clockless subject) x 19 outcomes enumerated completely on a fresh real '
        'agent each; every administrative record reaching the convergence layer is decoded independently and compared '
        'with the reference report; non-trivial = a report was emitted')


def evidence(tier, seed, scens, results, wall_s):
    return enum_evidence(PROP, 'exploration', tier, seed, scens, results, wall_s, ASSUMPTIONS, RULE)


def replay_case(body, verbose=False):
    case = body['case']
    label = case['label']
    (found, emitted) = check_case(label['outcome'], case['flagbits'], label['report_to'], label.get('subject', 'clock'))
    print('report emitted: %s' % emitted)
    for v in found:
        print(' observed %s %s: %s' % (v['kind'], v['signature'], v['detail'][:400]))
    return 1 if found else 0
