'''C16 - COSE confidentiality blocks encrypt, bind context and decrypt exactly.

Fault enumeration.  A source agent applies a BCB through its real transmit
chain (COSE_Encrypt0 with a direct key; COSE_Encrypt with a wrapped key where
the installed pycose allows it) for plaintexts of several lengths and for one
or two targets.  The transmitted octets must not contain the plaintext; a
receiver with the key must recover it exactly; every single-bit flip and a set
of field edits is fed to a receiver and judged by the independent covered-tuple
model (ciphertext, external AAD, protected bucket, unprotected headers).'''
import re

from ..bp_world import BpWorld
from ..world import Violation
from ..oracle import bpv7 as B
from ..oracle import cbor_min as C
from ..oracle import cose_aad as A
from ..evidence import enum_evidence
from .c03 import sym_key, flip, KEY, WRONG_KEY, KID, SRC, NODE, SEC_REASONS

PROP = 'C16'
ENV_LIMITED = ('enc-kw',)
LENGTHS = (0, 1, 15, 16, 17, 255, 256)
CREATION = (760000000000, 3)


def plaintext(length):
    return bytes((i * 13 + 65) & 0xFF for i in range(length))


VARIANT = 'base'


def plain_bundle(length, with_ext):
    pri = dict(flags=B.FLAG_REQ_DELETION | B.FLAG_REQ_DELIVERY, crc_type=0, dest='dtn://node/app', src=SRC + 'app',
               report_to='dtn://rpt/', ts=CREATION, lifetime=86400000)
    if VARIANT == 'no-reports':
        # nobody is to be told: no report requests, report-to is the null endpoint
        pri.update(flags=0, report_to='dtn:none')
    blocks = []
    if with_ext:
        blocks.append(dict(type=195, num=2, flags=0, crc_type=0, data=b'secret-extension-data'))
    blocks.append(dict(type=193, num=3, flags=0, crc_type=0, data=b'other-block'))
    blocks.append(dict(type=1, num=1, flags=0, crc_type=0, data=plaintext(length)))
    return dict(primary=pri, blocks=blocks)


def source_encrypt(kind, length, with_ext, mtu=None, all_sent=False):
    from bp.app.bpsec import SecAssociation, SecOperation
    from pycose import algorithms
    from .c05 import impl_container
    world = BpWorld(dict(node_id=SRC, tx_routes=[('.*', 'dtn://next/', mtu)]))
    cose = world.cose()
    ivs = [bytes(range(12)), bytes(range(20, 32))]
    if kind == 'enc0':
        key = sym_key(KEY, ['EncryptOp', 'DecryptOp'], 'A256GCM')
        tmpl = SecOperation(sec_type='bcb', role='source', priv_key_id=KID, content_iv=ivs)
    else:
        key = sym_key(KEY, ['WrapOp', 'UnwrapOp'], 'A256KW')
        tmpl = SecOperation(sec_type='bcb', role='source', priv_key_id=KID, content_alg=algorithms.A256GCM,
                            content_key=bytes(range(100, 132)), content_iv=ivs)
    cose.sym_key_store[KID] = key
    if with_ext == 'rev':
        # two associations, the one for the extension block (higher block number) first
        for typ in (195, 1):
            cose.sec_assoc.append(SecAssociation(src_pat=re.compile(re.escape(SRC) + '.*'), dst_pat=re.compile('.*'),
                                                 tgt_blk_types=[typ], templates=[tmpl]))
    else:
        cose.sec_assoc.append(SecAssociation(src_pat=re.compile(re.escape(SRC) + '.*'), dst_pat=re.compile('.*'),
                                             tgt_blk_types=[1] + ([195] if with_ext else []), templates=[tmpl]))
    world.send(impl_container(plain_bundle(length, with_ext)))
    world.quiesce()
    sent = world.sent()
    if all_sent:
        if world.api_errors or world.escaped:
            raise RuntimeError('source agent failed: %r %r' % (world.api_errors[:1], world.escaped[:1]))
        return sent
    if len(sent) != 1 or world.api_errors or world.escaped:
        raise RuntimeError('source agent did not produce one encrypted bundle: %r %r %r' % (len(sent), world.api_errors[:1], world.escaped[:1]))
    return sent[0]


def receive(data, keymode, accept):
    world = BpWorld(dict(node_id=NODE, rx_routes=[('^dtn://node/.*', 'deliver')], tx_routes=[('.*', 'dtn://next/', None)],
                         accept_after_verify=accept))
    cose = world.cose()
    if keymode == 'right':
        cose.sym_key_store[KID] = sym_key(KEY, ['EncryptOp', 'DecryptOp'], 'A256GCM')
    elif keymode == 'right-kw':
        cose.sym_key_store[KID] = sym_key(KEY, ['WrapOp', 'UnwrapOp'], 'A256KW')
    elif keymode == 'wrong':
        cose.sym_key_store[KID] = sym_key(WRONG_KEY, ['EncryptOp', 'DecryptOp'], 'A256GCM')
    elif keymode == 'wrong-kw':
        cose.sym_key_store[KID] = sym_key(WRONG_KEY, ['WrapOp', 'UnwrapOp'], 'A256KW')
    world.receive(data)
    world.quiesce()
    reasons = []
    for octets in world.sent():
        try:
            dec = B.decode(octets)
            if dec['primary']['flags'] & B.FLAG_ADMIN:
                rep = B.dec_status_report(B.payload(dec))
                if rep['status'][3][0]:
                    reasons.append(rep['reason'])
        except Exception:
            pass
    return world, list(world.probe.seen), reasons



def same_layout(data, alt):
    """Do the altered octets still parse, as plain CBOR, into the same top-level items at the same places
    (the primary block and every other block where they were)?"""
    try:
        (_i1, e1, info1) = C.load(bytes(data), 0)
        (_i2, e2, info2) = C.load(bytes(alt), 0)
    except C.DecodeError:
        return False
    return e1 == e2 and isinstance(info1, dict) and isinstance(info2, dict) and info1.get('spans') == info2.get('spans')

def classify(orig, alt_bytes):
    try:
        alt = B.decode(alt_bytes, strict=False)
    except B.Malformed:
        return 'undecodable', None
    if not alt['primary']['dest'].startswith('dtn://node/') or alt['primary']['src'] == NODE \
            or alt['primary']['flags'] & B.FLAG_IS_FRAGMENT:
        return 'not-local', alt
    try:
        t_orig = A.covered_tuples(orig, B.T_BCB)
    except A.NoTuple:
        return 'either', alt
    try:
        t_alt = A.covered_tuples(alt, B.T_BCB)
    except A.NoTuple:
        if any(b['type'] == B.T_BCB for b in alt['blocks']):
            return 'must-fail', alt
        return 'either', alt
    n_o = sum(1 for b in orig['blocks'] if b['type'] == B.T_BCB)
    n_a = sum(1 for b in alt['blocks'] if b['type'] == B.T_BCB)
    if n_o != n_a or len(t_orig) != len(t_alt):
        return 'either', alt
    for (o, a) in zip(t_orig, t_alt):
        # ciphertext, AAD, protected bucket and the unprotected headers (key id, IV) all feed the AEAD
        if o[2] != a[2] or o[3] != a[3]:
            return 'must-fail', alt
    asb_o = [b['data'] for b in orig['blocks'] if b['type'] == B.T_BCB]
    asb_a = [b['data'] for b in alt['blocks'] if b['type'] == B.T_BCB]
    if asb_o == asb_a:
        return 'must-verify', alt
    return 'either', alt


def field_edits(orig):
    '''Field-level alterations, re-encoded by the independent encoder.'''
    out = []

    def variant(name, fn):
        b = dict(primary=dict(orig['primary']), blocks=[dict(x) for x in orig['blocks']])
        for x in [b['primary']] + b['blocks']:
            for k in ('span', 'crc', 'crc_ok'):
                x.pop(k, None)
        try:
            fn(b)
            out.append((name, B.encode(b)))
        except Exception:
            pass
    bcb_idx = [i for (i, b) in enumerate(orig['blocks']) if b['type'] == B.T_BCB][0]

    def edit_asb(fn):
        def inner(b):
            asb = B.dec_asb(b['blocks'][bcb_idx]['data'])
            fn(asb)
            b['blocks'][bcb_idx]['data'] = B.enc_asb(asb)
        return inner

    def msg_edit(fn):
        def inner(a):
            (rt, rv) = a['results'][0][0]
            msg = C.loads(rv)
            fn(msg)
            a['results'][0][0] = (rt, C.dumps(msg))
        return edit_asb(inner)
    variant('ciphertext-append', lambda b: b['blocks'][-1].update(data=b['blocks'][-1]['data'] + b'!'))
    variant('ciphertext-truncate', lambda b: b['blocks'][-1].update(data=b['blocks'][-1]['data'][:-1]))
    variant('ciphertext-emptied', lambda b: b['blocks'][-1].update(data=b''))
    variant('target-flags', lambda b: b['blocks'][-1].update(flags=b['blocks'][-1]['flags'] ^ 0x10))
    variant('primary-lifetime', lambda b: b['primary'].update(lifetime=b['primary']['lifetime'] + 1))
    variant('primary-report-to', lambda b: b['primary'].update(report_to='dtn://evil/'))
    variant('primary-timestamp', lambda b: b['primary'].update(ts=(b['primary']['ts'][0], b['primary']['ts'][1] + 1)))
    variant('security-source', edit_asb(lambda a: a.update(source='dtn://evil/')))

    def drop_scope(a):
        a['params'] = [p for p in a['params'] if p[0] != 5]
        if not a['params']:
            a['flags'] &= ~1
    variant('scope-map-removed', edit_asb(drop_scope))

    def scope_edit(a):
        a['params'] = [p for p in a['params'] if p[0] != 5] + [(5, {0: 1, -1: 3})]
        a['flags'] |= 1
    variant('scope-map-edited', edit_asb(scope_edit))
    variant('iv-altered', msg_edit(lambda m: m[1].__setitem__(5, bytes(len(m[1][5]))) if isinstance(m[1], dict) and 5 in m[1] else None))
    variant('protected-bucket-emptied', msg_edit(lambda m: m.__setitem__(0, b'')))

    def attach_old(b):
        # the original ciphertext moves into the COSE ciphertext slot, the target block gets other octets
        old = bytes(b['blocks'][-1]['data'])
        msg_edit(lambda m: m.__setitem__(2, old))(b)
        b['blocks'][-1].update(data=old[:-1] + bytes([old[-1] ^ 0x20]) if old else b'x')
    variant('ciphertext-altered-old-one-attached', attach_old)
    if len(B.dec_asb(orig['blocks'][bcb_idx]['data'])['targets']) > 1:
        def swap_results(a):
            a['results'][0], a['results'][1] = a['results'][1], a['results'][0]
        variant('results-of-two-targets-swapped', edit_asb(swap_results))
    return out


def hoist_kid(orig):
    '''The same security operation written the other way the COSE context allows: the key identifier
    is taken out of the unprotected header of the layer that names the key (the message itself for a
    direct key, the recipient for a wrapped key) and given once for the whole block in the
    additional-unprotected-headers parameter (id 4, an encoded header map as the implementation's own parser reads
    it).  Unprotected headers are not authenticated.'''
    out = dict(primary={k: v for (k, v) in orig['primary'].items() if k not in ('span', 'crc', 'crc_ok')},
               blocks=[{k: v for (k, v) in b.items() if k not in ('span', 'crc', 'crc_ok')} for b in orig['blocks']])
    done = 0
    for blk in out['blocks']:
        if blk['type'] != B.T_BCB:
            continue
        asb = B.dec_asb(blk['data'])
        kid = None
        for results in asb['results']:
            for (i, (rid, rval)) in enumerate(results):
                msg = C.loads(rval)
                layers = [msg] if len(msg) == 3 else list(msg[3])
                for layer in layers:
                    if isinstance(layer[1], dict) and 4 in layer[1]:
                        kid = layer[1].pop(4)
                        done += 1
                results[i] = (rid, C.dumps(msg))
        if kid is not None:
            asb['params'] = [p for p in asb['params'] if p[0] != 4] + [(4, C.dumps({4: kid}))]
            asb['params'].sort(key=lambda p: p[0])
            asb['flags'] |= 1
            blk['data'] = B.enc_asb(asb)
    return B.encode(out) if done else None


def contains_window(haystack, needle, window=8):
    if len(needle) < window:
        return False
    for i in range(len(needle) - window + 1):
        if needle[i:i + window] in haystack:
            return True
    return False


def run_case(params, known):
    from .. import env as _env
    _env.load_bp()
    name = params['name']
    (kind, length, with_ext) = (params['kind'], params['length'], params['with_ext'])
    global VARIANT
    VARIANT = params.get('variant', 'base')
    right = 'right-kw' if kind == 'enc-kw' else 'right'
    violations = []
    kinds = set()
    counts = {}
    keys = set()
    samples = []

    def viol(kind_, sig, detail, alt_bytes, what):
        key = (kind_, tuple(sorted(sig.items())))
        if key in kinds:
            return
        kinds.add(key)
        v = Violation(PROP, 'confidentiality', kind_, sig, '%s: %s' % (name, detail)).as_dict()
        v['case'] = dict(kind=kind, length=length, with_ext=with_ext, altered=(alt_bytes or b'').hex(), alteration=what)
        violations.append(v)
    try:
        data = source_encrypt(kind, length, with_ext)
    except RuntimeError as err:
        text = str(err)
        if kind in ENV_LIMITED and ('site-packages/pycose' in text or 'cannot encode type' in text):
            return dict(name=name, evaluations=1, nontrivial_keys=[], violations=[], known=[], samples=[],
                        verdicts={'not-producible-with-installed-pycose': 1}, report_keys=['verdicts'], note=text[:300])
        viol('source-cannot-apply-confidentiality-block', dict(kind=kind), text[:1500], None, 'none')
        return dict(name=name, evaluations=1, nontrivial_keys=[], violations=violations, known=[], samples=[])
    plain = plaintext(length)
    ext_plain = b'secret-extension-data'
    try:
        orig = B.decode(data)
    except B.Malformed as err:
        viol('encrypted-bundle-not-rfc9171', dict(), str(err), data, 'none')
        return dict(name=name, evaluations=1, nontrivial_keys=[], violations=violations, known=[], samples=[])
    # (1) what is on the wire is not the plaintext
    tgt = [b for b in orig['blocks'] if b['num'] == 1][0]
    if length > 0 and tgt['data'] == plain:
        viol('plaintext-on-the-wire', dict(), 'payload block carries the plaintext', data, 'none')
    if contains_window(data, plain):
        viol('plaintext-window-on-the-wire', dict(), 'an 8-octet window of the plaintext appears in the encoded bundle', data, 'none')
    if with_ext and contains_window(data, ext_plain):
        viol('plaintext-window-on-the-wire', dict(target='extension'), 'the extension block plaintext appears', data, 'none')
    if not any(b['type'] == B.T_BCB for b in orig['blocks']):
        viol('no-confidentiality-block-added', dict(), repr([b['type'] for b in orig['blocks']]), data, 'none')
    # (2) exact recovery with the key
    for accept in (True, False):
        (world, delivered, reasons) = receive(data, right, accept)
        counts['baseline'] = counts.get('baseline', 0) + 1
        if len(delivered) != 1:
            viol('receiver-with-key-does-not-deliver', dict(accept=accept), 'reasons %r errors %r' % (reasons, world.api_errors[:1]), data, 'none')
            continue
        got = [bytes.fromhex(b[2]) for b in delivered[0]['blocks'] if b[0] == 1]
        if accept:
            if got != [plain]:
                viol('recovered-plaintext-differs', dict(), '%r vs %r' % (got, plain), data, 'none')
            if any(b[0] == B.T_BCB for b in delivered[0]['blocks']):
                viol('accepted-block-not-removed', dict(), repr(delivered[0]['blocks']), data, 'none')
            if with_ext:
                ext = [bytes.fromhex(b[2]) for b in delivered[0]['blocks'] if b[0] == 195]
                if ext != [ext_plain]:
                    viol('recovered-plaintext-differs', dict(target='extension'), repr(ext), data, 'none')
    # (2b) the same operation with the key identifier given in the additional unprotected headers
    hoisted = hoist_kid(orig)
    if hoisted is not None:
        (world, delivered, reasons) = receive(hoisted, right, True)
        counts['baseline'] = counts.get('baseline', 0) + 1
        keys.add('%s:kid-in-additional-headers' % name)
        got = [bytes.fromhex(b[2]) for d in delivered for b in d['blocks'] if b[0] == 1]
        if got != [plain]:
            viol('receiver-with-key-does-not-recover-plaintext', dict(form='kid-in-additional-headers'),
                 'delivered payloads %r, reasons %r errors %r' % (got, reasons, world.api_errors[:1]), hoisted, 'kid hoisted into parameter 4')
    for keymode in (('wrong-kw' if kind == 'enc-kw' else 'wrong'), 'none'):
        (world, delivered, reasons) = receive(data, keymode, True)
        counts['wrong-key'] = counts.get('wrong-key', 0) + 1
        if delivered:
            viol('delivered-without-the-key', dict(keymode=keymode), repr(delivered[0]['blocks'])[:200], data, 'none')
        elif not any(r in SEC_REASONS for r in reasons) and not world.api_errors \
                and orig['primary']['flags'] & B.FLAG_REQ_DELETION and orig['primary']['report_to'] != 'dtn:none':
            viol('security-failure-not-reported', dict(keymode=keymode), 'reasons %r' % (reasons,), data, 'none')
    # (3) alterations
    if params.get('flips', True):
        alterations = [('bit %d' % bit, flip(data, bit)) for bit in range(len(data) * 8)] + field_edits(orig)
        for (bit, (what, alt)) in enumerate(alterations):
            if alt == data:
                continue
            (verdict, altdec) = classify(orig, alt)
            counts[verdict] = counts.get(verdict, 0) + 1
            (world, delivered, reasons) = receive(alt, right, True)
            if world.escaped:
                esc = world.escaped[-1]
                viol('exception-escaped-idle-callback', dict(exc=esc[0]), esc[2], alt, what)
                continue
            leaked = any(contains_window(bytes.fromhex(b[2]), plain) or (length and bytes.fromhex(b[2]) == plain)
                         for d in delivered for b in d['blocks'] if b[0] == 1)
            rejected_in_decode = bool(world.api_errors) and not delivered
            if verdict == 'must-fail':
                keys.add('%s:%s' % (name, what))
                if delivered and leaked:
                    viol('plaintext-released-after-alteration', dict(), what, alt, what)
                elif delivered:
                    viol('altered-bundle-delivered', dict(), '%s: delivered %r' % (what, delivered[0]['blocks']), alt, what)
                elif not rejected_in_decode and altdec['primary']['flags'] & B.FLAG_REQ_DELETION \
                        and altdec['primary']['report_to'] != 'dtn:none' and not any(r in SEC_REASONS for r in reasons):
                    viol('security-failure-not-reported', dict(), '%s: reasons %r' % (what, reasons), alt, what)
            elif verdict == 'undecodable' and what.startswith('bit ') and delivered and leaked \
                    and orig['primary']['span'][0] * 8 <= int(what[4:]) < orig['primary']['span'][1] * 8 and same_layout(data, alt):
                # one bit of the primary block changed into something that is no RFC 9171 bundle any more (an endpoint ID
                # the scheme does not allow, say): whatever the receiver makes of it, the primary block is not the one
                # that was bound in - and the plaintext came out
                viol('plaintext-released-after-alteration', dict(primary_block='no longer RFC 9171'), what, alt, what)
            elif verdict == 'must-verify':
                keys.add('%s:%s' % (name, what))
                if not delivered and not rejected_in_decode:
                    viol('unaltered-coverage-rejected', dict(), '%s lies outside what the block binds (reasons %r)' % (what, reasons), alt, what)
                elif delivered:
                    got = [bytes.fromhex(b[2]) for b in delivered[0]['blocks'] if b[0] == 1]
                    if got != [plain]:
                        viol('recovered-plaintext-differs', dict(after='outside-scope alteration'), what, alt, what)
            if len(samples) < 1 and bit == 200:
                samples.append(dict(kind=kind, length=length, bit=bit, verdict=verdict))
    kn, out_v = [], []
    for v in violations:
        ent = known.match(v) if known is not None else None
        (kn if ent else out_v).append(dict(v, entry=ent) if ent else v)
    return dict(name=name, evaluations=sum(counts.values()), nontrivial_keys=sorted(keys), violations=out_v, known=kn,
                samples=samples, verdicts=counts, report_keys=['verdicts'])


def run_fragmented(params, known):
    '''The route has an MTU smaller than the protected bundle: whatever leaves the node (fragments)
    carries no run of plaintext octets, and a receiver holding the key that gets all of it recovers
    exactly the plaintext.'''
    from .. import env as _env
    _env.load_bp()
    violations = []
    kinds = set()
    count = 0
    keys = set()

    def viol(kind, detail, case):
        if kind in kinds:
            return
        kinds.add(kind)
        v = Violation(PROP, 'confidentiality', kind, dict(), '%r: %s' % (case, detail)).as_dict()
        v['case'] = case
        violations.append(v)
    for kind in ('enc0', 'enc-kw'):
        for (length, mtu) in ((300, 250), (300, 230), (1000, 300), (1000, 700), (64, 250)):
            for order in ('in-order', 'reversed'):
                count += 1
                case = dict(kind=kind, length=length, mtu=mtu, arrival=order)
                try:
                    sent = source_encrypt(kind, length, False, mtu=mtu, all_sent=True)
                except RuntimeError as err:
                    if 'too large for route MTU' in str(err):
                        keys.add('%s/%d/%d/refused' % (kind, length, mtu))
                        continue      # the security blocks alone exceed the MTU: nothing leaves the node
                    viol('source-cannot-apply-confidentiality-block', str(err)[:600], case)
                    continue
                plain = plaintext(length)
                for octets in sent:
                    if len(octets) > mtu:
                        viol('oversized-bundle-transmitted', '%d octets on an MTU-%d route' % (len(octets), mtu), case)
                    if contains_window(octets, plain):
                        viol('plaintext-window-on-the-wire', 'an 8-octet window of the plaintext appears in a transmitted bundle of %d octets' % len(octets), case)
                if not sent:
                    viol('nothing-sent', 'no bundle left the node', case)
                    continue
                world = BpWorld(dict(node_id=NODE, rx_routes=[('^dtn://node/.*', 'deliver')], tx_routes=[('.*', 'dtn://next/', None)],
                                     accept_after_verify=True))
                cose = world.cose()
                cose.sym_key_store[KID] = sym_key(KEY, ['WrapOp', 'UnwrapOp'], 'A256KW') if kind == 'enc-kw' else sym_key(KEY, ['EncryptOp', 'DecryptOp'], 'A256GCM')
                for octets in (reversed(sent) if order == 'reversed' else sent):
                    world.receive(octets)
                    world.quiesce()
                got = [bytes.fromhex(b[2]) for d in world.probe.seen for b in d['blocks'] if b[0] == 1]
                keys.add('%s/%d/%d/%s/%d' % (kind, length, mtu, order, len(sent)))
                if world.escaped:
                    viol('exception-escaped-idle-callback', '%s: %s' % (world.escaped[-1][0], world.escaped[-1][2]), case)
                elif got != [plain]:
                    viol('receiver-with-key-does-not-recover-plaintext', 'delivered %r octets, errors %r' % ([len(g) for g in got], world.api_errors[:1]), case)
    return dict(name=params['name'], evaluations=count, nontrivial_keys=sorted(keys), violations=violations, known=[], samples=[])


def run_bib_and_bcb(params, known):
    """The ordinary pairing: the source protects the payload with an integrity block AND a
    confidentiality block (BIB first, then BCB over the same target).  A receiver holding both keys,
    with acceptance on, is handed exactly the plaintext - for plaintexts of 0, 1, 16 and 255 octets -
    and nothing of it is readable on the wire."""
    from .. import env as _env
    _env.load_bp()
    from bp.app.bpsec import SecAssociation, SecOperation
    from pycose import algorithms
    from .c05 import impl_container
    violations = []
    kinds = set()
    count = 0
    keys = set()
    MAC_KID = b'mac-key-2'

    def viol(kind, detail, case):
        if kind in kinds:
            return
        kinds.add(kind)
        v = Violation(PROP, 'confidentiality', kind, dict(), '%r: %s' % (case, detail)).as_dict()
        v['case'] = case
        violations.append(v)
    for kind in ('enc0', 'enc-kw'):
        for length in (0, 1, 16, 255):
            for order in ('bib-then-bcb', 'bcb-then-bib'):
                count += 1
                case = dict(kind=kind, length=length, templates=order)
                src = BpWorld(dict(node_id=SRC, tx_routes=[('.*', 'dtn://next/', None)]))
                cose = src.cose()
                ivs = [bytes(range(12))]
                if kind == 'enc0':
                    ekey = sym_key(KEY, ['EncryptOp', 'DecryptOp'], 'A256GCM')
                    bcb = SecOperation(sec_type='bcb', role='source', priv_key_id=KID, content_iv=ivs)
                else:
                    ekey = sym_key(KEY, ['WrapOp', 'UnwrapOp'], 'A256KW')
                    bcb = SecOperation(sec_type='bcb', role='source', priv_key_id=KID, content_alg=algorithms.A256GCM,
                                       content_key=bytes(range(100, 132)), content_iv=ivs)
                mkey = sym_key(bytes(range(50, 82)), ['MacCreateOp', 'MacVerifyOp'], 'HMAC256')
                mkey.kid = MAC_KID
                bib = SecOperation(sec_type='bib', role='source', priv_key_id=MAC_KID)
                cose.sym_key_store[KID] = ekey
                cose.sym_key_store[MAC_KID] = mkey
                cose.sec_assoc.append(SecAssociation(src_pat=re.compile(re.escape(SRC) + '.*'), dst_pat=re.compile('.*'), tgt_blk_types=[1],
                                                     templates=[bib, bcb] if order == 'bib-then-bcb' else [bcb, bib]))
                src.send(impl_container(plain_bundle(length, False)))
                src.quiesce()
                sent = src.sent()
                if len(sent) != 1 or src.api_errors or src.escaped:
                    viol('source-cannot-apply-confidentiality-block', '%d bundles, %r %r' % (len(sent), src.api_errors[:1], src.escaped[:1]), case)
                    continue
                plain = plaintext(length)
                types = [b['type'] for b in B.decode(sent[0])['blocks']]
                if B.T_BCB not in types or B.T_BIB not in types:
                    viol('security-blocks-missing', 'block types on the wire %r' % (types,), case)
                if contains_window(sent[0], plain):
                    viol('plaintext-window-on-the-wire', 'an 8-octet window of the plaintext appears in the encoded bundle', case)
                rcv = BpWorld(dict(node_id=NODE, rx_routes=[('^dtn://node/.*', 'deliver')], tx_routes=[('.*', 'dtn://next/', None)], accept_after_verify=True))
                rc = rcv.cose()
                rc.sym_key_store[KID] = sym_key(KEY, ['WrapOp', 'UnwrapOp'], 'A256KW') if kind == 'enc-kw' else sym_key(KEY, ['EncryptOp', 'DecryptOp'], 'A256GCM')
                mk2 = sym_key(bytes(range(50, 82)), ['MacCreateOp', 'MacVerifyOp'], 'HMAC256')
                mk2.kid = MAC_KID
                rc.sym_key_store[MAC_KID] = mk2
                rcv.receive(sent[0])
                rcv.quiesce()
                got = [bytes.fromhex(b[2]) for d in rcv.probe.seen for b in d['blocks'] if b[0] == 1]
                keys.add('%s/%d/%s' % (kind, length, order))
                if rcv.escaped:
                    viol('exception-escaped-idle-callback', '%s: %s' % (rcv.escaped[-1][0], rcv.escaped[-1][2]), case)
                elif got != [plain]:
                    viol('recovered-plaintext-differs', 'delivered %r, plaintext %r (errors %r)' % (got, plain, rcv.api_errors[:1]), case)
    return dict(name=params['name'], evaluations=count, nontrivial_keys=sorted(keys), violations=violations, known=[], samples=[])


def run_admin_target(params, known):
    '''The target is the payload of a status report the source node generates itself (the block
    then has a parsed record attached): with a confidentiality association that matches, what
    leaves the node must be ciphertext, and the report-to node holding the key must recover the
    record the source would have sent without the association.'''
    from .. import env as _env
    _env.load_bp()
    from bp.app.bpsec import SecAssociation, SecOperation
    violations = []
    count = 0
    SNODE = 'dtn://snode/'

    def source(with_bcb, flags):
        w = BpWorld(dict(node_id=SNODE, rx_routes=[('^dtn://snode/.*', 'deliver')], tx_routes=[('.*', 'dtn://next/', None)]))
        if with_bcb:
            cose = w.cose()
            cose.sym_key_store[KID] = sym_key(KEY, ['EncryptOp', 'DecryptOp'], 'A256GCM')
            tmpl = SecOperation(sec_type='bcb', role='source', priv_key_id=KID, content_iv=[bytes(range(12))])
            cose.sec_assoc.append(SecAssociation(src_pat=re.compile(re.escape(SNODE) + '.*'), dst_pat=re.compile('.*'),
                                                 tgt_blk_types=[1], templates=[tmpl]))
        pri = dict(flags=flags, crc_type=1, dest=SNODE + 'app', src='dtn://origin/', report_to=NODE + 'reports',
                   ts=(700000000000, 5), lifetime=3600000)
        w.receive(B.encode(dict(primary=pri, blocks=[dict(type=1, num=1, flags=0, crc_type=1, data=b'subject bundle')])))
        w.quiesce()
        return [o for o in w.sent() if B.decode(o)['primary']['flags'] & B.FLAG_ADMIN], w
    for flags in (B.FLAG_REQ_RECEPTION, B.FLAG_REQ_DELIVERY, B.FLAG_REQ_RECEPTION | B.FLAG_REQ_DELIVERY | B.FLAG_STATUS_TIME):
        count += 1
        case = dict(request_flags=flags)
        (plain_reports, _w) = source(False, flags)
        (enc_reports, w) = source(True, flags)
        found = None
        if len(plain_reports) != 1 or len(enc_reports) != 1:
            found = ('source-did-not-emit-one-report', 'without / with association: %d / %d reports' % (len(plain_reports), len(enc_reports)))
        else:
            record = B.payload(B.decode(plain_reports[0]))
            dec = B.decode(enc_reports[0])
            if not any(b['type'] == B.T_BCB for b in dec['blocks']):
                found = ('no-confidentiality-block-added', repr([b['type'] for b in dec['blocks']]))
            elif B.payload(dec) == record or record in enc_reports[0]:
                found = ('plaintext-on-the-wire', 'the status report leaves the node in clear under a confidentiality block: %s' % B.payload(dec).hex())
            else:
                for accept in (True, False):
                    (rw, delivered, reasons) = receive(enc_reports[0], 'right', accept)
                    if not delivered:
                        found = ('receiver-with-key-does-not-deliver', 'accept=%s reasons %r errors %r' % (accept, reasons, rw.api_errors[:1]))
                    elif accept:
                        got = [bytes.fromhex(b[2]) for b in delivered[0]['blocks'] if b[0] == 1]
                        if got != [record]:
                            found = ('recovered-plaintext-differs', '%r vs %r' % (got, record))
        if w.escaped and not found:
            found = ('exception-escaped-idle-callback', '%s: %s' % (w.escaped[-1][0], w.escaped[-1][2]))
        if found:
            v = Violation(PROP, 'confidentiality', found[0], dict(target='administrative-record'), '%r: %s' % (case, found[1])).as_dict()
            v['case'] = dict(kind='admin-target', length=0, alteration='none', **case)
            violations.append(v)
    return dict(name=params['name'], evaluations=count, nontrivial_keys=['admin-target:%d' % i for i in range(count)],
                violations=violations[:3], known=[], samples=[], verdicts={}, report_keys=['verdicts'])


def run_two_sources(params, known):
    """Two confidentiality sources on the path: the bundle's source encrypts an extension block end to end, a gateway
    that forwards the bundle encrypts the payload (its own policy names the payload only).  What leaves the gateway
    carries neither plaintext; a destination holding the key recovers both exactly.  Plaintext lengths 0, 16 and 300."""
    from .. import env as _env
    _env.load_bp()
    from bp.app.bpsec import SecAssociation, SecOperation
    import itertools
    from .c05 import impl_container
    violations = []
    kinds = set()
    keys = set()
    count = 0

    def viol(kind, detail, case):
        if kind in kinds:
            return
        kinds.add(kind)
        v = Violation(PROP, 'confidentiality', kind, dict(), '%r: %s' % (case, detail)).as_dict()
        v['case'] = dict(kind='two-sources', **case)
        violations.append(v)
    ivs = [bytes(range(12)), bytes(range(20, 32))]
    ext_plain = b'secret-extension-data'
    for (length, crc) in itertools.product((0, 16, 300), (0, 1, 2)):
        count += 1
        case = dict(payload_octets=length, payload_block_crc_type=crc)
        plain = plaintext(length)
        # the source: encrypts the extension block only
        src = BpWorld(dict(node_id=SRC, tx_routes=[('.*', 'dtn://gw/', None)]))
        cose = src.cose()
        cose.sym_key_store[KID] = sym_key(KEY, ['EncryptOp', 'DecryptOp'], 'A256GCM')
        cose.sec_assoc.append(SecAssociation(src_pat=re.compile(re.escape(SRC) + '.*'), dst_pat=re.compile('.*'), tgt_blk_types=[195],
                                             templates=[SecOperation(sec_type='bcb', role='source', priv_key_id=KID, content_iv=list(ivs))]))
        bundle = plain_bundle(length, True)
        bundle['blocks'][-1]['crc_type'] = crc       # the block the gateway will encrypt carries a CRC of its own
        src.send(impl_container(bundle))
        src.quiesce()
        if len(src.sent()) != 1 or src.escaped or src.api_errors:
            viol('source-cannot-apply-confidentiality-block', repr((len(src.sent()), src.escaped[:1], src.api_errors[:1])), case)
            continue
        hop1 = src.sent()[0]
        # the gateway: forwards, and encrypts the payload of what it forwards
        gw = BpWorld(dict(node_id='dtn://gw/', rx_routes=[('.*', 'forward')], tx_routes=[('.*', 'dtn://next/', None)]))
        gcose = gw.cose()
        gcose.sym_key_store[KID] = sym_key(KEY, ['EncryptOp', 'DecryptOp'], 'A256GCM')
        gcose.sec_assoc.append(SecAssociation(src_pat=re.compile('.*'), dst_pat=re.compile('.*'), tgt_blk_types=[1],
                                              templates=[SecOperation(sec_type='bcb', role='source', priv_key_id=KID, content_iv=[bytes(range(40, 52))])]))
        gw.receive(hop1)
        gw.quiesce()
        out = [o for o in gw.sent() if not B.decode(o)['primary']['flags'] & B.FLAG_ADMIN]
        keys.add('two-sources/%d/%d' % (length, crc))
        if gw.escaped or gw.api_errors or len(out) != 1:
            viol('gateway-does-not-forward-one-bundle', repr((len(out), gw.escaped[:1], gw.api_errors[:1])), case)
            continue
        wire = out[0]
        dec = B.decode(wire)
        covered = sorted(t for b in dec['blocks'] if b['type'] == B.T_BCB for t in B.dec_asb(b['data'])['targets'])
        pay = [b for b in dec['blocks'] if b['type'] == 1][0]
        if length and (pay['data'] == plain or contains_window(wire, plain)):
            viol('plaintext-on-the-wire', 'the payload leaves the gateway in the clear (confidentiality blocks cover the blocks %r)' % (covered,), case)
        elif 1 not in covered:
            viol('no-confidentiality-block-added', 'confidentiality blocks cover the blocks %r, the gateway is to encrypt block 1' % (covered,), case)
        if contains_window(wire, ext_plain):
            viol('plaintext-window-on-the-wire', 'the extension block plaintext appears', case)
        (world, delivered, reasons) = receive(wire, 'right', True)
        if len(delivered) != 1:
            viol('receiver-with-key-does-not-deliver', 'reasons %r errors %r' % (reasons, world.api_errors[:1]), case)
        else:
            got = [bytes.fromhex(b[2]) for b in delivered[0]['blocks'] if b[0] == 1]
            ext = [bytes.fromhex(b[2]) for b in delivered[0]['blocks'] if b[0] == 195]
            if got != [plain] or ext != [ext_plain]:
                viol('recovered-plaintext-differs', 'payload %r, extension %r' % (got, ext), case)
    return dict(name=params['name'], evaluations=count, nontrivial_keys=sorted(keys), violations=violations, known=[], samples=[],
                verdicts={}, report_keys=['verdicts'])


def run_key_history(params, known):
    '''One long-lived receiver; before each of three receptions its key under the key identifier is the
    right one, another one, or absent (27 histories).  Each reception is judged on its own: the plaintext
    is handed over exactly when the receiver holds the right key at that moment, whatever it held (and
    successfully used) before.'''
    import itertools
    from .. import env as _env
    _env.load_bp()
    global CREATION
    violations = []
    kinds = set()
    keys = []
    count = 0
    bundles = []
    try:
        for seq in (21, 22, 23):
            CREATION = (760000000000, seq)
            bundles.append(source_encrypt('enc0', 16, False))
    finally:
        CREATION = (760000000000, 3)
    states = ('right', 'wrong', 'absent')
    for hist in itertools.product(states, repeat=3):
        count += 1
        case = dict(key_before_each_reception=list(hist))
        world = BpWorld(dict(node_id=NODE, rx_routes=[('^dtn://node/.*', 'deliver')], tx_routes=[('.*', 'dtn://next/', None)],
                             accept_after_verify=True))
        cose = world.cose()
        want = []
        for (k, state) in enumerate(hist):
            if state == 'absent':
                cose.sym_key_store.pop(KID, None)
            else:
                cose.sym_key_store[KID] = sym_key(KEY if state == 'right' else WRONG_KEY, ['EncryptOp', 'DecryptOp'], 'A256GCM')
            if state == 'right':
                want.append(21 + k)
            world.receive(bundles[k])
            world.quiesce()
        keys.append('/'.join(hist))
        got = sorted(d['ts'][1] for d in world.probe.seen)
        found = None
        if world.escaped:
            found = ('exception-escaped-idle-callback', '%s: %s' % (world.escaped[-1][0], world.escaped[-1][2]))
        elif [s2 for s2 in got if s2 not in want]:
            found = ('decrypted-without-the-right-key', 'delivered %r, right key held for %r' % (got, want))
        elif got != want:
            found = ('not-decrypted-with-the-right-key', 'delivered %r, right key held for %r' % (got, want))
        else:
            for d in world.probe.seen:
                data = [bytes.fromhex(b[2]) for b in d['blocks'] if b[0] == 1]
                if data != [plaintext(16)]:
                    found = ('recovered-plaintext-differs', repr(data))
        if found and found[0] not in kinds:
            kinds.add(found[0])
            v = Violation(PROP, 'confidentiality', found[0], dict(), '%r: %s' % (case, found[1])).as_dict()
            v['case'] = dict(kind='key-history', **case)
            violations.append(v)
    return dict(name=params['name'], evaluations=count, nontrivial_keys=keys, violations=violations, known=[], samples=[],
                verdicts={}, report_keys=['verdicts'])


def scenarios(tier):
    out = []
    out.append(dict(name='key-history', kind='enum', runner='run_key_history', params=dict(name='key-history'), weight=5))
    out.append(dict(name='two-sources', kind='enum', runner='run_two_sources', params=dict(name='two-sources'), weight=5))
    out.append(dict(name='admin-record-target', kind='enum', runner='run_admin_target', params=dict(name='admin-record-target'), weight=5))
    out.append(dict(name='bib-and-bcb', kind='enum', runner='run_bib_and_bcb', params=dict(name='bib-and-bcb'), weight=5))
    out.append(dict(name='fragmented', kind='enum', runner='run_fragmented', params=dict(name='fragmented'), weight=5))
    for kind in ('enc0', 'enc-kw'):
        for length in LENGTHS:
            for with_ext in (False, True, 'rev'):
                if with_ext == 'rev' and length not in (0, 16):
                    continue
                flips = (length in (1, 16, 17) or (tier == 'thorough')) and (not with_ext or length == 16) and with_ext != 'rev'
                name = '%s-len%d%s' % (kind, length, {False: '', True: '+ext', 'rev': '+ext-first'}[with_ext])
                out.append(dict(name=name, kind='enum', runner='run_case',
                                params=dict(name=name, kind=kind, length=length, with_ext=with_ext, flips=flips),
                                weight=(length + 150) if flips else 1))
    # a bundle that asks for no reports (report-to is dtn:none), every bit
    out.append(dict(name='enc0-len16-no-reports', kind='enum', runner='run_case',
                    params=dict(name='enc0-len16-no-reports', kind='enc0', length=16, with_ext=False, flips=True, variant='no-reports'), weight=170))
    return out


ASSUMPTIONS = [
    'integrity and confidentiality block over the same payload (both template orders, both key modes, plaintexts of 0 / 1 / 16 / 255 octets), receiver with both keys and acceptance on',
    'route MTU below the protected bundle (five length / MTU pairs, both key modes): every transmitted fragment is searched for plaintext and the whole is delivered to a receiver with the key, in order and reversed',
    'trusted base: pycose and cryptography (AES-GCM) primitives',
    'one scenario whose target is the payload of a status report generated by the source node itself (a block with parsed content attached)',
    'plaintext lengths 0,1,15,16,17,255,256; the empty plaintext has no "is ciphertext" requirement',
    'COSE_Encrypt with a wrapped key needs the repository\'s pinned pycose fork; where the installed pycose cannot produce it the case is counted as not producible',
    'bit-flip enumeration on lengths 1,16,17 in the quick tier (all lengths in the thorough tier)',
]

RULE = ('plaintext lengths x content-encryption modes x one/two targets on the real transmit chain; wire octets searched '
        'for the plaintext; exact recovery with the key, failure without it; every single-bit flip judged by the '
        'independent covered-tuple model; non-trivial = definite verdict; distinct by (case, bit)')


def evidence(tier, seed, scens, results, wall_s):
    ev = enum_evidence(PROP, 'fault_enumeration', tier, seed, scens, results, wall_s, ASSUMPTIONS, RULE)
    tot = {}
    for r in results:
        if r and r.get('kind') == 'enum':
            for (k, v) in r.get('verdicts', {}).items():
                tot[k] = tot.get(k, 0) + v
    ev['coverage']['verdicts'] = tot
    return ev


def replay_case(body, verbose=False):
    case = body['case']
    if case.get('kind') in ('key-history', 'two-sources'):
        res = (run_key_history if case['kind'] == 'key-history' else run_two_sources)(dict(name=case['kind']), None)
        for v in res['violations']:
            print('%s: %s' % (v['kind'], v['detail'][:400]))
        print('%d histories, %d kinds of violation' % (res['evaluations'], len(res['violations'])))
        return 1 if res['violations'] else 0
    print('case %r: %s' % ({k: case[k] for k in ('kind', 'length', 'with_ext', 'alteration')}, body['violation']['kind']))
    if case.get('altered'):
        (world, delivered, reasons) = receive(bytes.fromhex(case['altered']), 'right-kw' if case['kind'] == 'enc-kw' else 'right', True)
        print('agent: delivered=%d reasons=%r errors=%r' % (len(delivered), reasons, [e[:2] for e in world.api_errors]))
    return 1
