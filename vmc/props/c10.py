'''C10 - the BP agent processes each received bundle at most once and routes by
first match.

State graph over receive histories: events "bundle i of the menu arrives" (any
bundle, repeats allowed) and "the agent runs one pending idle callback", over a
menu of fourteen bundles (look-alikes differing in exactly one identity component,
a fragment pair, own-source, administrative-endpoint, forward and no-route
destinations) and five routing tables.  A reference router with identity
memory predicts deliveries and transmissions.'''
import re

from ..bp_world import BpWorld
from ..world import Violation, HarnessError
from ..oracle import bpv7 as B
from ..evidence import graph_evidence
from .c02 import admin_payload

PROP = 'C10'
NODE = 'dtn://node/'

TABLES = {
    'deliver-first': [('^dtn://node/.*', 'deliver'), ('.*', 'forward')],
    'forward-first': [('.*', 'forward'), ('^dtn://node/.*', 'deliver')],
    'overlap-a': [('^dtn://node/s.*', 'delete'), ('^dtn://node/.*', 'deliver'), ('^dtn://.*', 'forward')],
    'overlap-b': [('^dtn://.*', 'forward'), ('^dtn://node/.*', 'deliver'), ('^dtn://node/s.*', 'delete')],
    'empty': [],
}


def menu():
    def mk(dest, src, ts, flags=0, data=b'data', **over):
        pri = dict(flags=flags, crc_type=1, dest=dest, src=src, report_to='dtn:none', ts=ts, lifetime=3600000)
        pri.update(over)
        return dict(primary=pri, blocks=[dict(type=1, num=1, flags=0, crc_type=1, data=data)])
    T = 700000000000
    # these ask for every status report, to a report-to endpoint that is routed out of the node
    rq = dict(flags=B.FLAG_REQ_RECEPTION | B.FLAG_REQ_FORWARD | B.FLAG_REQ_DELIVERY | B.FLAG_REQ_DELETION, report_to='dtn://rpt/')
    return [
        ('local', mk('dtn://node/svc', 'dtn://src/', (T, 1), data=b'L0', **rq)),
        ('local-seq', mk('dtn://node/svc', 'dtn://src/', (T, 2), data=b'L1')),
        ('local-src', mk('dtn://node/svc', 'dtn://src2/', (T, 1), data=b'L2')),
        ('local-time', mk('dtn://node/svc', 'dtn://src/', (T + 1, 1), data=b'L3')),
        ('frag-0', mk('dtn://node/app', 'dtn://fsrc/', (T, 9), flags=B.FLAG_IS_FRAGMENT, data=b'abc', frag_offset=0, total_adu=6)),
        ('frag-3', mk('dtn://node/app', 'dtn://fsrc/', (T, 9), flags=B.FLAG_IS_FRAGMENT, data=b'def', frag_offset=3, total_adu=6)),
        # fragments of a bundle in transit, cut at another place on another path: same offset, other length
        ('fwd-frag-0-60', mk('dtn://far/x', 'dtn://src/', (T, 11), flags=B.FLAG_IS_FRAGMENT, data=bytes(range(60)), frag_offset=0, total_adu=100)),
        ('fwd-frag-0-40', mk('dtn://far/x', 'dtn://src/', (T, 11), flags=B.FLAG_IS_FRAGMENT, data=bytes(range(40)), frag_offset=0, total_adu=100)),
        ('own-source', mk('dtn://node/svc', NODE, (T, 1), data=b'OWN', **rq)),
        ('admin-endpoint', mk(NODE, 'dtn://src/', (T, 5), flags=B.FLAG_ADMIN, data=admin_payload(0))),
        ('forward', mk('dtn://far/x', 'dtn://src/', (T, 6), data=b'FWD', **rq)),
        ('no-route', mk('ipn:9.9', 'dtn://src/', (T, 7), data=b'NOR', **rq)),
        # forwarded by the receive tables but without a transmit route: the forwarding attempt fails
        ('forward-no-tx-route', mk('dtn://lost/x', 'dtn://src/', (T, 8), data=b'LOST', **rq)),
        # the node's own endpoint, payload not flagged as an administrative record
        ('node-endpoint-plain', mk(NODE, 'dtn://src/', (T, 10), data=b'PLAIN')),
        # only in the "twins" scenarios: a second fragmented bundle of the same source made in the same
        # millisecond (next sequence number), and one made a millisecond later
        ('twin-0', mk('dtn://node/app', 'dtn://fsrc/', (T, 10), flags=B.FLAG_IS_FRAGMENT, data=b'uvw', frag_offset=0, total_adu=6)),
        ('twin-3', mk('dtn://node/app', 'dtn://fsrc/', (T, 10), flags=B.FLAG_IS_FRAGMENT, data=b'xyz', frag_offset=3, total_adu=6)),
        ('later-3', mk('dtn://node/app', 'dtn://fsrc/', (T + 1, 9), flags=B.FLAG_IS_FRAGMENT, data=b'klm', frag_offset=3, total_adu=6)),
    ]


MAIN = 14       # the first fourteen bundles are the menu of the general scenarios
TWINS = [4, 5, 14, 15, 16]


# every destination except dtn://lost/... has a transmit route
TX_ROUTES = [('^(?!dtn://lost/).*', 'dtn://next/', None)]


MENU = menu()
ENC = [B.encode(b) for (_n, b) in MENU]


def ident(pri, payload_len=None):
    out = (pri['src'], pri['ts'][0], pri['ts'][1])
    if pri['flags'] & B.FLAG_IS_FRAGMENT:
        # offset and length of the fragment (and the total it belongs to)
        out += (pri['frag_offset'], pri['total_adu'], payload_len)
    return out


def ident_of(bundle):
    return ident(bundle['primary'], len(bundle['blocks'][-1]['data']))


class RefRouter(object):
    '''Reference: identity memory + first-match routing.'''

    def __init__(self, table):
        self.table = [(re.compile(p), a) for (p, a) in table]
        self.seen = set()
        self.delivered = []     # identities an application must have been handed
        self.forwarded = []     # identities that must have been transmitted
        self.frags = {}
        self.payloads = {}      # identity -> application data it must have been delivered with

    def route(self, dest):
        if dest == NODE:
            return 'deliver'
        for (pat, action) in self.table:
            if pat.match(dest):
                return action
        return None

    def receive(self, bundle):
        pri = bundle['primary']
        if pri['src'] == NODE:
            return
        idn = ident_of(bundle)
        if idn in self.seen:
            return
        self.seen.add(idn)
        action = self.route(pri['dest'])
        if action == 'deliver':
            if pri['flags'] & B.FLAG_IS_FRAGMENT:
                base = idn[:3]
                got = self.frags.setdefault(base, {})
                got[pri['frag_offset']] = bundle['blocks'][-1]['data']
                cover = set()
                for (off, data) in got.items():
                    cover.update(range(off, off + len(data)))
                if cover == set(range(pri['total_adu'])):
                    del self.frags[base]
                    # the reassembled bundle enters the receive path like any other
                    if base not in self.seen:
                        self.seen.add(base)
                        if self.route(pri['dest']) == 'deliver':
                            self.delivered.append(base)
                            self.payloads[base] = b''.join(bytes([dict((o + k, d[k]) for (o, d) in got.items() for k in range(len(d)))[i]])
                                                           for i in range(pri['total_adu']))
            else:
                self.delivered.append(idn)
                self.payloads[idn] = bundle['blocks'][-1]['data']
        elif action == 'forward' and not pri['dest'].startswith('dtn://lost/'):
            self.forwarded.append(idn)


def reports_of(world):
    '''Status reports this node has emitted: (subject identity, asserted, reason), sorted.'''
    out = []
    for octets in world.sent():
        dec = B.decode(octets)
        if dec['primary']['flags'] & B.FLAG_ADMIN and dec['primary']['src'] == NODE:
            rep = B.dec_status_report(B.payload(dec))
            out.append((rep['subj_src'], tuple(rep['subj_ts']), rep['frag'], tuple(a for (a, _t) in rep['status']), rep['reason'],
                        dec['primary']['dest']))
    return sorted(out, key=repr)


_SOLO = {}


def solo_reports(table, idx):
    '''Differential reference: what a fresh agent with this table reports about bundle idx
    when that bundle is all it ever receives.'''
    key = (table, idx)
    if key not in _SOLO:
        w = BpWorld(dict(node_id=NODE, rx_routes=TABLES[table], tx_routes=TX_ROUTES))
        w.receive(ENC[idx])
        w.quiesce()
        _SOLO[key] = reports_of(w)
    return _SOLO[key]


class HistWorld(BpWorld):
    def __init__(self, params):
        prm = dict(node_id=NODE, rx_routes=TABLES[params['table']], tx_routes=TX_ROUTES)
        BpWorld.__init__(self, prm)
        self.params.update(params)
        self.depth = 0
        self.ref = RefRouter(TABLES[params['table']])
        self.history = []
        self.ref_reports = []   # reports the first copy of each identity produces on its own

    def canon_extra(self, c):
        BpWorld.canon_extra(self, c)
        c.out.append('depth%d' % self.depth)
        c.walk(sorted(self.ref.seen))
        c.walk(self.ref.delivered)
        c.walk(self.ref.forwarded)
        c.walk([(d['src'], d['ts'], d['dest']) for d in self.probe.seen])
        c.walk([o.hex() for o in self.sent()])
        c.walk(self.ref_reports)

    def enabled_events(self):
        events = []
        if self.runnable(self.proc):
            events.append(('run', 'N'))
        if self.depth < self.params['max_depth']:
            for idx in self.params.get('menu', range(MAIN)):
                events.append(('rx', idx))
        return events

    def is_deviation(self, event):
        return False

    def apply(self, event):
        if event[0] == 'rx':
            idx = event[1]
            self.depth += 1
            self.history.append(MENU[idx][0])
            pri = MENU[idx][1]['primary']
            if pri['src'] != NODE and ident_of(MENU[idx][1]) not in self.ref.seen and not pri['flags'] & B.FLAG_IS_FRAGMENT:
                self.ref_reports.extend(solo_reports(self.params['table'], idx))
            self.ref.receive(MENU[idx][1])
            self.receive(ENC[idx])
            return self.judge(False), True
        (viols, eff) = BpWorld.apply(self, event)
        return list(viols) + self.judge(False), eff

    def observed(self):
        delivered = [(d['src'], d['ts'][0], d['ts'][1]) for d in self.probe.seen]
        forwarded = []
        for octets in self.sent():
            dec = B.decode(octets)
            if not dec['primary']['flags'] & B.FLAG_ADMIN or dec['primary']['src'] != NODE:
                forwarded.append(ident_of(dec))
        return delivered, forwarded

    def v(self, kind, sig, detail):
        return Violation(PROP, 'router', kind, sig, '%s (table %s, history %r)' % (detail, self.params['table'], self.history))

    def judge(self, final):
        out = []
        if self.escaped:
            esc = self.escaped[-1]
            out.append(self.v('exception-escaped-idle-callback', dict(exc=esc[0]), '%s: %s' % (esc[0], esc[2])))
        if self.api_errors:
            err = self.api_errors[-1]
            out.append(self.v('exception-escaped-receive-path', dict(exc=err[0]), '%s: %s' % (err[0], err[1])))
        try:
            (delivered, forwarded) = self.observed()
        except B.Malformed as err:
            return out + [self.v('sent-octets-not-rfc9171', dict(), str(err))]
        ref = self.ref
        for (name, got, want) in (('delivered', delivered, ref.delivered), ('forwarded', forwarded, ref.forwarded)):
            for item in set(got):
                if got.count(item) > 1:
                    out.append(self.v('%s-more-than-once' % name, dict(), 'identity %r %d times' % (item, got.count(item))))
                if item not in want:
                    out.append(self.v('%s-against-reference' % name, dict(), 'identity %r was %s; reference expects %r' % (item, name, want)))
        for d in self.probe.seen:
            idn = (d['src'], d['ts'][0], d['ts'][1])
            data = [bytes.fromhex(b[2]) for b in d['blocks'] if b[0] == 1]
            if idn in ref.payloads and data != [ref.payloads[idn]]:
                out.append(self.v('delivered-with-octets-of-another-bundle', dict(), 'identity %r delivered with %r, its application data is %r'
                                  % (idn, data, ref.payloads[idn])))
        quiescent = not self.runnable(self.proc)
        reports = reports_of(self)
        want_reports = sorted(self.ref_reports, key=repr)
        for item in reports:
            if reports.count(item) > want_reports.count(item):
                out.append(self.v('report-without-first-time-processing', dict(),
                                  'report %r emitted %d times; the first copies of the identities received account for %d'
                                  % (item, reports.count(item), want_reports.count(item))))
                break
        if quiescent and reports != want_reports:
            out.append(self.v('reports-differ-from-first-copies', dict(), 'reports %r, the first copies alone give %r' % (reports, want_reports)))
        if quiescent:
            if sorted(delivered) != sorted(ref.delivered):
                out.append(self.v('deliveries-differ-from-reference', dict(), 'delivered %r, reference %r' % (delivered, ref.delivered)))
            if sorted(forwarded) != sorted(ref.forwarded):
                out.append(self.v('transmissions-differ-from-reference', dict(), 'transmitted %r, reference %r' % (forwarded, ref.forwarded)))
        return out

    def outcome(self):
        return '%d/%d' % (len(self.ref.delivered), len(self.ref.forwarded))


def build(params):
    return HistWorld(params)


# ---------------------------------------------------------------------------
# routing tables that come from the configuration file

RX_POOL = [
    dict(eid_pattern='^dtn://node/.*', action='deliver'),
    dict(eid_pattern='^dtn://blocked/.*', action='delete'),
    dict(eid_pattern='^dtn://.*', action='forward'),
    dict(eid_pattern='.*', action='forward'),
    # entries that cannot be used
    dict(eid_pattern='dtn://(old/.*', action='forward'),
    dict(action='deliver'),
    dict(eid_pattern='^dtn://node/.*'),
    'dtn://node/.* deliver',
]
TX_POOL = [
    dict(eid_pattern='^dtn://far/.*', next_nodeid='dtn://next/', cl_type='udpcl', address='10.0.0.9', port=4556),
    dict(eid_pattern='.*', next_nodeid='dtn://other/', cl_type='udpcl', address='10.0.0.10', port=4556),
    dict(eid_pattern='dtn://[far/.*', next_nodeid='dtn://next/', cl_type='udpcl', address='10.0.0.9', port=4556),
    dict(eid_pattern='^dtn://.*', next_nodeid='dtn://next/'),
]
FILE_DESTS = ['dtn://node/svc', 'dtn://far/svc', 'dtn://blocked/x', 'ipn:5.1', 'dtn://old/a']


def _usable_rx(item):
    if not (isinstance(item, dict) and 'action' in item and isinstance(item.get('eid_pattern'), str)):
        return False
    try:
        re.compile(item['eid_pattern'])
    except re.error:
        return False
    return True


def _usable_tx(item):
    return _usable_rx(dict(item, action='x') if isinstance(item, dict) else item) and 'next_nodeid' in item and 'cl_type' in item


def run_config_tables(params, known):
    '''The routing tables as bp.config.Config.from_file() builds them from a configuration document:
    every receive table of up to 3 entries over a pool of 4 usable and 4 unusable entries (and every
    transmit table of up to 3 over 2 usable + 2 unusable).  The loaded table is the usable entries in
    file order, and five bundles are routed by the first usable matching entry.'''
    import itertools
    import json
    violations = []
    kinds = set()
    count = 0
    keys = set()

    def viol(kind, detail, doc):
        if kind in kinds:
            return
        kinds.add(kind)
        v = Violation(PROP, 'config-file', kind, dict(), '%s (document %s)' % (detail, json.dumps(doc['bp'])[:600])).as_dict()
        violations.append(v)
    docs = []
    fixed_tx = [TX_POOL[1]]
    fixed_rx = [RX_POOL[0], RX_POOL[1], RX_POOL[3]]
    for n in range(0, 4):
        for combo in itertools.product(range(len(RX_POOL)), repeat=n):
            docs.append(([RX_POOL[i] for i in combo], fixed_tx))
    for n in range(0, 4):
        for combo in itertools.product(range(len(TX_POOL)), repeat=n):
            docs.append((fixed_rx, [TX_POOL[i] for i in combo]))
    (part, parts) = (params.get('part', 0), params.get('parts', 1))
    T0 = 700000000000
    for (k, (rx, tx)) in enumerate(docs):
        if k % parts != part:
            continue
        count += 1
        doc = dict(bp=dict(node_id=NODE, rx_route_table=rx, tx_route_table=tx))
        world = BpWorld(dict(node_id='dtn://unset/', rx_routes=[], tx_routes=[], config_text=json.dumps(doc)))
        want_rx = [(i['eid_pattern'], i['action']) for i in rx if _usable_rx(i)]
        want_tx = [(i['eid_pattern'], i['next_nodeid']) for i in tx if _usable_tx(i)]
        got_rx = [(i.eid_pattern.pattern, i.action) for i in world.cfg.rx_route_table]
        got_tx = [(i.eid_pattern.pattern, i.next_nodeid) for i in world.cfg.tx_route_table]
        if got_rx != want_rx:
            viol('receive-table-differs-from-configuration', 'loaded %r, the usable entries in file order are %r' % (got_rx, want_rx), doc)
        if got_tx != want_tx:
            viol('transmit-table-differs-from-configuration', 'loaded %r, the usable entries in file order are %r' % (got_tx, want_tx), doc)
        if world.cfg.node_id != NODE:
            viol('node-id-not-loaded', repr(world.cfg.node_id), doc)
        want_delivered, want_forwarded = [], []
        for (j, dest) in enumerate(FILE_DESTS):
            bundle = dict(primary=dict(flags=0, crc_type=1, dest=dest, src='dtn://src/', report_to='dtn:none', ts=(T0, j), lifetime=3600000),
                          blocks=[dict(type=1, num=1, flags=0, crc_type=1, data=b'D%d' % j)])
            action = next((a for (p, a) in want_rx if re.match(p, dest)), None)
            if action == 'deliver':
                want_delivered.append(('dtn://src/', T0, j))
            elif action == 'forward' and any(re.match(p, dest) for (p, _n) in want_tx):
                want_forwarded.append(('dtn://src/', T0, j))
            keys.add('%s/%s' % (action, dest))
            world.receive(B.encode(bundle))
            world.quiesce()
        if world.escaped or world.api_errors:
            esc = (world.escaped or world.api_errors)[-1]
            viol('exception-escaped', '%s: %s' % (esc[0], esc[1 if world.api_errors else 2]), doc)
            continue
        delivered = [(d['src'], d['ts'][0], d['ts'][1]) for d in world.probe.seen]
        forwarded = []
        for octets in world.sent():
            dec = B.decode(octets)
            if not dec['primary']['flags'] & B.FLAG_ADMIN:
                forwarded.append(ident_of(dec))
        if sorted(delivered) != sorted(want_delivered):
            viol('deliveries-differ-from-configured-first-match', 'delivered %r, the configured table gives %r' % (delivered, want_delivered), doc)
        if sorted(forwarded) != sorted(want_forwarded):
            viol('transmissions-differ-from-configured-first-match', 'transmitted %r, the configured tables give %r' % (forwarded, want_forwarded), doc)
    return dict(name=params['name'], evaluations=count, nontrivial_keys=sorted(keys), violations=violations, known=[], samples=[])


def run_own_source(params, known):
    '''Bundles whose source is this node cause no delivery, forwarding or report - for node IDs
    written in mixed case, in lower case and in the ipn scheme: everything the node emits itself
    (status reports about a received bundle, a bundle of a local application) is fed back to it
    as if the network had returned it.'''
    from .c05 import impl_container
    violations = []
    kinds = set()
    count = 0
    keys = set()
    T0 = 700000000000

    def viol(kind, detail, case):
        if kind in kinds:
            return
        kinds.add(kind)
        v = Violation(PROP, 'router', kind, dict(), '%r: %s' % (case, detail)).as_dict()
        v['case'] = case
        violations.append(v)
    rq = B.FLAG_REQ_RECEPTION | B.FLAG_REQ_FORWARD | B.FLAG_REQ_DELIVERY | B.FLAG_REQ_DELETION
    for node in ('dtn://Node-A/', 'dtn://node-b/', 'dtn://NODE.Example.ORG/', 'ipn:5.0'):
        local = 'ipn:5.7' if node.startswith('ipn') else node + 'svc'
        for table in ('deliver-first', 'forward-first'):
            count += 1
            case = dict(node_id=node, table=table)
            rx = [('^' + re.escape(node[:-1 if node.startswith('dtn') else -2]) + '.*', 'deliver'), ('.*', 'forward')]
            if table == 'forward-first':
                rx.reverse()
            world = BpWorld(dict(node_id=node, rx_routes=rx, tx_routes=TX_ROUTES))
            first = dict(primary=dict(flags=rq, crc_type=1, dest=local, src='dtn://src/', report_to='dtn://rpt/', ts=(T0, 1), lifetime=3600000),
                         blocks=[dict(type=1, num=1, flags=0, crc_type=1, data=b'hello')])
            world.receive(B.encode(first))
            world.quiesce()
            own = impl_container(dict(primary=dict(flags=rq, crc_type=1, dest='dtn://far/x', src=node, report_to='dtn://rpt/', ts=(T0, 2), lifetime=3600000),
                                      blocks=[dict(type=1, num=1, flags=0, crc_type=1, data=b'own')]))
            world.send(own)
            world.quiesce()
            emitted = list(world.sent())
            if world.escaped or world.api_errors:
                esc = (world.escaped or world.api_errors)[-1]
                viol('exception-escaped', '%s: %s' % (esc[0], esc[2] if world.escaped else esc[1]), case)
                continue
            if not emitted:
                viol('scenario-emits-nothing', 'no report and no bundle left the node', case)
                continue
            # what the node originated itself: the administrative records it generated and the application bundle
            # (a forwarded copy of the first bundle, under the forward-first table, is not the node's own)
            mine = []
            for octets in emitted:
                dec = B.decode(octets)
                if dec['primary']['flags'] & B.FLAG_ADMIN or dec['primary']['ts'] == (T0, 2):
                    mine.append(octets)
                    if dec['primary']['src'] != node:
                        viol('emitted-bundle-names-another-source', 'source %r, the node is %r' % (dec['primary']['src'], node), case)
            (n_dlv, n_sent) = (len(world.probe.seen), len(world.sent()))
            for octets in mine:
                world.receive(octets)
                world.quiesce()
            emitted = mine
            keys.add('%s/%s/%d' % (node, table, len(emitted)))
            if len(world.probe.seen) != n_dlv or len(world.sent()) != n_sent:
                new = [B.decode(o)['primary'] for o in world.sent()[n_sent:]]
                viol('own-bundle-processed-when-it-came-back', 'returned %d own bundles: %d new deliveries, new transmissions %r'
                     % (len(emitted), len(world.probe.seen) - n_dlv, [(p['src'], p['dest'], hex(p['flags'])) for p in new]), case)
    return dict(name=params['name'], evaluations=count, nontrivial_keys=sorted(keys), violations=violations, known=[], samples=[])


def run_admin_delivery(params, known):
    '''"Bundles addressed to the node's own administrative endpoint are delivered": a status report
    addressed to the node ID, with every subset of the bundle flags that may accompany an
    administrative record (must-not-fragment, acknowledgement requested, status time) and both with
    and without a creation time, is handed to the administrative element's record handler exactly
    once - observed by wrapping that handler - and a repeat is not.'''
    import itertools
    from .c02 import admin_payload
    violations = []
    kinds = set()
    count = 0
    keys = set()
    T0 = 700000000000

    def viol(kind, detail, case):
        if kind in kinds:
            return
        kinds.add(kind)
        v = Violation(PROP, 'router', kind, dict(), '%r: %s' % (case, detail)).as_dict()
        v['case'] = case
        violations.append(v)
    extra = (B.FLAG_NO_FRAGMENT, 0x20, B.FLAG_STATUS_TIME)
    for (table, form) in itertools.product(('deliver-first', 'forward-first', 'empty'), ('whole', 'two-fragments', 'two-fragments-reversed')):
        for bits in range(1 << len(extra)):
            for ts in ((T0, 1), (0, 5)):
                flags = B.FLAG_ADMIN | sum(f for (i, f) in enumerate(extra) if bits >> i & 1)
                if form != 'whole' and flags & B.FLAG_NO_FRAGMENT:
                    continue
                count += 1
                case = dict(table=table, flags=hex(flags), creation=list(ts), arrives_as=form)
                world = BpWorld(dict(node_id=NODE, rx_routes=TABLES[table], tx_routes=TX_ROUTES))
                app = world.app('admin')
                handlers = getattr(app, '_rec_type_map', None)
                if not isinstance(handlers, dict) or 1 not in handlers:
                    raise HarnessError('the administrative application no longer keeps its record handlers in _rec_type_map')
                calls = []
                orig = handlers[1]
                handlers[1] = lambda ctr, msg, orig=orig: (calls.append(1), orig(ctr, msg))[1]
                blocks = [dict(type=1, num=1, flags=0, crc_type=1, data=admin_payload(0))]
                if ts[0] == 0:
                    blocks.insert(0, dict(type=B.T_AGE, num=2, flags=0, crc_type=1, data=B.enc_age(10)))
                bundle = dict(primary=dict(flags=flags, crc_type=1, dest=NODE, src='dtn://src/', report_to='dtn:none', ts=ts, lifetime=3600000), blocks=blocks)
                if form == 'whole':
                    arrivals = [B.encode(bundle)]
                else:
                    # cut in two on its way (the age block of a clockless source travels in both fragments)
                    record = blocks[-1]['data']
                    half = len(record) // 2
                    arrivals = []
                    for (lo, hi) in ((0, half), (half, len(record))):
                        fb = [dict(b) for b in blocks[:-1]] + [dict(type=1, num=1, flags=0, crc_type=1, data=record[lo:hi])]
                        arrivals.append(B.encode(dict(primary=dict(bundle['primary'], flags=flags | B.FLAG_IS_FRAGMENT, frag_offset=lo, total_adu=len(record)),
                                                      blocks=fb)))
                    if form.endswith('reversed'):
                        arrivals.reverse()
                for _ in (1, 2):
                    for octets in arrivals:
                        world.receive(octets)
                        world.quiesce()
                keys.add('%s/%x/%d/%s' % (table, flags, ts[0], form))
                if world.escaped or world.api_errors:
                    esc = (world.escaped or world.api_errors)[-1]
                    viol('exception-escaped', '%s: %s' % (esc[0], esc[2] if world.escaped else esc[1]), case)
                elif len(calls) != 1:
                    viol('administrative-record-not-handed-to-the-administrative-element-once', 'record handler ran %d times' % len(calls), case)
                elif world.sent():
                    viol('transmissions-differ-from-reference', 'the record was also transmitted', case)
    return dict(name=params['name'], evaluations=count, nontrivial_keys=sorted(keys), violations=violations, known=[], samples=[])


def run_report_over_mtu(params, known):
    """The status report about a received bundle is itself larger than the MTU of the route to the
    report-to endpoint and leaves in fragments: the node comes to rest, and the fragments it hands to
    the convergence layer cover the report exactly once (one report per received identity, also when
    the bundle arrives again)."""
    violations = []
    kinds = set()
    count = 0
    keys = set()
    T0 = 700000000000

    def viol(kind, detail, case):
        if kind in kinds:
            return
        kinds.add(kind)
        v = Violation(PROP, 'router', kind, dict(), '%r: %s' % (case, detail)).as_dict()
        v['case'] = case
        violations.append(v)
    rq = B.FLAG_REQ_RECEPTION | B.FLAG_REQ_DELIVERY | B.FLAG_STATUS_TIME
    for mtu in list(range(96, 114)) + [None]:
        for repeats in (1, 2):
            count += 1
            case = dict(report_route_mtu=mtu, arrivals=repeats)
            world = BpWorld(dict(node_id=NODE, rx_routes=TABLES['deliver-first'], tx_routes=[('^dtn://rpt/.*', 'dtn://next/', mtu), ('.*', 'dtn://next/', None)],
                                 max_quiesce=300))
            bundle = dict(primary=dict(flags=rq, crc_type=1, dest='dtn://node/svc', src='dtn://src/', report_to='dtn://rpt/x', ts=(T0, 1), lifetime=3600000),
                          blocks=[dict(type=1, num=1, flags=0, crc_type=1, data=b'hello')])
            try:
                for _ in range(repeats):
                    world.receive(B.encode(bundle))
                    world.quiesce()
            except HarnessError as err:
                viol('node-never-comes-to-rest', '%s; %d bundles handed to the convergence layer so far' % (err, len(world.sent())), case)
                continue
            keys.add('%s/%d' % (mtu, repeats))
            if world.escaped and all('too large for route MTU' in e[2] for e in world.escaped) and not world.sent():
                continue        # the report's own headers exceed this MTU: it cannot leave at all
            if world.escaped or world.api_errors:
                esc = (world.escaped or world.api_errors)[-1]
                viol('exception-escaped', '%s: %s' % (esc[0], esc[2] if world.escaped else esc[1]), case)
                continue
            whole = []
            cover = {}
            for octets in world.sent():
                if mtu is not None and len(octets) > mtu:
                    viol('transmissions-differ-from-reference', '%d octets on an MTU-%s route' % (len(octets), mtu), case)
                dec = B.decode(octets)
                pri = dec['primary']
                if pri['flags'] & B.FLAG_IS_FRAGMENT:
                    ent = cover.setdefault((pri['src'], tuple(pri['ts']), pri['total_adu']), [0] * pri['total_adu'])
                    for i in range(pri['frag_offset'], pri['frag_offset'] + len(B.payload(dec))):
                        ent[i] += 1
                else:
                    whole.append(dec)
            nreports = len(whole) + len(cover)
            if len(world.probe.seen) != 1:
                viol('deliveries-differ-from-reference', '%d deliveries' % len(world.probe.seen), case)
            if nreports < 1 or nreports > 2 or any(c != 1 for ent in cover.values() for c in ent):
                viol('report-without-first-time-processing', '%d whole reports, fragment coverage %r' % (len(whole), [sorted(set(ent)) for ent in cover.values()]), case)
    return dict(name=params['name'], evaluations=count, nontrivial_keys=sorted(keys), violations=violations, known=[], samples=[])


def run_ipn3(params, known):
    '''Three-number ipn endpoint IDs (allocator.node.service): sources that differ only in the
    third number are different identities, a destination that differs from a routed one only by
    having a third number matches no route, and a bundle from ipn:A.0.9 is not a bundle of the node
    ipn:A.0.'''
    violations = []
    kinds = set()
    count = 0
    keys = set()
    T0 = 700000000000

    def viol(kind, detail, case):
        if kind in kinds:
            return
        kinds.add(kind)
        v = Violation(PROP, 'router', kind, dict(), '%r: %s' % (case, detail)).as_dict()
        v['case'] = case
        violations.append(v)

    def mk(src, dest, seq, data):
        return B.encode(dict(primary=dict(flags=0, crc_type=1, dest=dest, src=src, report_to='dtn:none', ts=(T0, seq), lifetime=3600000),
                             blocks=[dict(type=1, num=1, flags=0, crc_type=1, data=data)]))
    cases = [
        ('sources-differ-in-third-number', 'ipn:977000.9.0', [('^ipn:977000\\.9\\.', 'deliver')],
         [('ipn:977000.100.1', 'ipn:977000.9.4', 5, b'one'), ('ipn:977000.100.2', 'ipn:977000.9.4', 5, b'two'), ('ipn:977000.100', 'ipn:977000.9.4', 5, b'three')],
         3),
        ('destination-with-third-number-matches-no-route', 'ipn:977000.9.0', [('^ipn:977000\\.7$', 'deliver')],
         [('ipn:5.1', 'ipn:977000.7.3', 1, b'x'), ('ipn:5.1', 'ipn:977000.7', 2, b'y')], 1),
        ('other-node-with-third-number-is-not-this-node', 'ipn:4196183048.0', [('.*', 'deliver')],
         [('ipn:4196183048.0.9', 'ipn:4196183048.0.1', 1, b'z')], 1),
    ]
    for (name, node, rx, arrivals, want) in cases:
        for order in (arrivals, list(reversed(arrivals))):
            count += 1
            case = dict(case=name, arrivals=[(a[0], a[1]) for a in order])
            world = BpWorld(dict(node_id=node, rx_routes=[(p.replace('\\\\', '\\'), a) for (p, a) in rx], tx_routes=TX_ROUTES))
            for (src, dest, seq, data) in order:
                world.receive(mk(src, dest, seq, data))
                world.quiesce()
            keys.add('%s/%d' % (name, count))
            if world.escaped or world.api_errors:
                esc = (world.escaped or world.api_errors)[-1]
                viol('exception-escaped', '%s: %s' % (esc[0], esc[2] if world.escaped else esc[1]), case)
                continue
            got = [(d['src'], [bytes.fromhex(b[2]) for b in d['blocks'] if b[0] == 1]) for d in world.probe.seen]
            if len(got) != want or len(world.sent()):
                viol('deliveries-differ-from-reference', 'delivered %r (reference: %d deliveries, nothing transmitted; transmitted %d)'
                     % (got, want, len(world.sent())), case)
    return dict(name=params['name'], evaluations=count, nontrivial_keys=sorted(keys), violations=violations, known=[], samples=[])


def run_long_history(params, known):
    '''A delivered and a forwarded bundle, then N other bundles, then the two again: acted on once
    whatever N (the identity memory does not forget while the agent runs).'''
    violations = []
    kinds = set()
    count = 0
    keys = set()
    T0 = 700000000000

    def other(i):
        pri = dict(flags=0, crc_type=1, dest='dtn://node/svc' if i % 2 else 'dtn://far/y', src='dtn://bulk/', report_to='dtn:none',
                   ts=(T0 + 9, i), lifetime=3600000)
        return B.encode(dict(primary=pri, blocks=[dict(type=1, num=1, flags=0, crc_type=1, data=b'bulk%d' % i)]))
    names = [n for (n, _b) in MENU]
    (local, fwd) = (ENC[names.index('local')], ENC[names.index('forward')])
    for gap in (0, 1, 255, 256, 257, 300, 1100):
        count += 1
        world = BpWorld(dict(node_id=NODE, rx_routes=TABLES['deliver-first'], tx_routes=TX_ROUTES, max_quiesce=4000))
        for data in [local, fwd] + [other(i + 1) for i in range(gap)] + [local, fwd, fwd, local]:
            world.receive(data)
            world.quiesce()
        keys.add('gap-%d' % gap)
        found = None
        if world.escaped or world.api_errors:
            esc = (world.escaped or world.api_errors)[-1]
            found = ('exception-escaped', '%s: %s' % (esc[0], esc[2] if world.escaped else esc[1]))
        else:
            delivered = [(d['src'], d['ts'][0], d['ts'][1]) for d in world.probe.seen]
            forwarded = []
            reports = 0
            for octets in world.sent():
                dec = B.decode(octets)
                if dec['primary']['flags'] & B.FLAG_ADMIN and dec['primary']['src'] == NODE:
                    reports += 1
                else:
                    forwarded.append(ident_of(dec))
            want_d = [('dtn://src/', T0, 1)] + [('dtn://bulk/', T0 + 9, i + 1) for i in range(gap) if (i + 1) % 2]
            want_f = [('dtn://src/', T0, 6)] + [('dtn://bulk/', T0 + 9, i + 1) for i in range(gap) if not (i + 1) % 2]
            if sorted(delivered) != sorted(want_d):
                found = ('deliveries-differ-from-reference', '%d deliveries (of dtn://src/: %r), reference %d'
                         % (len(delivered), [d for d in delivered if d[0] == 'dtn://src/'], len(want_d)))
            elif sorted(forwarded) != sorted(want_f):
                found = ('transmissions-differ-from-reference', '%d transmissions (of dtn://src/: %r), reference %d'
                         % (len(forwarded), [d for d in forwarded if d[0] == 'dtn://src/'], len(want_f)))
            elif reports != len(solo_reports('deliver-first', names.index('local'))) + len(solo_reports('deliver-first', names.index('forward'))):
                found = ('report-without-first-time-processing', '%d reports emitted' % reports)
        if found and found[0] not in kinds:
            kinds.add(found[0])
            v = Violation(PROP, 'router', found[0], dict(), '%d other bundles between the first copies and the repeats: %s' % (gap, found[1])).as_dict()
            v['case'] = dict(gap=gap)
            violations.append(v)
    return dict(name=params['name'], evaluations=count, nontrivial_keys=sorted(keys), violations=violations, known=[], samples=[])


def scenarios(tier):
    depth = 4 if tier == 'thorough' else 3
    out = []
    # (the largest graph of the unchanged tree has a few thousand states; the bounds below only stop a search that a
    # defect has made unbounded - state that grows with the history - and are reported as caps when hit)
    caps = dict(max_states=300000, time_cap_s=7200) if tier == 'thorough' else dict(max_states=40000, time_cap_s=900)
    for table in TABLES:
        # split by first event for parallelism; the thorough tier goes one arrival deeper under the two tables
        # with overlapping entries in opposite orders (an hour of search for all five brought nothing new)
        tdepth = depth if (tier != 'thorough' or table in ('overlap-a', 'forward-first')) else depth - 1
        for first in range(MAIN):
            out.append(dict(name='%s/first-%s' % (table, MENU[first][0]), kind='graph',
                            params=dict(table=table, max_depth=tdepth, first=first), dev_bound=0, use_snapshot=False,
                            liveness=False, weight=1, **caps))
    # fragments of look-alike bundles (same source and time, next sequence number; a millisecond later), interleaved
    for table in ('deliver-first', 'overlap-b'):
        for first in TWINS:
            out.append(dict(name='twins/%s/first-%s' % (table, MENU[first][0]), kind='graph',
                            params=dict(table=table, max_depth=depth + 1, first=first, menu=TWINS), dev_bound=0, use_snapshot=False,
                            liveness=False, weight=1, **caps))
    out.append(dict(name='admin-delivery', kind='enum', runner='run_admin_delivery', params=dict(name='admin-delivery'), weight=3))
    out.append(dict(name='report-over-mtu', kind='enum', runner='run_report_over_mtu', params=dict(name='report-over-mtu'), weight=3))
    out.append(dict(name='ipn3', kind='enum', runner='run_ipn3', params=dict(name='ipn3'), weight=3))
    out.append(dict(name='own-source', kind='enum', runner='run_own_source', params=dict(name='own-source'), weight=3))
    out.append(dict(name='long-history', kind='enum', runner='run_long_history', params=dict(name='long-history'), weight=3))
    for part in range(4):
        name = 'config-tables-%d/4' % (part + 1)
        out.append(dict(name=name, kind='enum', runner='run_config_tables', params=dict(name=name, part=part, parts=4), weight=3))
    return out


_orig_build = build


def build(params):  # noqa: F811
    world = HistWorld(params)
    if 'first' in params:
        (viols, _e) = world.apply(('rx', params['first']))
        world.prefix_violations = list(viols)
    return world


def _check_state(self):
    pend = getattr(self, 'prefix_violations', None)
    if pend:
        self.prefix_violations = []
        return pend
    return []


HistWorld.check_state = _check_state

ASSUMPTIONS = [
    'receive histories of at most 3 (quick) / 4 (thorough, under the tables overlap-a and forward-first; 3 under the others) bundles from a menu of fourteen, idle callbacks interleaved in every order',
    'twins scenarios: histories of at most 4 (quick) / 5 (thorough) fragments of three look-alike fragmented bundles (same source; same time and the next sequence number; a millisecond later), under two tables',
    'a delivered bundle carries its own application data (for a reassembled one: the octets of its own fragments)',
    'configuration file: every receive table of up to 3 entries over 4 usable + 4 unusable entries (670 documents with the transmit tables of up to 3 over 2 + 2), read by the JSON-subset stand-in for PyYAML; five destinations routed through each',
    'administrative delivery: a status report for the node ID under three tables x 8 flag subsets x with / without creation time, handed to the record handler of the administrative application (wrapped by the harness) once',
    'a status report larger than the MTU of the route to the report-to endpoint (every MTU from 96 to 113, and none), the subject arriving once and twice',
    'three-number ipn endpoint IDs: look-alike sources, a destination one number longer than the routed one, a foreign node one number longer than this node',
    'own source: node IDs in mixed case, lower case, with dots and in the ipn scheme; the reports and the application bundle the node emitted are fed back to it',
    'long histories: 0, 1, 255, 256, 257, 300 and 1100 other bundles between the first copies of a delivered and a forwarded bundle and their repeats',
    'routing patterns are matched with re.match (anchored at the start) as the configuration loader compiles them',
    'a bundle addressed to the node\'s own administrative endpoint is delivered whatever the table says',
    'four menu bundles request every status report towards a routed report-to endpoint; the reports expected for a history are those a fresh agent emits for the first copy of each identity alone (differential reference), as an upper bound in every state and exactly when quiescent',
]

RULE = ('explicit-state search by replay on fresh real agents: all receive histories up to the depth bound over fourteen '
        'bundles x five routing tables with idle callbacks interleaved; a reference router with identity memory decides '
        'expected deliveries/transmissions; compared exactly in every quiescent state, as an upper bound in every state')


def evidence(tier, seed, scens, results, wall_s):
    graphs = [r for r in results if r and r.get('kind') == 'graph']
    enums = [r for r in results if r and r.get('kind') == 'enum']
    ev = graph_evidence(PROP, tier, seed, [sc for sc in scens if sc['kind'] == 'graph'], graphs, wall_s, ASSUMPTIONS, RULE)
    cov = ev['coverage']
    cov['evaluations'] = sum(r.get('evaluations', 0) for r in enums)
    keys = set()
    for r in enums:
        keys.update(r.get('nontrivial_keys', []))
    cov['distinct_nontrivial'] = len(keys)
    cov['exhaustive'] = cov['exhaustive'] and len([r for r in results if r and r.get('kind') != 'error']) == len(results)
    return ev
