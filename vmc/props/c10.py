'''C10 - the BP agent processes each received bundle at most once and routes by
first match.

State graph over receive histories: events "bundle i of the menu arrives" (any
bundle, repeats allowed) and "the agent runs one pending idle callback", over a
menu of fourteen bundles (look-alikes differing in exactly one identity component,
a fragment pair, own-source, administrative-endpoint, forward and no-route
destinations) and five routing tables.  A reference router with identity
memory predicts deliveries and transmissions.'''
import re

from ..bp_world import BpWorld
from ..world import Violation, HarnessError
from ..oracle import bpv7 as B
from ..evidence import graph_evidence
from .c02 import admin_payload

PROP = 'C10'
NODE = 'dtn://node/'

TABLES = {
    'deliver-first': [('^dtn://node/.*', 'deliver'), ('.*', 'forward')],
    'forward-first': [('.*', 'forward'), ('^dtn://node/.*', 'deliver')],
    'overlap-a': [('^dtn://node/s.*', 'delete'), ('^dtn://node/.*', 'deliver'), ('^dtn://.*', 'forward')],
    'overlap-b': [('^dtn://.*', 'forward'), ('^dtn://node/.*', 'deliver'), ('^dtn://node/s.*', 'delete')],
    'empty': [],
}


def menu():
    def mk(dest, src, ts, flags=0, data=b'data', **over):
        pri = dict(flags=flags, crc_type=1, dest=dest, src=src, report_to='dtn:none', ts=ts, lifetime=3600000)
        pri.update(over)
        return dict(primary=pri, blocks=[dict(type=1, num=1, flags=0, crc_type=1, data=data)])
    T = 700000000000
    # these ask for every status report, to a report-to endpoint that is routed out of the node
    rq = dict(flags=B.FLAG_REQ_RECEPTION | B.FLAG_REQ_FORWARD | B.FLAG_REQ_DELIVERY | B.FLAG_REQ_DELETION, report_to='dtn://rpt/')
    return [
        ('local', mk('dtn://node/svc', 'dtn://src/', (T, 1), data=b'L0', **rq)),
        ('local-seq', mk('dtn://node/svc', 'dtn://src/', (T, 2), data=b'L1')),
        ('local-src', mk('dtn://node/svc', 'dtn://src2/', (T, 1), data=b'L2')),
        ('local-time', mk('dtn://node/svc', 'dtn://src/', (T + 1, 1), data=b'L3')),
        ('frag-0', mk('dtn://node/app', 'dtn://fsrc/', (T, 9), flags=B.FLAG_IS_FRAGMENT, data=b'abc', frag_offset=0, total_adu=6)),
        ('frag-3', mk('dtn://node/app', 'dtn://fsrc/', (T, 9), flags=B.FLAG_IS_FRAGMENT, data=b'def', frag_offset=3, total_adu=6)),
        # fragments of a bundle in transit, cut at another place on another path: same offset, other length
        ('fwd-frag-0-60', mk('dtn://far/x', 'dtn://src/', (T, 11), flags=B.FLAG_IS_FRAGMENT, data=bytes(range(60)), frag_offset=0, total_adu=100)),
        ('fwd-frag-0-40', mk('dtn://far/x', 'dtn://src/', (T, 11), flags=B.FLAG_IS_FRAGMENT, data=bytes(range(40)), frag_offset=0, total_adu=100)),
        ('own-source', mk('dtn://node/svc', NODE, (T, 1), data=b'OWN', **rq)),
        ('admin-endpoint', mk(NODE, 'dtn://src/', (T, 5), flags=B.FLAG_ADMIN, data=admin_payload(0))),
        ('forward', mk('dtn://far/x', 'dtn://src/', (T, 6), data=b'FWD', **rq)),
        ('no-route', mk('ipn:9.9', 'dtn://src/', (T, 7), data=b'NOR', **rq)),
        # forwarded by the receive tables but without a transmit route: the forwarding attempt fails
        ('forward-no-tx-route', mk('dtn://lost/x', 'dtn://src/', (T, 8), data=b'LOST', **rq)),
        # the node's own endpoint, payload not flagged as an administrative record
        ('node-endpoint-plain', mk(NODE, 'dtn://src/', (T, 10), data=b'PLAIN')),
    ]


# every destination except dtn://lost/... has a transmit route
TX_ROUTES = [('^(?!dtn://lost/).*', 'dtn://next/', None)]


MENU = menu()
ENC = [B.encode(b) for (_n, b) in MENU]


def ident(pri, payload_len=None):
    out = (pri['src'], pri['ts'][0], pri['ts'][1])
    if pri['flags'] & B.FLAG_IS_FRAGMENT:
        # offset and length of the fragment (and the total it belongs to)
        out += (pri['frag_offset'], pri['total_adu'], payload_len)
    return out


def ident_of(bundle):
    return ident(bundle['primary'], len(bundle['blocks'][-1]['data']))


class RefRouter(object):
    '''Reference: identity memory + first-match routing.'''

    def __init__(self, table):
        self.table = [(re.compile(p), a) for (p, a) in table]
        self.seen = set()
        self.delivered = []     # identities an application must have been handed
        self.forwarded = []     # identities that must have been transmitted
        self.frags = {}

    def route(self, dest):
        if dest == NODE:
            return 'deliver'
        for (pat, action) in self.table:
            if pat.match(dest):
                return action
        return None

    def receive(self, bundle):
        pri = bundle['primary']
        if pri['src'] == NODE:
            return
        idn = ident_of(bundle)
        if idn in self.seen:
            return
        self.seen.add(idn)
        action = self.route(pri['dest'])
        if action == 'deliver':
            if pri['flags'] & B.FLAG_IS_FRAGMENT:
                base = idn[:3]
                got = self.frags.setdefault(base, {})
                got[pri['frag_offset']] = bundle['blocks'][-1]['data']
                cover = set()
                for (off, data) in got.items():
                    cover.update(range(off, off + len(data)))
                if cover == set(range(pri['total_adu'])):
                    del self.frags[base]
                    # the reassembled bundle enters the receive path like any other
                    if base not in self.seen:
                        self.seen.add(base)
                        if self.route(pri['dest']) == 'deliver':
                            self.delivered.append(base)
            else:
                self.delivered.append(idn)
        elif action == 'forward' and not pri['dest'].startswith('dtn://lost/'):
            self.forwarded.append(idn)


def reports_of(world):
    '''Status reports this node has emitted: (subject identity, asserted, reason), sorted.'''
    out = []
    for octets in world.sent():
        dec = B.decode(octets)
        if dec['primary']['flags'] & B.FLAG_ADMIN and dec['primary']['src'] == NODE:
            rep = B.dec_status_report(B.payload(dec))
            out.append((rep['subj_src'], tuple(rep['subj_ts']), rep['frag'], tuple(a for (a, _t) in rep['status']), rep['reason'],
                        dec['primary']['dest']))
    return sorted(out, key=repr)


_SOLO = {}


def solo_reports(table, idx):
    '''Differential reference: what a fresh agent with this table reports about bundle idx
    when that bundle is all it ever receives.'''
    key = (table, idx)
    if key not in _SOLO:
        w = BpWorld(dict(node_id=NODE, rx_routes=TABLES[table], tx_routes=TX_ROUTES))
        w.receive(ENC[idx])
        w.quiesce()
        _SOLO[key] = reports_of(w)
    return _SOLO[key]


class HistWorld(BpWorld):
    def __init__(self, params):
        prm = dict(node_id=NODE, rx_routes=TABLES[params['table']], tx_routes=TX_ROUTES)
        BpWorld.__init__(self, prm)
        self.params.update(params)
        self.depth = 0
        self.ref = RefRouter(TABLES[params['table']])
        self.history = []
        self.ref_reports = []   # reports the first copy of each identity produces on its own

    def canon_extra(self, c):
        BpWorld.canon_extra(self, c)
        c.out.append('depth%d' % self.depth)
        c.walk(sorted(self.ref.seen))
        c.walk(self.ref.delivered)
        c.walk(self.ref.forwarded)
        c.walk([(d['src'], d['ts'], d['dest']) for d in self.probe.seen])
        c.walk([o.hex() for o in self.sent()])
        c.walk(self.ref_reports)

    def enabled_events(self):
        events = []
        if self.runnable(self.proc):
            events.append(('run', 'N'))
        if self.depth < self.params['max_depth']:
            for idx in range(len(MENU)):
                if idx in self.params.get('menu', range(len(MENU))):
                    events.append(('rx', idx))
        return events

    def is_deviation(self, event):
        return False

    def apply(self, event):
        if event[0] == 'rx':
            idx = event[1]
            self.depth += 1
            self.history.append(MENU[idx][0])
            pri = MENU[idx][1]['primary']
            if pri['src'] != NODE and ident_of(MENU[idx][1]) not in self.ref.seen and not pri['flags'] & B.FLAG_IS_FRAGMENT:
                self.ref_reports.extend(solo_reports(self.params['table'], idx))
            self.ref.receive(MENU[idx][1])
            self.receive(ENC[idx])
            return self.judge(False), True
        (viols, eff) = BpWorld.apply(self, event)
        return list(viols) + self.judge(False), eff

    def observed(self):
        delivered = [(d['src'], d['ts'][0], d['ts'][1]) for d in self.probe.seen]
        forwarded = []
        for octets in self.sent():
            dec = B.decode(octets)
            if not dec['primary']['flags'] & B.FLAG_ADMIN or dec['primary']['src'] != NODE:
                forwarded.append(ident_of(dec))
        return delivered, forwarded

    def v(self, kind, sig, detail):
        return Violation(PROP, 'router', kind, sig, '%s (table %s, history %r)' % (detail, self.params['table'], self.history))

    def judge(self, final):
        out = []
        if self.escaped:
            esc = self.escaped[-1]
            out.append(self.v('exception-escaped-idle-callback', dict(exc=esc[0]), '%s: %s' % (esc[0], esc[2])))
        if self.api_errors:
            err = self.api_errors[-1]
            out.append(self.v('exception-escaped-receive-path', dict(exc=err[0]), '%s: %s' % (err[0], err[1])))
        try:
            (delivered, forwarded) = self.observed()
        except B.Malformed as err:
            return out + [self.v('sent-octets-not-rfc9171', dict(), str(err))]
        ref = self.ref
        for (name, got, want) in (('delivered', delivered, ref.delivered), ('forwarded', forwarded, ref.forwarded)):
            for item in set(got):
                if got.count(item) > 1:
                    out.append(self.v('%s-more-than-once' % name, dict(), 'identity %r %d times' % (item, got.count(item))))
                if item not in want:
                    out.append(self.v('%s-against-reference' % name, dict(), 'identity %r was %s; reference expects %r' % (item, name, want)))
        quiescent = not self.runnable(self.proc)
        reports = reports_of(self)
        want_reports = sorted(self.ref_reports, key=repr)
        for item in reports:
            if reports.count(item) > want_reports.count(item):
                out.append(self.v('report-without-first-time-processing', dict(),
                                  'report %r emitted %d times; the first copies of the identities received account for %d'
                                  % (item, reports.count(item), want_reports.count(item))))
                break
        if quiescent and reports != want_reports:
            out.append(self.v('reports-differ-from-first-copies', dict(), 'reports %r, the first copies alone give %r' % (reports, want_reports)))
        if quiescent:
            if sorted(delivered) != sorted(ref.delivered):
                out.append(self.v('deliveries-differ-from-reference', dict(), 'delivered %r, reference %r' % (delivered, ref.delivered)))
            if sorted(forwarded) != sorted(ref.forwarded):
                out.append(self.v('transmissions-differ-from-reference', dict(), 'transmitted %r, reference %r' % (forwarded, ref.forwarded)))
        return out

    def outcome(self):
        return '%d/%d' % (len(self.ref.delivered), len(self.ref.forwarded))


def build(params):
    return HistWorld(params)


def scenarios(tier):
    depth = 4 if tier == 'thorough' else 3
    out = []
    for table in TABLES:
        # split by first event for parallelism
        for first in range(len(MENU)):
            out.append(dict(name='%s/first-%s' % (table, MENU[first][0]), kind='graph',
                            params=dict(table=table, max_depth=depth, first=first), dev_bound=0, use_snapshot=False,
                            liveness=False, max_states=500000, weight=1))
    return out


_orig_build = build


def build(params):  # noqa: F811
    world = HistWorld(params)
    if 'first' in params:
        (viols, _e) = world.apply(('rx', params['first']))
        world.prefix_violations = list(viols)
    return world


def _check_state(self):
    pend = getattr(self, 'prefix_violations', None)
    if pend:
        self.prefix_violations = []
        return pend
    return []


HistWorld.check_state = _check_state

ASSUMPTIONS = [
    'receive histories of at most 3 (quick) / 4 (thorough) bundles from a menu of fourteen, idle callbacks interleaved in every order',
    'routing patterns are matched with re.match (anchored at the start) as the configuration loader compiles them',
    'a bundle addressed to the node\'s own administrative endpoint is delivered whatever the table says',
    'four menu bundles request every status report towards a routed report-to endpoint; the reports expected for a history are those a fresh agent emits for the first copy of each identity alone (differential reference), as an upper bound in every state and exactly when quiescent',
]

RULE = ('explicit-state search by replay on fresh real agents: all receive histories up to the depth bound over fourteen '
        'bundles x five routing tables with idle callbacks interleaved; a reference router with identity memory decides '
        'expected deliveries/transmissions; compared exactly in every quiescent state, as an upper bound in every state')


def evidence(tier, seed, scens, results, wall_s):
    return graph_evidence(PROP, tier, seed, scens, results, wall_s, ASSUMPTIONS, RULE)
