'''C06 - fragments reassemble to the original bundle once, in any arrival order.

State graph over arrival histories at one real BP agent: any element of the
alphabet may arrive next (repeats allowed) or the agent runs one pending idle
callback.  Alphabet: an even and an uneven/overlapping fragmentation of bundle
X, the unfragmented X, and fragment pairs of two look-alikes (other source,
other sequence number) carrying different payload octets and a distinguishing
extension block.  Reference: coverage as a set of integers per bundle
identity.'''
from ..bp_world import BpWorld
from ..world import Violation
from ..oracle import bpv7 as B
from ..evidence import graph_evidence

PROP = 'C06'
NODE = 'dtn://node/'
T = 700000000000

from .c02 import admin_payload

# mark: data of an extension block carried by the first fragment only (with CRC-16 / CRC-32 / none)
BUNDLES = {
    'X': dict(src='dtn://src/', ts=(T, 1), payload=b'ABCDEF', mark=b'\x01', mark_crc=1),
    'Y': dict(src='dtn://other/', ts=(T, 1), payload=b'uvwxyz', mark=b'\x02', mark_crc=2),
    'Z': dict(src='dtn://src/', ts=(T, 2), payload=b'123456', mark=b'\x03', mark_crc=0),
    # source differing from X's only in the query part of the endpoint ID
    'W': dict(src='dtn://src/?w', ts=(T, 1), payload=b'pqrstu', mark=b'\x05', mark_crc=2),
    # an administrative record (status report) addressed to the node itself, fragmented on its way
    'A': dict(src='dtn://src/', ts=(T, 3), payload=admin_payload(1), mark=b'\x04', mark_crc=1, dest=NODE, flags=B.FLAG_ADMIN),
    # the extension block of the first fragment carries reserved block-flag bits (and a CRC over them)
    'V': dict(src='dtn://vsrc/', ts=(T, 1), payload=b'GHIJKL', mark=b'\x06', mark_crc=1, mark_flags=0x28),
    # the extension block of the first fragment is of a type the node knows (hop count) but carries zero-length
    # data (under CRC-16): whatever it means, it is the first fragment's block and is delivered as it came
    'U': dict(src='dtn://usrc/', ts=(T, 1), payload=b'MNOPQR', mark=b'', mark_crc=1, mark_type=10),
    # a bundle in transit (for another node): forwarded, never delivered here
    'T': dict(src='dtn://src/', ts=(T, 7), payload=b'transit', mark=b'\x07', mark_crc=1, dest='dtn://far/x', transit=True),
}


def frag(name, lo, hi):
    b = BUNDLES[name]
    pri = dict(flags=B.FLAG_IS_FRAGMENT | b.get('flags', 0), crc_type=1, dest=b.get('dest', 'dtn://node/app'), src=b['src'],
               report_to='dtn:none', ts=b['ts'], lifetime=3600000, frag_offset=lo, total_adu=len(b['payload']))
    blocks = []
    if lo == 0:
        blocks.append(dict(type=b.get('mark_type', 200), num=2, flags=b.get('mark_flags', 0), crc_type=b['mark_crc'], data=b['mark']))
    blocks.append(dict(type=1, num=1, flags=0, crc_type=2, data=b['payload'][lo:hi]))
    return dict(primary=pri, blocks=blocks)


def whole(name):
    b = BUNDLES[name]
    pri = dict(flags=b.get('flags', 0), crc_type=1, dest=b.get('dest', 'dtn://node/app'), src=b['src'], report_to='dtn:none',
               ts=b['ts'], lifetime=3600000)
    return dict(primary=pri, blocks=[dict(type=b.get('mark_type', 200), num=2, flags=b.get('mark_flags', 0), crc_type=b['mark_crc'], data=b['mark']),
                                    dict(type=1, num=1, flags=0, crc_type=2, data=b['payload'])])


AN = len(BUNDLES['A']['payload'])
AH = AN // 2


def alphabet():
    return [
        ('X[0,2)', 'X', (0, 2), frag('X', 0, 2)), ('X[2,4)', 'X', (2, 4), frag('X', 2, 4)), ('X[4,6)', 'X', (4, 6), frag('X', 4, 6)),
        ('X[0,3)', 'X', (0, 3), frag('X', 0, 3)), ('X[2,5)', 'X', (2, 5), frag('X', 2, 5)), ('X[3,6)', 'X', (3, 6), frag('X', 3, 6)),
        ('X', 'X', None, whole('X')),
        ('Y[0,3)', 'Y', (0, 3), frag('Y', 0, 3)), ('Y[3,6)', 'Y', (3, 6), frag('Y', 3, 6)),
        ('Z[0,3)', 'Z', (0, 3), frag('Z', 0, 3)), ('Z[3,6)', 'Z', (3, 6), frag('Z', 3, 6)),
        ('A[0,h)', 'A', (0, AH), frag('A', 0, AH)), ('A[h,n)', 'A', (AH, AN), frag('A', AH, AN)), ('A', 'A', None, whole('A')),
        ('W[0,3)', 'W', (0, 3), frag('W', 0, 3)), ('W[3,6)', 'W', (3, 6), frag('W', 3, 6)),
        ('V[0,3)', 'V', (0, 3), frag('V', 0, 3)), ('V[3,6)', 'V', (3, 6), frag('V', 3, 6)),
        ('T', 'T', None, whole('T')),
        ('U[0,3)', 'U', (0, 3), frag('U', 0, 3)), ('U[3,6)', 'U', (3, 6), frag('U', 3, 6)), ('U', 'U', None, whole('U')),
    ]


ALPHA = alphabet()
ENC = [B.encode(a[3]) for a in ALPHA]


class FragWorld(BpWorld):
    def __init__(self, params):
        BpWorld.__init__(self, dict(node_id=NODE, rx_routes=[('^dtn://node/.*', 'deliver'), ('^dtn://.*', 'forward')],
                                    tx_routes=[('^dtn://far/.*', 'dtn://next/', None)]))
        self.params.update(params)
        self.depth = 0
        self.history = []
        self.cover = {k: set() for k in BUNDLES}      # reference coverage
        self.complete = {k: False for k in BUNDLES}   # reference: bundle owed to the application
        self.prefix_violations = []

    def canon_extra(self, c):
        BpWorld.canon_extra(self, c)
        c.out.append('d%d' % self.depth)
        c.walk({k: sorted(v) for (k, v) in self.cover.items()})
        c.walk(self.complete)
        c.walk([(d['src'], d['ts'], d['blocks']) for d in self.probe.seen])

    def enabled_events(self):
        events = []
        if self.runnable(self.proc):
            events.append(('run', 'N'))
        if self.depth < self.params['max_depth']:
            for idx in self.params.get('letters', range(len(ALPHA))):
                events.append(('rx', idx))
        return events

    def is_deviation(self, event):
        return False

    def apply(self, event):
        if event[0] == 'rx':
            (label, name, rng, _b) = ALPHA[event[1]]
            self.depth += 1
            self.history.append(label)
            if rng is None:
                self.cover[name] = set(range(len(BUNDLES[name]['payload'])))
            else:
                self.cover[name].update(range(rng[0], rng[1]))
            if self.cover[name] == set(range(len(BUNDLES[name]['payload']))) and not BUNDLES[name].get('transit'):
                self.complete[name] = True
            self.receive(ENC[event[1]])
            return self.judge(), True
        (viols, eff) = BpWorld.apply(self, event)
        return list(viols) + self.judge(), eff

    def v(self, kind, sig, detail):
        return Violation(PROP, 'reassembly', kind, sig, '%s (arrivals %r)' % (detail, self.history))

    def judge(self):
        out = []
        if self.escaped:
            esc = self.escaped[-1]
            out.append(self.v('exception-escaped-idle-callback', dict(exc=esc[0]), '%s: %s' % (esc[0], esc[2])))
        if self.api_errors:
            err = self.api_errors[-1]
            out.append(self.v('exception-escaped-receive-path', dict(exc=err[0]), '%s: %s\n%s' % (err[0], err[1], err[2])))
        seen = {}
        for d in self.probe.seen:
            name = [k for (k, b) in BUNDLES.items() if (b['src'], b['ts']) == (d['src'], tuple(d['ts']))]
            if not name:
                out.append(self.v('delivery-of-unknown-bundle', dict(), repr(d)))
                continue
            name = name[0]
            if BUNDLES[name].get('transit'):
                out.append(self.v('bundle-for-another-node-delivered-here', dict(bundle=name), repr(d['dest'])))
                continue
            seen[name] = seen.get(name, 0) + 1
            payload = [bytes.fromhex(b[2]) for b in d['blocks'] if b[0] == 1]
            marks = [bytes.fromhex(b[2]) for b in d['blocks'] if b[0] == BUNDLES[name].get('mark_type', 200)]
            if payload != [BUNDLES[name]['payload']]:
                out.append(self.v('reassembled-payload-differs', dict(bundle=name), 'delivered %r, original %r' % (payload, BUNDLES[name]['payload'])))
            if marks != [BUNDLES[name]['mark']]:
                out.append(self.v('extension-blocks-not-those-of-first-fragment', dict(bundle=name), 'blocks %r' % (d['blocks'],)))
            if not self.complete[name]:
                out.append(self.v('delivered-while-octets-missing', dict(bundle=name),
                                  'coverage %r of %d octets' % (sorted(self.cover[name]), len(BUNDLES[name]['payload']))))
        for (name, count) in seen.items():
            if count > 1:
                out.append(self.v('delivered-more-than-once', dict(bundle=name), '%d deliveries' % count))
        if not self.runnable(self.proc):
            for name in BUNDLES:
                if self.complete[name] and not seen.get(name):
                    out.append(self.v('complete-bundle-not-delivered', dict(bundle=name),
                                      'all octets of %s have arrived' % name))
        return out

    def check_state(self):
        pend = self.prefix_violations
        self.prefix_violations = []
        return pend

    def outcome(self):
        return ','.join('%s%d' % (k, int(v)) for (k, v) in sorted(self.complete.items()))


def build(params):
    world = FragWorld(params)
    for idx in params.get('prefix', []):
        (viols, _e) = world.apply(('rx', idx))
        world.prefix_violations.extend(viols)
    return world


def run_two_agents(params, known):
    '''Two agents in one process (as in every exploration here, and in tests of the repository):
    the reassembly of one must not see fragments the other received.  Every ordered pair of
    alphabet letters, the first to agent 1 and the second to agent 2, then each agent's own
    coverage decides what it may deliver.'''
    violations = []
    count = 0
    keys = set()
    for i in range(len(ALPHA)):
        for j in range(len(ALPHA)):
            count += 1
            w1 = FragWorld(dict(max_depth=9))
            w2 = FragWorld(dict(max_depth=9))
            found = []
            (v, _e) = w1.apply(('rx', i))
            found.extend(v)
            (v, _e) = w2.apply(('rx', j))
            found.extend(v)
            for w in (w1, w2):
                while w.runnable(w.proc):
                    (v, _e) = w.apply(('run', 'N'))
                    found.extend(v)
            keys.add('%d,%d' % (i, j))
            if found and len(violations) < 4:
                v = found[0].as_dict()
                v['detail'] = 'letters %s -> agent 1, %s -> agent 2: %s' % (ALPHA[i][0], ALPHA[j][0], v['detail'])
                v['case'] = dict(first=ALPHA[i][0], second=ALPHA[j][0])
                violations.append(v)
    return dict(name=params['name'], kind='enum', evaluations=count, nontrivial_keys=sorted(keys), violations=violations, known=[], samples=[])


def _big(total, lo, hi, seq):
    payload = bytes((i * 31 + (i >> 8) * 7 + 5) & 0xFF for i in range(total))
    pri = dict(flags=B.FLAG_IS_FRAGMENT, crc_type=1, dest='dtn://node/app', src='dtn://big/', report_to='dtn:none',
               ts=(T, seq), lifetime=3600000, frag_offset=lo, total_adu=total)
    blocks = []
    if lo == 0:
        blocks.append(dict(type=200, num=2, flags=0, crc_type=1, data=b'\x09'))
    blocks.append(dict(type=1, num=1, flags=0, crc_type=2, data=payload[lo:hi]))
    return (payload, dict(primary=pri, blocks=blocks))


def run_sizes(params, known):
    '''Application data units around 64 KiB and 128 KiB cut in two or three fragments at and next to
    those boundaries, the fragments arriving in every order: the delivered payload is the original,
    octet for octet, once.'''
    import itertools
    violations = []
    kinds = set()
    count = 0
    keys = set()
    cases = []
    for total in (65535, 65536, 65537, 66000, 131073):
        cuts2 = sorted({1, 65535, 65536, 65537, total - 1} & set(range(1, total)))
        for c in cuts2:
            cases.append((total, [0, c, total]))
        cases.append((total, [0, 300, total - 300, total]))
        cases.append((total, [0, total // 2, total // 2 + 1, total]))
    for (n, (total, cuts)) in enumerate(cases):
        if n % params.get('parts', 1) != params.get('part', 0):
            continue
        frags = [(cuts[i], cuts[i + 1]) for i in range(len(cuts) - 1)]
        for order in itertools.permutations(range(len(frags))):
            count += 1
            world = BpWorld(dict(node_id=NODE, rx_routes=[('^dtn://node/.*', 'deliver')], tx_routes=[]))
            payload = None
            for k in order:
                (payload, bundle) = _big(total, frags[k][0], frags[k][1], 5)
                world.receive(B.encode(bundle))
                world.quiesce()
            label = 'total %d, fragments %r arriving in order %r' % (total, frags, order)
            keys.add('%d/%r/%r' % (total, cuts, order))
            found = None
            if world.escaped or world.api_errors:
                esc = (world.escaped or world.api_errors)[-1]
                found = ('exception-escaped', '%s: %s' % (esc[0], esc[2] if world.escaped else esc[1]))
            else:
                got = [bytes.fromhex(b[2]) for d in world.probe.seen for b in d['blocks'] if b[0] == 1]
                if len(got) != 1:
                    found = ('complete-bundle-not-delivered' if not got else 'delivered-more-than-once', '%d deliveries' % len(got))
                elif got[0] != payload:
                    diff = [i for i in range(min(len(got[0]), len(payload))) if got[0][i] != payload[i]]
                    found = ('reassembled-payload-differs', 'delivered %d octets, original %d, first difference at octet %s'
                             % (len(got[0]), len(payload), diff[0] if diff else 'the end'))
            if found and found[0] not in kinds:
                kinds.add(found[0])
                v = Violation(PROP, 'reassembly', found[0], dict(), '%s: %s' % (label, found[1])).as_dict()
                v['case'] = dict(total=total, cuts=cuts, order=list(order))
                violations.append(v)
    return dict(name=params['name'], kind='enum', evaluations=count, nontrivial_keys=sorted(keys), violations=violations, known=[], samples=[])


def run_secured_fragments(params, known):
    """The bundle was secured at its source (an integrity block over the payload) and cut by a node on
    the way: the first fragment carries the integrity block, whose MAC covers the WHOLE payload.  The
    three fragments arrive in every order (also with a repeat) at a receiver holding the key: the
    bundle is put together first and verified then - delivered once, intact; with one octet of one
    fragment altered nothing is delivered."""
    import itertools
    from ..oracle import cose_aad as A
    from .c03 import KEY, KID, sym_key
    violations = []
    kinds = set()
    count = 0
    keys = set()

    def viol(kind, detail, case):
        if kind in kinds:
            return
        kinds.add(kind)
        v = Violation(params.get('prop', PROP), 'reassembly', kind, dict(), '%r: %s' % (case, detail)).as_dict()
        v['case'] = case
        violations.append(v)
    payload = bytes((i * 9 + 4) & 0xFF for i in range(60))
    cuts = [(0, 20), (20, 45), (45, 60)]
    # the primary block carries CRC-16, CRC-32 or no CRC at all (it is covered by the integrity block)
    for pri_crc in (1, 2, 0):
        whole = dict(primary=dict(flags=0, crc_type=pri_crc, dest='dtn://node/app', src='dtn://secsrc/app', report_to='dtn:none', ts=(T, 4 + pri_crc), lifetime=3600000),
                     blocks=[dict(type=1, num=1, flags=0, crc_type=1, data=payload)])
        secured = A.add_bib(whole, [1], KEY, KID, 'dtn://secsrc/', scope={0: 1, -1: 1}, num=2)
        _secured_orders(secured, payload, cuts, pri_crc, viol, keys)
        count += 48
    return dict(name=params['name'], kind='enum', evaluations=count, nontrivial_keys=sorted(keys), violations=violations, known=[], samples=[])


def _secured_orders(secured, payload, cuts, pri_crc, viol, keys):
    import itertools
    from .c03 import KEY, KID, sym_key
    count = 0

    def fragment(lo, hi, alter=False):
        pri = dict(secured['primary'], flags=B.FLAG_IS_FRAGMENT, frag_offset=lo, total_adu=len(payload))
        data = payload[lo:hi]
        if alter:
            data = data[:-1] + bytes([data[-1] ^ 1])
        blocks = [dict(b) for b in secured['blocks'] if b['type'] != 1] if lo == 0 else []
        blocks.append(dict(type=1, num=1, flags=0, crc_type=1, data=data))
        return B.encode(dict(primary=pri, blocks=blocks))
    for altered in (None, 0, 1, 2):
        for order in itertools.permutations(range(3)):
            for repeat in (None, order[0]):
                count += 1
                case = dict(order=list(order), altered_fragment=altered, repeated=repeat, primary_crc_type=pri_crc)
                world = BpWorld(dict(node_id=NODE, rx_routes=[('^dtn://node/.*', 'deliver')], tx_routes=[]))
                world.cose().sym_key_store[KID] = sym_key(KEY, ['MacCreateOp', 'MacVerifyOp'], 'HMAC256')
                seq = list(order) + ([repeat] if repeat is not None else [])
                for k in seq:
                    world.receive(fragment(cuts[k][0], cuts[k][1], alter=(altered == k)))
                    world.quiesce()
                keys.add('%r/%s/%s/%d' % (order, altered, repeat, pri_crc))
                got = [bytes.fromhex(b[2]) for d in world.probe.seen for b in d['blocks'] if b[0] == 1]
                if world.escaped:
                    viol('exception-escaped-idle-callback', '%s: %s' % (world.escaped[-1][0], world.escaped[-1][2]), case)
                elif altered is None and got != [payload]:
                    viol('complete-bundle-not-delivered' if not got else 'reassembled-payload-differs',
                         'delivered %d bundles (errors %r)' % (len(got), world.api_errors[:1]), case)
                elif altered is not None and got:
                    viol('altered-secured-bundle-delivered', 'fragment %d altered, %d bundles delivered' % (altered, len(got)), case)


def run_escaped_lookalikes(params, known):
    """Two bundles created at the same instant by sources whose endpoint IDs differ only in how a character is written
    (`dtn://esc/a%2Fb` and `dtn://esc/a/b` are different endpoint IDs; so are `.../x%41` and `.../xA` here - an
    identity is the text, not what it would unescape to).  Each arrives in two fragments, cut at the same or at
    different places, in all 24 interleavings: both are delivered, each with its own octets."""
    import itertools
    violations = []
    kinds = set()
    keys = set()
    count = 0

    def viol(kind, detail, case):
        if kind in kinds:
            return
        kinds.add(kind)
        v = Violation(PROP, 'reassembly', kind, dict(), '%r: %s' % (case, detail)).as_dict()
        v['case'] = case
        violations.append(v)
    for ((s1, s2), cuts) in itertools.product((('dtn://esc/a%2Fb', 'dtn://esc/a/b'), ('dtn://esc/x%41', 'dtn://esc/xA')), ((3, 3), (2, 4))):
        pay = {s1: b'first!', s2: b'SECOND'}

        def frag(src, lo, hi):
            pri = dict(flags=B.FLAG_IS_FRAGMENT, crc_type=1, dest='dtn://node/app', src=src, report_to='dtn:none', ts=(T, 9), lifetime=3600000,
                       frag_offset=lo, total_adu=6)
            return B.encode(dict(primary=pri, blocks=[dict(type=1, num=1, flags=0, crc_type=2, data=pay[src][lo:hi])]))
        frags = [(s1, 0, cuts[0]), (s1, cuts[0], 6), (s2, 0, cuts[1]), (s2, cuts[1], 6)]
        for order in itertools.permutations(range(4)):
            count += 1
            case = dict(sources=[s1, s2], cut_at=list(cuts), order=[(frags[i][0], frags[i][1]) for i in order])
            world = BpWorld(dict(node_id=NODE, rx_routes=[('^dtn://node/.*', 'deliver')], tx_routes=[]))
            for i in order:
                world.receive(frag(*frags[i]))
                world.quiesce()
            keys.add('%s/%r/%r' % (s1, cuts, order))
            if world.escaped or world.api_errors:
                esc = (world.escaped or world.api_errors)[-1]
                viol('exception-escaped', '%s: %s' % (esc[0], esc[2] if world.escaped else esc[1]), case)
                continue
            got = sorted((d['src'], b''.join(bytes.fromhex(b[2]) for b in d['blocks'] if b[0] == 1)) for d in world.probe.seen)
            want = sorted(pay.items())
            if got != want:
                viol('fragments-of-different-bundles-mixed-or-lost', 'delivered %r, expected %r' % (got, want), case)
    return dict(name=params['name'], kind='enum', evaluations=count, nontrivial_keys=sorted(keys), violations=violations, known=[], samples=[])


def run_time_gaps(params, known):
    """Time passes between the fragments: three fragments of a bundle arrive in every order with 0 s, 11 s,
    10 min or 50 min between them (timers that become due fire), for a bundle with creation time and lifetime
    of an hour and for one from a source without a clock (creation time 0, age block).  Later fragments may carry
    blocks that nodes on the way added or kept (hop count, a private block) without the replicate flag.  One
    bundle is delivered, its extension blocks those of the first fragment."""
    import itertools
    violations = []
    kinds = set()
    keys = set()
    count = 0
    now_dtn = 1704067200000 - 946684800000       # DTN time of the virtual clock's origin (2024-01-01)
    payload = b'abcdefghi'

    def frag3(clockless, k, extra):
        (lo, hi) = [(0, 3), (3, 6), (6, 9)][k]
        ts = (0, 4) if clockless else (now_dtn - 1000, 4)
        pri = dict(flags=B.FLAG_IS_FRAGMENT, crc_type=1, dest='dtn://node/app', src='dtn://gsrc/', report_to='dtn:none', ts=ts,
                   lifetime=3600000, frag_offset=lo, total_adu=len(payload))
        blocks = []
        if lo == 0:
            blocks.append(dict(type=200, num=2, flags=0, crc_type=1, data=b'\x09'))
        if clockless:
            blocks.append(dict(type=B.T_AGE, num=3, flags=0, crc_type=1, data=B.enc_age(500)))
        if lo != 0 and extra == 'hop-count':
            blocks.append(dict(type=B.T_HOP_COUNT, num=4, flags=0, crc_type=1, data=B.enc_hop_count(30, 2)))
        if lo != 0 and extra == 'private-block':
            blocks.append(dict(type=193, num=5, flags=0, crc_type=0, data=b'kept on the way'))
        blocks.append(dict(type=1, num=1, flags=0, crc_type=2, data=payload[lo:hi]))
        return B.encode(dict(primary=pri, blocks=blocks))
    for (clockless, extra, gap_s, order) in itertools.product((False, True), (None, 'hop-count', 'private-block'), (0, 11, 600, 3000),
                                                              itertools.permutations(range(3))):
        count += 1
        case = dict(source_has_clock=not clockless, later_fragments_carry=extra, seconds_between_fragments=gap_s, order=list(order))
        world = BpWorld(dict(node_id=NODE, rx_routes=[('^dtn://node/.*', 'deliver')], tx_routes=[], max_quiesce=4000))
        for (n, k) in enumerate(order):
            if n and gap_s:
                target = world.clock.now_us + gap_s * 1000000
                while True:
                    nxt = world.next_deadline()
                    if nxt is None or nxt > target:
                        break
                    world.apply(('tick',))
                    world.quiesce()
                world.clock.now_us = max(world.clock.now_us, target)
            world.receive(frag3(clockless, k, extra))
            world.quiesce()
        keys.add('%s/%s/%d/%s' % (clockless, extra, gap_s, ''.join(map(str, order))))
        found = None
        if world.escaped or world.api_errors:
            esc = (world.escaped or world.api_errors)[-1]
            found = ('exception-escaped', '%s: %s' % (esc[0], esc[2] if world.escaped else esc[1]))
        else:
            seen = [d for d in world.probe.seen if d['src'] == 'dtn://gsrc/']
            if len(seen) != 1:
                found = ('delivered-more-than-once' if seen else 'complete-bundle-not-delivered', 'delivered %d times' % len(seen))
            elif [bytes.fromhex(b[2]) for b in seen[0]['blocks'] if b[0] == 1] != [payload]:
                found = ('reassembled-payload-differs', repr(seen[0]['blocks']))
            elif not any(b[0] == 200 for b in seen[0]['blocks']):
                found = ('first-fragment-block-lost', repr(seen[0]['blocks']))
        if found and found[0] not in kinds:
            kinds.add(found[0])
            v = Violation(PROP, 'reassembly', found[0], dict(), '%r: %s' % (case, found[1])).as_dict()
            v['case'] = case
            violations.append(v)
    return dict(name=params['name'], kind='enum', evaluations=count, nontrivial_keys=sorted(keys), violations=violations, known=[], samples=[])


def run_long_gap(params, known):
    '''Bundle X arrives in fragments, then N other bundles (each delivered once), then the fragments
    of X and the unfragmented X again; or the N others arrive between the two halves of X.  X is
    delivered exactly once whatever N.'''
    violations = []
    kinds = set()
    count = 0
    keys = set()

    def other(i):
        pri = dict(flags=0, crc_type=1, dest='dtn://node/app', src='dtn://bulk/', report_to='dtn:none', ts=(T + 5, i), lifetime=3600000)
        return B.encode(dict(primary=pri, blocks=[dict(type=1, num=1, flags=0, crc_type=1, data=b'bulk%d' % i)]))
    x = [ENC[3], ENC[5], ENC[6]]    # X[0,3) X[3,6) X
    for gap in (0, 1, 255, 256, 257, 300, 1100):
        for shape in ('X-complete-then-gap-then-repeats', 'gap-between-the-halves', 'whole-then-gap-then-fragments'):
            count += 1
            world = BpWorld(dict(node_id=NODE, rx_routes=[('^dtn://node/.*', 'deliver')], tx_routes=[], max_quiesce=4000))
            seq = {'X-complete-then-gap-then-repeats': [x[0], x[1], 'gap', x[0], x[1], x[2], x[1], x[0]],
                   'gap-between-the-halves': [x[0], 'gap', x[1], 'gap', x[1], x[0], x[2]],
                   'whole-then-gap-then-fragments': [x[2], 'gap', x[0], x[1], x[2]]}[shape]
            nth = 0
            for item in seq:
                if item == 'gap':
                    for _ in range(gap):
                        nth += 1
                        world.receive(other(nth))
                        world.quiesce()
                else:
                    world.receive(item)
                    world.quiesce()
            keys.add('%s/%d' % (shape, gap))
            found = None
            if world.escaped or world.api_errors:
                esc = (world.escaped or world.api_errors)[-1]
                found = ('exception-escaped', '%s: %s' % (esc[0], esc[2] if world.escaped else esc[1]))
            else:
                xs = [d for d in world.probe.seen if d['src'] == 'dtn://src/']
                others = [d for d in world.probe.seen if d['src'] == 'dtn://bulk/']
                if len(xs) != 1:
                    found = ('delivered-more-than-once' if xs else 'complete-bundle-not-delivered', 'X delivered %d times' % len(xs))
                elif [bytes.fromhex(b[2]) for b in xs[0]['blocks'] if b[0] == 1] != [b'ABCDEF']:
                    found = ('reassembled-payload-differs', repr(xs[0]['blocks']))
                elif len(others) != nth:
                    found = ('other-bundles-not-delivered-once', '%d deliveries of %d other bundles' % (len(others), nth))
            if found and found[0] not in kinds:
                kinds.add(found[0])
                v = Violation(PROP, 'reassembly', found[0], dict(), '%s with %d other bundles in each gap: %s' % (shape, gap, found[1])).as_dict()
                v['case'] = dict(shape=shape, gap=gap)
                violations.append(v)
    return dict(name=params['name'], kind='enum', evaluations=count, nontrivial_keys=sorted(keys), violations=violations, known=[], samples=[])


def scenarios(tier):
    depth = 5 if tier == 'thorough' else 4
    out = []
    # X only, deeper (all orders, duplicates, both fragmentations, the whole bundle)
    xs = [0, 1, 2, 3, 4, 5, 6]
    for first in xs:
        out.append(dict(name='X-deep/first-%s' % ALPHA[first][0], kind='graph',
                        params=dict(max_depth=depth + 2, letters=xs, prefix=[first]), dev_bound=0, use_snapshot=False,
                        liveness=False, max_states=400000, weight=5))
    # everything interleaved (without the administrative record)
    mixed = list(range(11))
    for first in mixed:
        out.append(dict(name='mixed/first-%s' % ALPHA[first][0], kind='graph',
                        params=dict(max_depth=depth, letters=mixed, prefix=[first]), dev_bound=0, use_snapshot=False,
                        liveness=False, max_states=400000, weight=3))
    # the look-alike whose source differs only after "?" against the overlapping fragmentation of X
    qs = [14, 15, 3, 5]
    for first in qs:
        out.append(dict(name='query-source/first-%s' % ALPHA[first][0], kind='graph',
                        params=dict(max_depth=depth + 1, letters=qs, prefix=[first]), dev_bound=0, use_snapshot=False,
                        liveness=False, max_states=400000, weight=3))
    # a bundle in transit between the fragments of X (routing of the next fragment must not depend on it),
    # and a first fragment whose extension block carries reserved block-flag bits under a CRC
    tr = [3, 5, 18, 16, 17]
    for first in tr:
        out.append(dict(name='transit+reserved-flags/first-%s' % ALPHA[first][0], kind='graph',
                        params=dict(max_depth=depth + 1, letters=tr, prefix=[first]), dev_bound=0, use_snapshot=False,
                        liveness=False, max_states=400000, weight=3))
    kn = [19, 20, 21, 3]
    for first in kn[:3]:
        out.append(dict(name='known-type-empty-block/first-%s' % ALPHA[first][0], kind='graph',
                        params=dict(max_depth=depth, letters=kn, prefix=[first]), dev_bound=0, use_snapshot=False,
                        liveness=False, max_states=400000, weight=3))
    out.append(dict(name='two-agents', kind='enum', runner='run_two_agents', params=dict(name='two-agents'), weight=3))
    for part in range(4):
        out.append(dict(name='sizes-%d/4' % (part + 1), kind='enum', runner='run_sizes', params=dict(name='sizes-%d/4' % (part + 1), part=part, parts=4), weight=6))
    out.append(dict(name='secured-fragments', kind='enum', runner='run_secured_fragments', params=dict(name='secured-fragments'), weight=6))
    out.append(dict(name='long-gap', kind='enum', runner='run_long_gap', params=dict(name='long-gap'), weight=6))
    out.append(dict(name='time-gaps', kind='enum', runner='run_time_gaps', params=dict(name='time-gaps'), weight=6))
    out.append(dict(name='escaped-lookalikes', kind='enum', runner='run_escaped_lookalikes', params=dict(name='escaped-lookalikes'), weight=4))
    # a fragmented administrative record, alone and interleaved with fragments of X
    adm = [11, 12, 13, 3, 5]
    for first in (11, 12, 13):
        out.append(dict(name='admin-record/first-%s' % ALPHA[first][0], kind='graph',
                        params=dict(max_depth=depth + 1, letters=adm, prefix=[first]), dev_bound=0, use_snapshot=False,
                        liveness=False, max_states=400000, weight=3))
    return out


ASSUMPTIONS = [
    'a status report addressed to the node, in two fragments and whole, alone and interleaved with fragments of X; the extension block of the first fragment carries CRC-16 (X, A), CRC-32 (Y) or no CRC (Z)',
    'a look-alike whose source differs from X only in the query part of the endpoint ID; two agents in one process fed different fragments (all ordered pairs of letters)',
    'six-octet payloads; fragmentations {[0,2),[2,4),[4,6)}, {[0,3),[2,5),[4,6)} and {[0,3),[3,6)} of X may be mixed; two look-alike bundles',
    'arrival histories of at most 4 (quick) / 5 (thorough) elements over the whole alphabet, 6 / 7 over X alone; idle callbacks interleaved in every order',
    'overlapping fragments of one bundle carry consistent octets',
    'a fragmented bundle whose first-fragment extension block is a hop-count block with zero-length data under CRC-16',
    'a bundle for another node (forwarded) interleaved with the fragments of X under overlapping receive routes; a fragmented bundle whose first-fragment extension block has reserved block-flag bits set under CRC-16',
    'a bundle secured at its source (integrity block over the whole payload) cut in three on the way: all orders, a repeat, one fragment altered',
    'sizes: application data units of 65535, 65536, 65537, 66000 and 131073 octets in two or three fragments cut at and next to 64 KiB, every arrival order',
    'long gaps: 0, 1, 255, 256, 257, 300 or 1100 other bundles between the completion of X and repeats of its fragments, or between its two halves',
]

RULE = ('explicit-state search by replay on fresh real agents over arrival histories (any alphabet element next, repeats '
        'allowed, idle callbacks interleaved); reference coverage is a set of integers per bundle identity; delivery is '
        'checked in every state (never early, never twice, correct octets and blocks) and completeness in every quiescent state')


def evidence(tier, seed, scens, results, wall_s):
    graphs = [r for r in results if r and r.get('kind') == 'graph']
    enums = [r for r in results if r and r.get('kind') == 'enum']
    ev = graph_evidence(PROP, tier, seed, [sc for sc in scens if sc['kind'] == 'graph'], graphs, wall_s, ASSUMPTIONS, RULE)
    ev['coverage']['evaluations'] = sum(r.get('evaluations', 0) for r in enums)
    ev['coverage']['exhaustive'] = ev['coverage']['exhaustive'] and len([r for r in results if r and r.get('kind') != 'error']) == len(results)
    return ev
