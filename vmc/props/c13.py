'''C13 - UDPCL transfers arrive intact and no datagram exceeds the MTU.

(a) Sizing grid: bundle length x MTU across the CBOR head boundaries on the
    real send path (D-Bus send call -> queue -> pacing timer -> sendmsg on a
    virtual UDP socket under virtual time); every datagram is decoded by an
    independent UDPCL decoder.
(b) Reassembly state graph: one real receiving agent; any datagram of an
    alphabet may arrive next (repeats allowed): segments of two transfers,
    the same transfer id from another peer, datagrams holding two messages,
    a message plus padding, a whole bundle plus an extension map.
(c) range_encode / range_decode over all 256 subsets of [0,8) and all short
    pair lists.
The UDPCL part of C18 (D-Bus type correctness and queue consistency) reuses
the same world.'''
import itertools

from gi.repository import GLib

from .. import env as _env
from .. import vsocket
from ..world import World, Violation, HarnessError
from ..oracle import cbor_min as C
from ..evidence import graph_evidence, enum_evidence

PROP = 'C13'
AGENT_PATH = '/org/ietf/dtn/udpcl/Agent'
IFACE = 'org.ietf.dtn.udpcl.Agent'
S_ADDR = ('10.0.0.1', 4556)
R_ADDR = ('10.0.0.2', 4556)
P2_ADDR = ('10.0.0.1', 4557)             # a second peer on the sender's host (same address, other port)

_CUR_NET = [None]
_INJECTED = False


def _inject():
    global _INJECTED
    ns = _env.load_udpcl()
    if not _INJECTED:
        ns.agent.socket = vsocket.SocketModule(lambda: _CUR_NET[0])
        _INJECTED = True
    return ns


class UdpWorld(World):
    def __init__(self, params):
        World.__init__(self)
        ns = _inject()
        self.params = dict(params)
        self.net = vsocket.DgramNet()
        self.signals = {}
        self.sig_errors = []
        self.escaped = []
        self.popped = {}
        for (name, addr) in (('S', S_ADDR), ('R', R_ADDR)):
            if name not in params.get('agents', ('S', 'R')):
                continue
            proc = self.add_proc(name)
            cfg = ns.config.Config(
                node_id='dtn://%s/' % name.lower(), mtu_default=params.get('mtu'),
                default_tx_address=addr[0], default_tx_port=addr[1],
                ecn_init=params.get('ecn', False), ecn_feedback=params.get('ecn', False),
                init_listen=[ns.config.ListenConfig(address=addr[0], port=addr[1])] if name == 'R' else [],
            )
            cfg._bus_conn = proc.bus

            def make(cfg=cfg, proc=proc):
                return ns.agent.Agent(cfg, bus_kwargs=dict(conn=proc.bus, object_path=AGENT_PATH))
            proc.roots['agent'] = self.in_proc(proc, make)
            self.signals[name] = []
            self.popped[name] = []
        self.collect(('init',))

    def activate(self, proc=None):
        _CUR_NET[0] = self.net
        World.activate(self, proc)

    def canon_extra(self, c):
        c.walk(self.net)
        c.walk(self.signals)
        c.walk(self.sig_errors)
        c.walk(self.popped)

    def collect(self, event):
        for (name, proc) in self.procs.items():
            for rec in proc.bus.drain_records():
                if rec[0] == 'signal':
                    self.signals[name].append((rec[3],) + tuple(_plain(a) for a in rec[4]))
                elif rec[0] in ('signal-marshal-error', 'return-marshal-error'):
                    self.sig_errors.append((name,) + tuple(str(x) for x in rec[1:7]))
            for esc in proc.ctx.escaped:
                self.escaped.append((name, esc.exc_type, esc.source_kind, esc.exc_text, esc.tb))
            proc.ctx.escaped = []
            proc.ctx.warnings = []
        return []

    def quiesce(self, max_steps=100000, deliver=False):
        '''Run everything (callbacks, clock) until nothing is left to do.'''
        steps = 0
        while True:
            steps += 1
            if steps > max_steps:
                raise HarnessError('UDP world does not become quiescent')
            ran = False
            for name in sorted(self.procs):
                if self.runnable(self.procs[name]):
                    self.apply(('run', name))
                    ran = True
                    break
            if ran:
                continue
            if deliver and self.net.in_flight:
                self.activate(None)
                self.net.deliver(0)
                continue
            if self.pending_work() and self.next_deadline() is not None:
                self.apply(('tick',))
                continue
            return

    def pending_work(self):
        '''Is any transmit pacing still going on?'''
        for proc in self.procs.values():
            agent = proc.roots['agent']
            for wait in agent._send_wait.values() if hasattr(agent, '_send_wait') else []:
                if wait.glib_timer_id is not None:
                    return True
        return False

    def send(self, name, data, address=R_ADDR):
        proc = self.procs[name]
        return self.bus_call(proc, AGENT_PATH, 'send_bundle_data', bytes(data),
                             {'address': address[0], 'port': address[1]}, iface=IFACE)

    def pop(self, name, bid):
        proc = self.procs[name]
        res = self.bus_call(proc, AGENT_PATH, 'recv_bundle_pop_data', str(bid), iface=IFACE)
        proc.bus.drain_records()
        return res

    def queue(self, name):
        proc = self.procs[name]
        res = self.bus_call(proc, AGENT_PATH, 'recv_bundle_get_queue', iface=IFACE)
        proc.bus.drain_records()
        return res


def _plain(val):
    if isinstance(val, bool):
        return bool(val)
    if isinstance(val, int):
        return int(val)
    if isinstance(val, str):
        return str(val)
    if isinstance(val, (bytes, bytearray)):
        return bytes(val).hex()
    if isinstance(val, (list, tuple)):
        return tuple(_plain(v) for v in val)
    if isinstance(val, dict):
        return tuple(sorted((str(k), _plain(v)) for (k, v) in val.items()))
    return repr(val)


# ---------------------------------------------------------------------------
# independent UDPCL datagram decoder

def decode_datagram(data):
    '''-> list of ('bundle', octets) / ('ext', map) / ('padding', n).'''
    out = []
    pos = 0
    data = bytes(data)
    while pos < len(data):
        first = data[pos]
        if first == 0x00:
            out.append(('padding', len(data) - pos))
            break
        major = first >> 5
        (item, end, _info) = C.load(data, pos)
        if major == 4:
            out.append(('bundle', data[pos:end]))
        elif major == 5:
            out.append(('ext', item))
        else:
            raise C.DecodeError('message of major type %d' % major)
        pos = end
    return out


def enc_segment(xfer_id, total, offset, chunk):
    return C.dumps({2: [xfer_id, total, offset, bytes(chunk)]})


def bundle_like(length, seed=0):
    '''Octets of the given length that are one CBOR array (what a receiver
    recognises as an unsegmented bundle).'''
    if length < 2:
        raise ValueError('no CBOR array fits')
    if length == 2:
        return b'\x9f\xff'
    for inner in range(length, -1, -1):
        body = C.dumps(bytes((i * 17 + seed) & 0xFF for i in range(inner)))
        if len(body) + 2 == length:
            return b'\x9f' + body + b'\xff'
        if len(body) + 2 < length:
            # pad with one-octet integers
            return b'\x9f' + body + bytes([seed % 24] * (length - 2 - len(body))) + b'\xff'
    raise ValueError(length)


# ---------------------------------------------------------------------------
# (a) sizing grid

def sizing_points(tier):
    lengths = list(range(2, 71)) + list(range(250, 263))
    if tier == 'thorough':
        lengths += list(range(65530, 65542))
    else:
        lengths += [65535, 65536]
    pts = []
    for length in lengths:
        if length <= 70:
            mtus = list(range(16, length + 3))
        elif length <= 262:
            mtus = list(range(20, 48, 3)) + list(range(length - 3, length + 3)) + [255, 256, 257, 128]
        else:
            mtus = [65535, 65536, 65537, length - 1, length, length + 1, 32768, 32790, 21900]
        for mtu in sorted(set(mtus)):
            pts.append((length, mtu))
    return pts


def run_sizing(params, known):
    (part, parts) = (params['part'], params['parts'])
    violations = []
    kinds = set()
    keys = set()
    count = 0
    samples = []
    outcomes = {}

    def viol(kind, sig, detail, case):
        key = (kind, tuple(sorted(sig.items())))
        if key in kinds:
            return
        kinds.add(key)
        v = Violation(PROP, 'sizing', kind, sig, '%r: %s' % (case, detail)).as_dict()
        v['case'] = case
        violations.append(v)
    for (idx, (length, mtu)) in enumerate(sizing_points(params['tier'])):
        if idx % parts != part:
            continue
        count += 1
        for xfer_pad in (0,) if length > 300 else (0, 30):
            case = dict(length=length, mtu=mtu, earlier_transfers=xfer_pad)
            world = UdpWorld(dict(agents=('S',), mtu=mtu))
            # earlier transfers push the transfer id across a head boundary
            for k in range(xfer_pad):
                world.send('S', b'\x9f\xff')
            if xfer_pad:
                world.quiesce()
                world.net.log = []
            data = bundle_like(length, seed=3)
            res = world.send('S', data)
            if res[0] != 'ok':
                viol('send-call-failed', dict(), repr(res), case)
                continue
            try:
                world.quiesce()
            except HarnessError:
                # the pacing timer goes on for ever (100000 loop steps, more than 15 minutes of virtual time) and the
                # transfer is not reported finished: the bundle never leaves the node completely
                fin = [s_ for s_ in world.signals['S'] if s_[0] == 'send_bundle_finished']
                viol('transmission-never-completes', dict(), '%d datagrams sent, finished signals %r, pacing timer still running after %d s of virtual time'
                     % (len(world.net.log), fin[-2:], world.clock.now_us // 1000000), case)
                continue
            if world.escaped:
                esc = world.escaped[-1]
                viol('exception-escaped-callback', dict(exc=esc[1]), '%s: %s' % (esc[1], esc[3]), case)
                continue
            if world.sig_errors:
                viol('signal-does-not-fit-signature', dict(), repr(world.sig_errors[-1]), case)
            dgrams = [d['data'] for d in world.net.log]
            if not dgrams:
                viol('nothing-sent', dict(), 'no datagram produced', case)
                continue
            over = [len(d) for d in dgrams if len(d) > mtu]
            pieces = []
            whole = []
            try:
                for dg in dgrams:
                    for (kind, val) in decode_datagram(dg):
                        if kind == 'bundle':
                            whole.append(val)
                        elif kind == 'ext' and 2 in val:
                            pieces.append(tuple(val[2]))
            except Exception as err:
                viol('datagram-undecodable', dict(), '%s: %s' % (type(err).__name__, err), case)
                continue
            if whole:
                outcomes['whole'] = outcomes.get('whole', 0) + 1
                if whole != [data] or pieces:
                    viol('unsegmented-bundle-differs', dict(), 'sent %d datagrams' % len(dgrams), case)
                if over:
                    viol('datagram-exceeds-mtu', dict(segmented=False), 'sizes %r' % over, case)
                continue
            outcomes['segmented'] = outcomes.get('segmented', 0) + 1
            keys.add((length, mtu, xfer_pad))
            if over:
                viol('datagram-exceeds-mtu', dict(segmented=True), 'MTU %d sizes %r' % (mtu, [len(d) for d in dgrams]), case)
            ids = set(p[0] for p in pieces)
            if len(ids) != 1:
                viol('segments-of-several-transfers', dict(), repr(sorted(ids)), case)
            pos = 0
            ok = True
            for (xid, total, off, chunk) in sorted(pieces, key=lambda p: p[2]):
                if total != length or off != pos or len(chunk) == 0:
                    ok = False
                    break
                pos += len(chunk)
            if not ok or pos != length:
                viol('segments-do-not-tile-the-bundle', dict(), repr([(p[2], len(p[3]), p[1]) for p in pieces]), case)
            elif b''.join(p[3] for p in sorted(pieces, key=lambda p: p[2])) != data:
                viol('segment-data-differs', dict(), 'reassembly differs', case)
            fin = [s for s in world.signals['S'] if s[0] == 'send_bundle_finished']
            if len(fin) != 1 + xfer_pad:
                viol('finished-signal-count', dict(), repr(fin[-3:]), case)
            if len(samples) < 1:
                samples.append(dict(case=case, datagram_sizes=[len(d) for d in dgrams]))
    return dict(name=params['name'], evaluations=count, nontrivial_keys=[repr(k) for k in sorted(keys)], violations=violations,
                known=[], samples=samples, outcomes=outcomes, report_keys=['outcomes'])


def run_send_fault(params, known):
    """The socket refuses one datagram (the k-th `sendmsg()` fails once with ENOBUFS), for every k of a run: whatever the
    agent does about it - give up, try again, stop pacing (an error that leaves the pacing timer is not judged here) - it
    does not report the transfer as sent successfully unless every octet of the bundle has left the socket."""
    violations = []
    kinds = set()
    keys = set()
    count = 0

    def viol(kind, detail, case):
        if kind in kinds:
            return
        kinds.add(kind)
        v = Violation(PROP, 'sizing', kind, dict(), '%r: %s' % (case, detail)).as_dict()
        v['case'] = case
        violations.append(v)
    for (length, mtu) in ((60, 1000), (400, 120), (1000, 300), (70, 40)):
        k = 0
        while True:
            case = dict(length=length, mtu=mtu, refused_sendmsg_call=k)
            world = UdpWorld(dict(agents=('S',), mtu=mtu))
            world.net.refuse_send = k
            data = bundle_like(length, seed=9)
            res = world.send('S', data)
            try:
                world.quiesce(max_steps=20000)
            except HarnessError:
                pass            # the pacing timer never comes to rest after the fault: nothing is claimed about that
            if world.net.send_calls <= k:
                break           # the run has fewer send calls than k: every position is done
            count += 1
            keys.add('%d/%d/%d' % (length, mtu, k))
            k += 1
            success = [sg for sg in world.signals['S'] if sg[0] == 'send_bundle_finished' and sg[3] == 'success']
            if not success:
                continue
            cover = [0] * length
            try:
                for dg in world.net.log:
                    for (kind, val) in decode_datagram(dg['data']):
                        if kind == 'bundle' and val == data:
                            cover = [c + 1 for c in cover]
                        elif kind == 'ext' and 2 in val:
                            (_xid, _total, off, chunk) = val[2]
                            if data[off:off + len(chunk)] == chunk:
                                for i in range(off, min(length, off + len(chunk))):
                                    cover[i] += 1
            except Exception as err:
                viol('datagram-undecodable', '%s: %s' % (type(err).__name__, err), case)
                continue
            holes = [i for (i, c) in enumerate(cover) if c == 0]
            if holes:
                viol('success-reported-although-octets-never-left-the-socket', 'octets %d..%d (%d in all) were never sent, signals %r'
                     % (holes[0], holes[-1], len(holes), success), case)
    return dict(name=params['name'], evaluations=count, nontrivial_keys=sorted(keys), violations=violations, known=[], samples=[])


def run_paced_control(params, known):
    '''A transfer is being paced out (datagrams wait for tokens between timer ticks) when the peer
    makes the sender queue a control message on the same socket (it announces that it listens:
    SENDER_LISTEN, answered at once, ahead of the paced data), at every tick of the run, once or twice.
    The bundle still leaves complete, every octet once, within the MTU, and is reported finished once.'''
    violations = []
    kinds = set()
    keys = set()
    count = 0

    def viol(kind, detail, case):
        if kind in kinds:
            return
        kinds.add(kind)
        v = Violation(PROP, 'sizing', kind, dict(), '%r: %s' % (case, detail)).as_dict()
        v['case'] = case
        violations.append(v)
    poll = C.dumps({3: 60000, 4: 'dtn://r/'})
    for (length, mtu) in ((150, 1000), (101, 1000), (400, 120), (1000, 300), (70, 40)):
        for polls in (1, 2):
            k = 0
            while True:
                case = dict(length=length, mtu=mtu, poll_at_tick=k, polls=polls)
                world = UdpWorld(dict(agents=('S',), mtu=mtu))
                data = bundle_like(length, seed=5)
                res = world.send('S', data)
                ticks = 0
                injected = False
                guard = 0
                while True:
                    guard += 1
                    if guard > 100000:
                        raise HarnessError('paced send does not end')
                    if world.runnable(world.procs['S']):
                        world.apply(('run', 'S'))
                        continue
                    if ticks == k and not injected:
                        injected = True
                        local = [key for (key, sock) in world.net.bound.items() if not sock.closed]
                        for _ in range(polls):
                            for key in local:
                                world.net.inject(key, R_ADDR, poll)
                        continue
                    if world.pending_work() and world.next_deadline() is not None:
                        world.apply(('tick',))
                        ticks += 1
                        continue
                    break
                if not injected:
                    break       # the run has fewer ticks than k: every position is done
                count += 1
                keys.add('%d/%d/%d/%d' % (length, mtu, k, polls))
                k += 1
                if res[0] != 'ok':
                    viol('send-call-failed', repr(res), case)
                    continue
                if world.escaped:
                    esc = world.escaped[-1]
                    viol('exception-escaped-callback', '%s: %s' % (esc[1], esc[3]), case)
                    continue
                cover = [0] * length
                control = 0
                try:
                    for dg in world.net.log:
                        if len(dg['data']) > mtu:
                            viol('datagram-exceeds-mtu', '%d octets' % len(dg['data']), case)
                        for (kind, val) in decode_datagram(dg['data']):
                            if kind == 'bundle':
                                if val != data:
                                    viol('unsegmented-bundle-differs', '%d octets' % len(val), case)
                                cover = [c + 1 for c in cover]
                            elif kind == 'ext' and 2 in val:
                                (_xid, total, off, chunk) = val[2]
                                if total != length or data[off:off + len(chunk)] != chunk:
                                    viol('segment-data-differs', 'segment at %d' % off, case)
                                for i in range(off, min(length, off + len(chunk))):
                                    cover[i] += 1
                            elif kind == 'ext':
                                control += 1
                except Exception as err:
                    viol('datagram-undecodable', '%s: %s' % (type(err).__name__, err), case)
                    continue
                holes = [i for (i, c) in enumerate(cover) if c == 0]
                twice = [i for (i, c) in enumerate(cover) if c > 1]
                if holes:
                    viol('segments-do-not-tile-the-bundle', 'octets %d..%d (%d in all) never left the node' % (holes[0], holes[-1], len(holes)), case)
                if twice:
                    viol('octets-sent-twice', 'octets %d..%d' % (twice[0], twice[-1]), case)
                fin = [sg for sg in world.signals['S'] if sg[0] == 'send_bundle_finished']
                if len(fin) != 1:
                    viol('finished-signal-count', repr(fin), case)
                if control < 1:
                    viol('control-message-not-sent', 'no answer to the peer announcing that it listens', case)
    return dict(name=params['name'], evaluations=count, nontrivial_keys=sorted(keys), violations=violations, known=[], samples=[])


def run_send_histories(params, known):
    """C18, sending side of the UDPCL agent: histories of up to `depth` requests on one socket - a bundle
    that goes out whole, one that is segmented, a peer's announcement that makes the agent queue a control
    message - each followed by running the loop until quiet, for one step only, or not at all.  Every
    started transfer is reported finished exactly once, after its start and with its own length; no
    finished signal names a transfer that was never started."""
    import itertools
    prop = params.get('prop', 'C18')
    violations = []
    kinds = set()
    keys = set()
    count = 0

    def viol(kind, detail, case):
        if kind in kinds:
            return
        kinds.add(kind)
        v = Violation(prop, 'udpcl-send', kind, dict(), '%r: %s' % (case, detail)).as_dict()
        v['case'] = case
        violations.append(v)
    poll = C.dumps({3: 60000, 4: 'dtn://r/'})
    ops = ('whole', 'segmented', 'peer-announces')
    gaps = ('until-quiet', 'one-step', 'none')
    for n in range(1, params['depth'] + 1):
        for hist in itertools.product(ops, repeat=n):
            if 'whole' not in hist and 'segmented' not in hist:
                continue
            for gap in gaps:
                if n == 1 and gap != 'until-quiet':
                    continue
                case = dict(history=list(hist), between=gap)
                world = UdpWorld(dict(agents=('S',), mtu=120))
                lengths = {}
                order = []
                for (k, op) in enumerate(hist):
                    if op == 'peer-announces':
                        local = [key for (key, sock) in world.net.bound.items() if not sock.closed]
                        for key in local:
                            world.net.inject(key, R_ADDR, poll)
                    else:
                        data = bundle_like(60 + k if op == 'whole' else 300 + k, seed=k + 2)
                        res = world.send('S', data)
                        if res[0] != 'ok':
                            viol('send-call-failed', repr(res), case)
                            continue
                        lengths[str(res[1])] = len(data)
                        order.append(str(res[1]))
                    if gap == 'until-quiet':
                        world.quiesce()
                    elif gap == 'one-step' and world.runnable(world.procs['S']):
                        world.apply(('run', 'S'))
                world.quiesce()
                count += 1
                keys.add('%s/%s' % ('+'.join(hist), gap))
                if world.escaped:
                    esc = world.escaped[-1]
                    viol('exception-escaped-callback', '%s: %s' % (esc[1], esc[3]), case)
                    continue
                if world.sig_errors:
                    viol('signal-does-not-fit-signature', repr(world.sig_errors[-1]), case)
                if len(set(order)) != len(order):
                    viol('transfer-id-reused', repr(order), case)
                seen_start = []
                fin_count = {}
                for sg in world.signals['S']:
                    if sg[0] == 'send_bundle_started':
                        seen_start.append(str(sg[1]))
                    elif sg[0] == 'send_bundle_finished':
                        bid = str(sg[1])
                        fin_count[bid] = fin_count.get(bid, 0) + 1
                        if bid not in seen_start:
                            viol('finished-signal-without-a-started-transfer', repr(sg), case)
                        if bid in lengths and (sg[2] != lengths[bid] or sg[3] != 'success'):
                            viol('finished-signal-arguments-differ', '%r for a bundle of %d octets' % (sg, lengths[bid]), case)
                for bid in order:
                    if seen_start.count(bid) != 1:
                        viol('transfer-not-started-once', 'id %s started %d times' % (bid, seen_start.count(bid)), case)
                    if fin_count.get(bid, 0) != 1:
                        viol('started-transfer-not-finished-exactly-once', 'id %s: %d finished signals (%r)'
                             % (bid, fin_count.get(bid, 0), [sg for sg in world.signals['S'] if sg[0].startswith('send_')]), case)
    return dict(name=params['name'], evaluations=count, nontrivial_keys=sorted(keys), violations=violations, known=[], samples=[])


def run_end_to_end(params, known):
    '''A real sender and a real receiver joined by the datagram network: bundles around the 64 KiB
    boundaries (and small ones) at several MTUs, datagrams delivered in order / reversed; handed to the
    sender as octets over the bus or as a file object whose read position is at the start, in the
    middle or at the end.  What the receiver pops is the bundle, octet for octet, once.'''
    import io
    violations = []
    kinds = set()
    keys = set()
    count = 0

    def viol(kind, detail, case):
        if kind in kinds:
            return
        kinds.add(kind)
        v = Violation(PROP, 'end-to-end', kind, dict(), '%r: %s' % (case, detail)).as_dict()
        v['case'] = case
        violations.append(v)
    for (length, mtu) in ((40, 1000), (300, 120), (65535, 1400), (65536, 1400), (65537, 1400), (65537, 60000), (70000, 9000), (131073, 60000)):
        for how in ('octets', 'file@0', 'file@7', 'file@end'):
            if how != 'octets' and length > 70000:
                continue
            for order in ('in-order', 'reversed'):
                count += 1
                case = dict(length=length, mtu=mtu, handed_over_as=how, arrival=order)
                world = UdpWorld(dict(mtu=mtu))
                data = bundle_like(length, seed=9)
                if how == 'octets':
                    res = world.send('S', data)
                else:
                    fobj = io.BytesIO(data)
                    fobj.seek({'file@0': 0, 'file@7': 7, 'file@end': length}[how])
                    proc = world.procs['S']
                    try:
                        res = ('ok', world.in_proc(proc, lambda: proc.roots['agent'].send_bundle_fileobj(fobj, {'address': R_ADDR[0], 'port': R_ADDR[1]})))
                    except Exception as err:
                        res = ('error', type(err).__name__, str(err))
                    world.collect(('user',))
                if res[0] != 'ok':
                    viol('send-call-failed', repr(res), case)
                    continue
                world.quiesce()
                if order == 'reversed':
                    world.net.in_flight.reverse()
                world.quiesce(deliver=True)
                if world.escaped:
                    esc = world.escaped[-1]
                    viol('exception-escaped-callback', '%s: %s' % (esc[1], esc[3]), case)
                    continue
                fin = [sg for sg in world.signals['R'] if sg[0] == 'recv_bundle_finished']
                if len(fin) != 1:
                    viol('completion-not-announced-once', repr(fin)[:300], case)
                    continue
                if int(fin[0][2]) != length:
                    viol('announced-length-differs', 'announced %r, bundle has %d octets' % (fin[0][2], length), case)
                pop = world.pop('R', fin[0][1])
                got = bytes(pop[1]) if pop[0] == 'ok' else None
                if got != data:
                    viol('popped-bundle-differs', 'popped %s octets, the bundle has %d%s' % (
                        len(got) if got is not None else pop, length,
                        '' if got is None else ', first difference at octet %s' % next((i for i in range(min(len(got), length)) if got[i] != data[i]), 'the end')), case)
                keys.add('%d/%d/%s/%s' % (length, mtu, how, order))
    return dict(name=params['name'], evaluations=count, nontrivial_keys=sorted(keys), violations=violations, known=[], samples=[])


def run_conflicting_totals(params, known):
    '''The same peer uses a transfer number again with another total length (it restarted): segments
    of the old transfer (4 octets in 2 segments) and of the new one (6 octets in 3) arrive in every
    order, every sequence of up to 5 of the 5 segments.  Which of the two wins is not prescribed;
    whatever the receiver queues is exactly one of the two bundles, and only when every segment of that
    bundle has arrived.'''
    import itertools
    violations = []
    kinds = set()
    count = 0
    keys = set()

    def viol(kind, detail, case):
        if kind in kinds:
            return
        kinds.add(kind)
        v = Violation(PROP, 'udp-reassembly', kind, dict(), '%r: %s' % (case, detail)).as_dict()
        v['case'] = case
        violations.append(v)
    old = b'wxyz'
    new = b'ABCDEF'
    segs = {'old[0,2)': ('old', enc_segment(1, 4, 0, old[0:2])), 'old[2,4)': ('old', enc_segment(1, 4, 2, old[2:4])),
            'new[0,2)': ('new', enc_segment(1, 6, 0, new[0:2])), 'new[2,4)': ('new', enc_segment(1, 6, 2, new[2:4])),
            'new[4,6)': ('new', enc_segment(1, 6, 4, new[4:6]))}
    need = {'old': {'old[0,2)', 'old[2,4)'}, 'new': {'new[0,2)', 'new[2,4)', 'new[4,6)'}}
    data_of = {'old': old, 'new': new}
    for n in range(2, 6):
        for seq in itertools.permutations(sorted(segs), n):
            count += 1
            case = dict(arrivals=list(seq))
            world = UdpWorld(dict(agents=('R',)))
            seen = set()
            popped = 0
            for name in seq:
                seen.add(name)
                world.activate(None)
                world.net.inject(R_ADDR, S_ADDR, segs[name][1])
                world.quiesce()
                fins = [sg for sg in world.signals['R'] if sg[0] == 'recv_bundle_finished']
                for sg in fins[popped:]:
                    popped += 1
                    res = world.pop('R', sg[1])
                    got = bytes(res[1]) if res[0] == 'ok' else None
                    which = [k for (k, d) in data_of.items() if d == got]
                    if not which:
                        viol('corrupt-or-partial-bundle-queued', 'queued %r, the two bundles are %r and %r' % (got, old, new), case)
                    elif not need[which[0]] <= seen:
                        viol('bundle-queued-while-octets-missing', 'queued the %s bundle after %r' % (which[0], sorted(seen)), case)
            if world.escaped:
                viol('exception-escaped-callback', '%s: %s' % (world.escaped[-1][1], world.escaped[-1][3]), case)
            keys.add(','.join(seq))
    return dict(name=params['name'], evaluations=count, nontrivial_keys=sorted(keys), violations=violations, known=[], samples=[])


def run_unusable_between(params, known):
    '''A datagram the receiver cannot use arrives before, between or after the two segments of a
    transfer (truncated CBOR, an unknown first octet, a transfer item of the wrong shape, offsets
    beyond the announced total, a BPv6 bundle, an empty datagram): the transfer still completes with
    exactly the bundle, whatever that datagram was.'''
    violations = []
    kinds = set()
    count = 0
    keys = set()

    def viol(kind, detail, case):
        if kind in kinds:
            return
        kinds.add(kind)
        v = Violation(PROP, 'udp-reassembly', kind, dict(), '%r: %s' % (case, detail)).as_dict()
        v['case'] = case
        violations.append(v)
    data = b'ABCDEF'
    segs = [enc_segment(3, 6, 0, data[0:3]), enc_segment(3, 6, 3, data[3:6])]
    unusable = [('truncated-array', b'\x9f\x01'), ('truncated-map', b'\xa1\x02'), ('truncated-bstr', b'\xa1\x02\x84\x03\x06\x00\x45AB'),
                ('unknown-first-octet', b'\x21\x00'), ('text-string', b'\x63abc'), ('transfer-item-too-short', C.dumps({2: [3, 6, 0]})),
                ('transfer-item-not-a-list', C.dumps({2: 5})), ('offset-beyond-total', enc_segment(3, 6, 9, b'zz')),
                ('segment-longer-than-total', enc_segment(3, 6, 4, b'zzzzzz')), ('other-total', enc_segment(3, 7, 0, b'zz')),
                ('bpv6', b'\x06\x00\x00'), ('empty', b''), ('unknown-extension-key', C.dumps({99: 1})), ('negative-key', C.dumps({-1: [1]})),
                # messages that concern nothing this agent has going on, alone and in FRONT of a usable message of the same datagram
                ('unsolicited-path-mtu-confirmation', C.dumps({7: [12345, [0, 1]]})), ('unsolicited-confirmation+bundle', C.dumps({7: [12345, [0, 1]]}) + WHOLE),
                ('confirmation-of-the-wrong-shape', C.dumps({7: 12345})),
                ('ecn-counts-out-of-the-blue', C.dumps({8: [1, 2, 3]})), ('probe-of-unknown-shape', C.dumps({6: 'x'})),
                # congestion feedback for a socket this agent has never sent through, in front of a bundle in the same datagram
                ('ecn-counts-out-of-the-blue+bundle', C.dumps({8: [1, 2, 3]}) + WHOLE),
                ('unknown-extension-key+bundle', C.dumps({99: 1}) + WHOLE)]
    # (a message that is itself malformed may take the rest of its datagram with it: not judged)
    for (uname, octets) in unusable:
        for pos in (0, 1, 2):
            count += 1
            case = dict(unusable=uname, position=pos)
            world = UdpWorld(dict(agents=('R',)))
            seq = list(segs)
            seq.insert(pos, octets)
            for dg in seq:
                world.activate(None)
                world.net.inject(R_ADDR, S_ADDR, dg)
                world.quiesce()
            keys.add('%s/%d' % (uname, pos))
            if world.escaped:
                viol('exception-escaped-callback', '%s: %s' % (world.escaped[-1][1], world.escaped[-1][3]), case)
            fins = [sg for sg in world.signals['R'] if sg[0] == 'recv_bundle_finished']
            got = []
            for sg in fins:
                res = world.pop('R', sg[1])
                got.append(bytes(res[1]) if res[0] == 'ok' else None)
            if uname in ('offset-beyond-total', 'segment-longer-than-total', 'other-total') and pos < 2:
                # a segment that claims to belong to the same transfer but does not fit it: which octets win is
                # not prescribed, only that nothing corrupt is queued
                if any(g != data for g in got):
                    viol('corrupt-or-partial-bundle-queued', 'queued %r' % (got,), case)
            elif got.count(data) != 1 or len([g for g in got if g != WHOLE]) != 1:
                viol('each-segment-once-but-not-exactly-one-copy', 'queued %r' % (got,), case)
            elif uname.endswith('+bundle') and got.count(WHOLE) != 1:
                viol('message-behind-an-unusable-one-not-handled', 'the bundle message in the same datagram was not queued: %r' % (got,), case)
    return dict(name=params['name'], evaluations=count, nontrivial_keys=sorted(keys), violations=violations, known=[], samples=[])


def run_listen_changes(params, known):
    """The receiving agent listens on a second port as well; while a three-segment transfer arrives on the first one (all six
    orders) the user stops - or starts and stops again - the listening on the OTHER port after k datagrams, for every k.
    The transfer is none of that port's business: the bundle is queued once, complete."""
    violations = []
    kinds = set()
    keys = set()
    count = 0

    def viol(kind, detail, case):
        if kind in kinds:
            return
        kinds.add(kind)
        v = Violation(PROP, 'udp-reassembly', kind, dict(), '%r: %s' % (case, detail)).as_dict()
        v['case'] = case
        violations.append(v)
    data = bytes(range(0x41, 0x4a))
    segs = [enc_segment(5, 9, 0, data[0:3]), enc_segment(5, 9, 3, data[3:6]), enc_segment(5, 9, 6, data[6:9])]
    for (order, k, op) in itertools.product(itertools.permutations(range(3)), range(4), ('stop-the-other-port', 'start-another-port', 'restart-the-other-port')):
        count += 1
        case = dict(order=list(order), after_datagrams=k, user=op)
        world = UdpWorld(dict(agents=('R',)))
        proc = world.procs['R']
        res0 = world.bus_call(proc, AGENT_PATH, 'listen', R_ADDR[0], 4557, {}, iface=IFACE)
        world.quiesce()
        for (n, i) in enumerate(list(order) + [None]):
            if n == k:
                if op in ('stop-the-other-port', 'restart-the-other-port'):
                    world.bus_call(proc, AGENT_PATH, 'listen_stop', R_ADDR[0], 4557, iface=IFACE)
                if op == 'restart-the-other-port':
                    world.bus_call(proc, AGENT_PATH, 'listen', R_ADDR[0], 4557, {}, iface=IFACE)
                if op == 'start-another-port':
                    world.bus_call(proc, AGENT_PATH, 'listen', R_ADDR[0], 4558, {}, iface=IFACE)
                world.quiesce()
            if i is None:
                break
            world.activate(None)
            world.net.inject(R_ADDR, S_ADDR, segs[i])
            world.quiesce()
        keys.add('%r/%d/%s' % (order, k, op))
        if res0[0] != 'ok':
            viol('listen-call-failed', repr(res0), case)
            continue
        if world.escaped:
            viol('exception-escaped-callback', '%s: %s' % (world.escaped[-1][1], world.escaped[-1][3]), case)
            continue
        fins = [sg for sg in world.signals['R'] if sg[0] == 'recv_bundle_finished']
        got = []
        for sg in fins:
            res = world.pop('R', sg[1])
            got.append(bytes(res[1]) if res[0] == 'ok' else None)
        if got != [data]:
            viol('each-segment-once-but-not-exactly-one-copy', 'queued %r' % (got,), case)
    return dict(name=params['name'], evaluations=count, nontrivial_keys=sorted(keys), violations=violations, known=[], samples=[])


def run_failed_request_then_good(params, known):
    """A send request that cannot be carried out (the peer name does not resolve, the local address
    cannot be used) among ordinary ones - queued before the loop runs, or one after the other: every
    ordinary request is still emitted completely and reported finished."""
    violations = []
    kinds = set()
    count = 0
    keys = set()

    def viol(kind, detail, case):
        if kind in kinds:
            return
        kinds.add(kind)
        v = Violation(PROP, 'sizing', kind, dict(), '%r: %s' % (case, detail)).as_dict()
        v['case'] = case
        violations.append(v)
    bad_params = [('unresolvable-peer', {'address': 'no.such.host.invalid', 'port': 4556}),
                  ('unusable-local-address', {'address': R_ADDR[0], 'port': R_ADDR[1], 'local_address': '203.0.113.250', 'local_port': 1}),
                  ('address-empty', {'address': '', 'port': 4556})]
    for (bname, bprm) in bad_params:
        for pattern in ('bad,good', 'good,bad,good', 'bad,bad,good', 'good,bad,good,good'):
            for spacing in ('back-to-back', 'one-after-the-other'):
                for mtu in (None, 60):
                    count += 1
                    case = dict(failing_request=bname, requests=pattern, spacing=spacing, mtu=mtu)
                    world = UdpWorld(dict(agents=('S',), mtu=mtu))
                    goods = []
                    for (k, what) in enumerate(pattern.split(',')):
                        if what == 'good':
                            data = bundle_like(90 + k, seed=k + 1)
                            goods.append(data)
                            world.send('S', data)
                        else:
                            proc = world.procs['S']
                            world.bus_call(proc, AGENT_PATH, 'send_bundle_data', b'\x9f\xff', dict(bprm), iface=IFACE)
                        if spacing == 'one-after-the-other':
                            world.quiesce()
                    world.quiesce()
                    keys.add('%s/%s/%s/%s' % (bname, pattern, spacing, mtu))
                    got = []
                    per = {}
                    try:
                        for dg in world.net.log:
                            for (kind, val) in decode_datagram(dg['data']):
                                if kind == 'bundle':
                                    got.append(val)
                                elif kind == 'ext' and 2 in val:
                                    per.setdefault(val[2][0], []).append((val[2][2], val[2][3]))
                    except Exception as err:
                        viol('datagram-undecodable', '%s: %s' % (type(err).__name__, err), case)
                        continue
                    for segs in per.values():
                        got.append(b''.join(c for (_o, c) in sorted(segs)))
                    missing = [len(g) for g in goods if g not in got]
                    if missing:
                        viol('ordinary-request-not-emitted-after-a-failed-one', 'bundles of %r octets never left the node (emitted: %r)'
                             % (missing, [len(g) for g in got]), case)
                    fin = [sg for sg in world.signals['S'] if sg[0] == 'send_bundle_finished' and sg[3] == 'success']
                    if len(fin) < len(goods):
                        viol('finished-signal-count', '%d ordinary requests, success signals %r' % (len(goods), fin), case)
    return dict(name=params['name'], evaluations=count, nontrivial_keys=sorted(keys), violations=violations, known=[], samples=[])


def run_pop_histories(params, known):
    '''Receive / pop histories at a real receiving agent: four bundles arrive one after the other
    (whole, or in two segments in either order); the user pops any announced and not yet popped
    bundle at any point.  Every interleaving: each announcement carries an id no other waiting
    bundle holds, the queue listing is exactly announced minus popped, and popping an id returns
    the bundle announced under it.'''
    violations = []
    kinds = set()
    count = 0
    keys = set()
    N = 4

    def viol(kind, detail, case):
        if kind in kinds:
            return
        kinds.add(kind)
        v = Violation(params.get('prop', PROP), 'receive-queue', kind, dict(), '%r: %s' % (case, detail)).as_dict()
        v['case'] = case
        violations.append(v)
    bundles = [bundle_like(12 + k, seed=k + 1) for k in range(N)]

    def histories(done, popped, trail):
        if done == N and len(popped) == N:
            yield list(trail)
            return
        if done < N:
            yield from histories(done + 1, popped, trail + [('rx', done)])
        for k in range(done):
            if k not in popped:
                yield from histories(done, popped + (k,), trail + [('pop', k)])
    for form in ('whole', 'segments', 'segments-reversed'):
        for hist in histories(0, (), []):
            count += 1
            case = dict(history=['%s%d' % h for h in hist], form=form)
            world = UdpWorld(dict(agents=('R',)))
            ids = {}
            seen = 0
            popped = set()
            ok = True
            for (op, k) in hist:
                if op == 'rx':
                    data = bundles[k]
                    if form == 'whole':
                        dgrams = [data]
                    else:
                        dgrams = [enc_segment(20 + k, len(data), 0, data[:5]), enc_segment(20 + k, len(data), 5, data[5:])]
                        if form == 'segments-reversed':
                            dgrams.reverse()
                    for dg in dgrams:
                        world.activate(None)
                        world.net.inject(R_ADDR, S_ADDR, dg)
                        world.quiesce()
                    sigs = [sg for sg in world.signals['R'] if sg[0] == 'recv_bundle_finished']
                    if len(sigs) != seen + 1:
                        viol('completion-not-announced-once', 'signals %r' % (sigs[seen:],), case)
                        ok = False
                        break
                    seen = len(sigs)
                    bid = sigs[-1][1]
                    if bid in [ids[j] for j in ids if j not in popped]:
                        viol('announced-id-reused', 'id %r announced for bundle %d is still held by a waiting bundle' % (bid, k), case)
                        ok = False
                        break
                    ids[k] = bid
                else:
                    res = world.pop('R', ids[k])
                    popped.add(k)
                    if res[0] != 'ok' or bytes(res[1]) != bundles[k]:
                        viol('pop-returns-other-data', 'pop of id %r (bundle %d) -> %r' % (ids[k], k, res), case)
                        ok = False
                        break
                q = world.queue('R')
                want = sorted(str(ids[j]) for j in ids if j not in popped)
                if q[0] != 'ok' or sorted(str(x) for x in q[1]) != want:
                    viol('receive-queue-differs', 'queue %r, announced and not popped %r' % (q, want), case)
                    ok = False
                    break
            if ok and world.escaped:
                viol('exception-escaped-callback', '%s: %s' % (world.escaped[-1][1], world.escaped[-1][3]), case)
            keys.add(','.join(case['history']) + form)
    return dict(name=params['name'], evaluations=count, nontrivial_keys=sorted(keys), violations=violations, known=[], samples=[])


# ---------------------------------------------------------------------------
# (c) confirmation-set range coding

def run_ranges(params, known):
    ns = _inject()
    import portion
    violations = []
    count = 0

    def viol(kind, detail):
        v = Violation(PROP, 'ranges', kind, dict(), detail).as_dict()
        v['case'] = dict(detail=detail)
        if len(violations) < 4:
            violations.append(v)
    for bits in range(256):
        members = [i for i in range(8) if bits >> i & 1]
        iv = portion.empty()
        for m in members:
            iv |= portion.closedopen(m, m + 1)
        count += 1
        try:
            pairs = ns.agent.range_encode(iv)
            back = ns.agent.range_decode(pairs)
            got = [v for v in range(-1, 10) if v in back]
        except Exception as err:
            viol('range-coding-raises', '%r: %s: %s' % (members, type(err).__name__, err))
            continue
        if got != members:
            viol('range-round-trip-differs', '%r -> %r -> %r' % (members, pairs, got))
        # reference encoding: (gap, run) pairs
        want = []
        last = 0
        k = 0
        while k < len(members):
            j = k
            while j + 1 < len(members) and members[j + 1] == members[j] + 1:
                j += 1
            want += [members[k] - last, members[j] + 1 - members[k]]
            last = members[j] + 1
            k = j + 1
        if list(pairs) != want:
            viol('range-encoding-differs-from-reference', '%r -> %r, reference %r' % (members, pairs, want))
    for n in range(0, 4):
        for combo in itertools.product(range(4), repeat=2 * n):
            count += 1
            want = set()
            last = 0
            for k in range(n):
                low = last + combo[2 * k]
                high = low + combo[2 * k + 1]
                want.update(range(low, high))
                last = high
            try:
                back = ns.agent.range_decode(list(combo))
                got = set(v for v in range(0, 40) if v in back)
            except Exception as err:
                viol('range-coding-raises', '%r: %s' % (combo, err))
                continue
            if got != want:
                viol('range-decode-differs-from-reference', '%r -> %r, reference %r' % (combo, sorted(got), sorted(want)))
    return dict(name='ranges', evaluations=count, nontrivial_keys=['ranges:%d' % i for i in range(count)], violations=violations,
                known=[], samples=[dict(subsets=256, pair_lists=count - 256)])


# ---------------------------------------------------------------------------
# (b) reassembly state graph

T1 = bytes(range(0x41, 0x47))          # transfer 1: ABCDEF in 3 segments
T2 = b'a\x00c\x00'                   # transfer 2 in 2 segments, each slice ending in a zero octet (looks like padding)
T1P = bytes(range(0x30, 0x36))         # transfer id 1 again, from another peer
WHOLE = bundle_like(9, seed=5)


def alphabet():
    s = enc_segment
    return [
        ('t1[0,2)', R_ADDR, S_ADDR, s(1, 6, 0, T1[0:2])),
        ('t1[2,4)', R_ADDR, S_ADDR, s(1, 6, 2, T1[2:4])),
        ('t1[4,6)', R_ADDR, S_ADDR, s(1, 6, 4, T1[4:6])),
        ('t2[0,2)', R_ADDR, S_ADDR, s(2, 4, 0, T2[0:2])),
        ('t2[2,4)', R_ADDR, S_ADDR, s(2, 4, 2, T2[2:4])),
        ('p2:t1[0,3)', R_ADDR, P2_ADDR, s(1, 6, 0, T1P[0:3])),
        ('p2:t1[3,6)', R_ADDR, P2_ADDR, s(1, 6, 3, T1P[3:6])),
        ('t1[0,2)+t1[2,4)', R_ADDR, S_ADDR, s(1, 6, 0, T1[0:2]) + s(1, 6, 2, T1[2:4])),
        ('t2[2,4)+padding', R_ADDR, S_ADDR, s(2, 4, 2, T2[2:4]) + b'\x00\x00\x00'),
        ('whole+t1[4,6)', R_ADDR, S_ADDR, WHOLE + s(1, 6, 4, T1[4:6])),
        ('whole', R_ADDR, S_ADDR, WHOLE),
    ]


ALPHA = alphabet()
TRANSFERS = {
    ('10.0.0.1', 1): (T1, {(0, 2), (2, 4), (4, 6)}),
    ('10.0.0.1', 2): (T2, {(0, 2), (2, 4)}),
    ('10.0.0.3', 1): (T1P, {(0, 3), (3, 6)}),
}
CONTENT = {
    't1[0,2)': [(('10.0.0.1', 1), (0, 2))], 't1[2,4)': [(('10.0.0.1', 1), (2, 4))], 't1[4,6)': [(('10.0.0.1', 1), (4, 6))],
    't2[0,2)': [(('10.0.0.1', 2), (0, 2))], 't2[2,4)': [(('10.0.0.1', 2), (2, 4))],
    'p2:t1[0,3)': [(('10.0.0.3', 1), (0, 3))], 'p2:t1[3,6)': [(('10.0.0.3', 1), (3, 6))],
    't1[0,2)+t1[2,4)': [(('10.0.0.1', 1), (0, 2)), (('10.0.0.1', 1), (2, 4))],
    't2[2,4)+padding': [(('10.0.0.1', 2), (2, 4))],
    'whole+t1[4,6)': ['whole', (('10.0.0.1', 1), (4, 6))],
    'whole': ['whole'],
}


class RxWorld(UdpWorld):
    '''Receiver only; the network delivers alphabet datagrams.'''

    def __init__(self, params, prop=PROP):
        UdpWorld.__init__(self, dict(params, agents=('R',)))
        self.prop = prop
        self.depth = 0
        self.history = []
        self.arrived = {}          # (transfer key, range) -> times arrived
        self.wholes = 0
        self.got = []              # data of every bundle announced (popped at once, like the BP adaptor)
        self.prefix_violations = []

    def canon_extra(self, c):
        UdpWorld.canon_extra(self, c)
        c.out.append('d%d' % self.depth)
        c.walk(sorted(self.arrived.items()))
        c.walk(self.got)
        c.out.append('w%d' % self.wholes)

    def enabled_events(self):
        events = []
        if self.runnable(self.procs['R']):
            events.append(('run', 'R'))
        if self.depth < self.params['max_depth']:
            for idx in self.params.get('letters', range(len(ALPHA))):
                events.append(('rx', idx))
        return events

    def is_deviation(self, event):
        return False

    def apply(self, event):
        if event[0] == 'rx':
            (label, dst, src, data) = ALPHA[event[1]]
            self.depth += 1
            self.history.append(label)
            for item in CONTENT[label]:
                if item == 'whole':
                    self.wholes += 1
                else:
                    self.arrived[item] = self.arrived.get(item, 0) + 1
            self.activate(None)
            self.net.inject(dst, src, data)
            return self.judge(), True
        (viols, eff) = UdpWorld.apply(self, event)
        return list(viols) + self.judge(), eff

    def v(self, kind, sig, detail):
        return Violation(self.prop, 'udp-reassembly', kind, sig, '%s (datagrams %r)' % (detail, self.history))

    def judge(self):
        out = []
        if self.escaped:
            esc = self.escaped[-1]
            out.append(self.v('exception-escaped-callback', dict(exc=esc[1]), '%s: %s\n%s' % (esc[1], esc[3], esc[4])))
        if self.sig_errors:
            out.append(self.v('signal-does-not-fit-signature', dict(signal=self.sig_errors[-1][2]), repr(self.sig_errors[-1])))
        # pop what was announced, like the BP adaptor does on the finished signal
        fins = [s for s in self.signals['R'] if s[0] == 'recv_bundle_finished']
        while len(self.got) < len(fins):
            sig = fins[len(self.got)]
            res = self.pop('R', sig[1])
            if res[0] != 'ok':
                out.append(self.v('announced-bundle-cannot-be-popped', dict(), repr(res)))
                self.got.append(None)
                continue
            data = bytes(res[1])
            self.got.append(data.hex())
            if sig[2] != len(data):
                out.append(self.v('announced-length-differs', dict(), '%r vs %d' % (sig[2], len(data))))
        counts = {}
        for hexdata in self.got:
            if hexdata is None:
                continue
            data = bytes.fromhex(hexdata)
            name = None
            if data == WHOLE:
                name = 'whole'
            for (key, (orig, _r)) in TRANSFERS.items():
                if data == orig:
                    name = key
            if name is None:
                out.append(self.v('corrupt-or-partial-bundle-queued', dict(), 'queued %r' % (data,)))
                continue
            counts[name] = counts.get(name, 0) + 1
        quiescent = not self.runnable(self.procs['R'])
        for (key, (orig, ranges)) in TRANSFERS.items():
            times = [self.arrived.get((key, r), 0) for r in sorted(ranges)]
            have = counts.get(key, 0)
            if have > min(times):
                out.append(self.v('bundle-queued-while-octets-missing', dict(), 'transfer %r: segment arrivals %r, queued %d' % (key, times, have)))
            if quiescent and min(times) >= 1 and have < 1:
                out.append(self.v('complete-transfer-not-queued', dict(), 'transfer %r: segment arrivals %r' % (key, times)))
            if quiescent and max(times) <= 1 and min(times) == 1 and have != 1:
                out.append(self.v('each-segment-once-but-not-exactly-one-copy', dict(), 'transfer %r queued %d' % (key, have)))
        if counts.get('whole', 0) > self.wholes or (quiescent and counts.get('whole', 0) != self.wholes):
            out.append(self.v('unsegmented-bundle-count', dict(), 'arrived %d, queued %d' % (self.wholes, counts.get('whole', 0))))
        if quiescent:
            q = self.queue('R')
            if q[0] != 'ok' or list(q[1]):
                out.append(self.v('receive-queue-differs', dict(), 'everything announced was popped, queue says %r' % (q,)))
        return out

    def check_state(self):
        pend = self.prefix_violations
        self.prefix_violations = []
        return pend

    def outcome(self):
        return 'q%d' % len(self.got)


def build(params):
    world = RxWorld(params)
    for idx in params.get('prefix', []):
        (viols, _e) = world.apply(('rx', idx))
        world.prefix_violations.extend(viols)
    return world


def scenarios(tier):
    out = []
    parts = 16
    for part in range(parts):
        name = 'sizing-%d/%d' % (part + 1, parts)
        out.append(dict(name=name, kind='enum', runner='run_sizing', params=dict(name=name, part=part, parts=parts, tier=tier), weight=50))
    out.append(dict(name='ranges', kind='enum', runner='run_ranges', params=dict(name='ranges'), weight=5))
    out.append(dict(name='failed-request-then-good', kind='enum', runner='run_failed_request_then_good', params=dict(name='failed-request-then-good'), weight=10))
    out.append(dict(name='unusable-between', kind='enum', runner='run_unusable_between', params=dict(name='unusable-between'), weight=10))
    out.append(dict(name='conflicting-totals', kind='enum', runner='run_conflicting_totals', params=dict(name='conflicting-totals'), weight=20))
    out.append(dict(name='end-to-end', kind='enum', runner='run_end_to_end', params=dict(name='end-to-end'), weight=30))
    out.append(dict(name='pop-histories', kind='enum', runner='run_pop_histories', params=dict(name='pop-histories'), weight=20))
    out.append(dict(name='paced-control', kind='enum', runner='run_paced_control', params=dict(name='paced-control'), weight=30))
    out.append(dict(name='send-fault', kind='enum', runner='run_send_fault', params=dict(name='send-fault'), weight=10))
    out.append(dict(name='listen-changes', kind='enum', runner='run_listen_changes', params=dict(name='listen-changes'), weight=10))
    depth = 6 if tier == 'thorough' else 5
    t1 = [0, 1, 2, 7]
    for first in t1:
        out.append(dict(name='reasm-t1/first-%s' % ALPHA[first][0], kind='graph',
                        params=dict(max_depth=depth + 1, letters=t1, prefix=[first]), dev_bound=0, use_snapshot=False,
                        liveness=False, max_states=300000, weight=20))
    for first in range(11):
        out.append(dict(name='reasm-mixed/first-%s' % ALPHA[first][0], kind='graph',
                        params=dict(max_depth=depth - 1, letters=list(range(11)), prefix=[first], mtu=16), dev_bound=0, use_snapshot=False,
                        liveness=False, max_states=300000, weight=20))
    return out


ASSUMPTIONS = [
    'UDP modelled as datagrams that may be reordered and duplicated; the sending agent runs under a virtual clock (pacing timer)',
    'sizing: bundle lengths 2..70, 250..262, 65535/65536 (65530..65541 thorough); a bundle of exactly the MTU may be segmented',
    'reassembly: duplicates may yield a second complete copy but never a partial or corrupt one; histories of at most 4-6 datagrams',
    'nineteen kinds of unusable datagrams (one of them in front of a bundle message of the same datagram) before / between / after the two segments of a transfer; a send request that cannot be carried out among ordinary ones',
    'a transfer number used again by the same peer with another total length: every sequence of 2-5 of the five segments of the two transfers',
    'end to end: bundles of 40 ... 131073 octets through a real sender and receiver (datagrams in order / reversed), handed over as octets or as a file object positioned at 0 / 7 / its end; the popped octets are compared',
    'receive queue: four bundles (whole or in two segments, either order) and their pops in every interleaving',
    'paced sending: bundles of 70..1000 octets (whole and in 2..5 segments) with one or two SENDER_LISTEN announcements of the peer arriving on the sending socket at every pacing tick of the run',
    'ECN marking / feedback switched off in these scenarios (configuration)',
    'reassembly: the second peer shares the host address of the first (other UDP port); in the mixed histories the receiver itself is configured with a sending MTU (16) smaller than the datagrams it receives',
]

RULE = ('(a) finite (length, MTU, transfer-id width) grid on the real send path, every datagram decoded by an independent '
        'UDPCL decoder; (b) explicit-state search by replay over datagram arrival histories at a real receiving agent with a '
        'reference coverage model; (c) all 256 subsets of [0,8) and all pair lists of <= 3 pairs over [0,4) through '
        'range_encode/range_decode')


def evidence(tier, seed, scens, results, wall_s):
    graphs = [r for r in results if r and r.get('kind') == 'graph']
    enums = [r for r in results if r and r.get('kind') == 'enum']
    ev = graph_evidence(PROP, tier, seed, scens, graphs, wall_s, ASSUMPTIONS, RULE)
    cov = ev['coverage']
    cov['evaluations'] = sum(r.get('evaluations', 0) for r in enums)
    keys = set()
    for r in enums:
        keys.update(r.get('nontrivial_keys', []))
    cov['distinct_nontrivial'] = len(keys)
    cov['exhaustive'] = cov['exhaustive'] and len([r for r in results if r and r.get('kind') != 'error']) == len(results)
    return ev


def replay_case(body, verbose=False):
    print('case %r: %s' % (body.get('case'), body['violation']['kind']))
    return 1


# ---------------------------------------------------------------------------
# C18 (UDPCL part)

C18_EXTRA = [
    ('listen-nodeid-int', R_ADDR, S_ADDR, C.dumps({3: 1000, 4: 12345})),
    ('listen-interval-2^31', R_ADDR, S_ADDR, C.dumps({3: 2 ** 31, 4: 'dtn://s/'})),
    ('listen-ok', R_ADDR, S_ADDR, C.dumps({3: 1000, 4: 'dtn://s/'})),
    ('listen-no-nodeid', R_ADDR, S_ADDR, C.dumps({3: 5})),
]


def build_udp_world(params, prop):
    global ALPHA
    world = RxWorld(params, prop=prop)
    for idx in params.get('prefix', []):
        (viols, _e) = world.apply(('rx', idx))
        world.prefix_violations.extend(viols)
    return world


for _item in C18_EXTRA:
    if _item[0] not in [a[0] for a in ALPHA]:
        ALPHA.append(_item)
        CONTENT[_item[0]] = []


def c18_udp_scenarios(tier):
    out = []
    extra = [len(ALPHA) - len(C18_EXTRA) + i for i in range(len(C18_EXTRA))]
    letters = [0, 1, 2, 9, 10] + extra      # 9: a whole bundle and a segment in one datagram
    for first in letters:
        out.append(dict(name='udpcl/first-%s' % ALPHA[first][0], kind='graph',
                        params=dict(udpcl=True, max_depth=4 if tier == 'thorough' else 3, letters=letters, prefix=[first]),
                        dev_bound=0, use_snapshot=False, liveness=False, max_states=300000, weight=5))
    out.append(dict(name='udpcl/pop-histories', kind='enum', runner='run_pop_histories', params=dict(name='udpcl/pop-histories', prop='C18'), weight=5))
    out.append(dict(name='udpcl/send-histories', kind='enum', runner='run_send_histories',
                    params=dict(name='udpcl/send-histories', depth=4 if tier == 'thorough' else 3), weight=5))
    return out
