'''C17 - TCPCL answers out-of-place peer messages without corrupting state.

One real endpoint R (passive, with one bundle of its own queued) against an
adversarial scripted peer.  State graph: every sequence (up to a bound) of
well-formed messages from a 17-message alphabet, chosen in every reachable
state; R runs to quiescence after each.  Oracle: a reference receiver written
here (what must be acknowledged, delivered, rejected), no exception may escape
a callback, R's output must parse, and from every state in which R is still in
session a correct transfer in each direction must still complete (epilogue run
on a snapshot).'''
import itertools
from ..peer_world import PeerWorld, PATH, IFACE
from ..world import World, Violation, HarnessError, Monitor
from ..oracle import tcpclv4 as T
from ..evidence import graph_evidence

PROP = 'C17'

OWN = '7172'   # R's own queued bundle (one START|END segment, transfer id 1)


def v3_header(eid=b'dtn://old/'):
    # TCPCLv3 contact header: magic, version 3, flags, keepalive(2), SDNV length, EID
    return b'dtn!' + bytes([3, 0]) + b'\x00\x00' + bytes([len(eid)]) + eid


def alphabet():
    tl = T.ext_total_length
    return [
        ('ch-good', T.enc_contact(0)),
        ('ch-bad-magic', T.enc_contact(0, magic=b'dtn?')),
        ('ch-v3', v3_header()),
        ('ch-v3-not-utf8', v3_header(b'dtn://\xff\xfe\x80/')),
        ('ch-v5', T.enc_contact(0, version=5)),
        ('ch-v255', T.enc_contact(0, version=255)),
        ('sess-init', T.enc_sess_init(0, 64, 1000, b'dtn://peer/')),
        ('seg-SE-5', T.enc_segment(3, 5, b'ab', [tl(2)])),
        ('seg-S-6', T.enc_segment(2, 6, b'a', [tl(2)])),
        ('seg-E-6', T.enc_segment(1, 6, b'b')),
        ('seg-mid-9', T.enc_segment(0, 9, b'z')),
        ('ack-own', T.enc_ack(3, 1, 2)),
        ('ack-unknown', T.enc_ack(3, 9, 2)),
        ('refuse-own', T.enc_refuse(2, 1)),
        ('refuse-unknown', T.enc_refuse(2, 9)),
        ('sess-term', T.enc_sess_term(0, 0)),
        ('sess-term-reply', T.enc_sess_term(1, 0)),
        ('keepalive', T.enc_keepalive()),
        ('msg-reject', T.enc_reject(1, 3)),
        ('unknown-type', bytes([0x0A])),
        ('unknown-type-0', bytes([0x00])),
    ]


NAMES = [a[0] for a in alphabet()]
OCTETS = [a[1] for a in alphabet()]


class Ref(object):
    '''Reference model of what R (passive) owes the peer.'''

    def __init__(self, role='passive'):
        self.role = role
        self.phase = 'contact'     # contact, init, est, term, desync, dead
        self.own = 'queued'        # queued, sent, acked, refused
        self.partial = None        # (id, data) of the inbound transfer in progress
        self.delivered = []        # hex of bundles R must have delivered
        self.r_term = False        # R has sent SESS_TERM

    def step(self, name):
        '''Returns the expectation class for R's reaction.'''
        ph = self.phase
        if ph in ('dead', 'desync'):
            return ('any',)
        if ph == 'contact':
            if name == 'ch-good':
                self.phase = 'init'
                # the passive side answers with its header, the active side (header already
                # written when it connected) goes on with SESS_INIT
                return ('exact', ['CONTACT'] if self.role == 'passive' else ['SESS_INIT'])
            self.phase = 'dead'
            return ('refusal-final',)
        if ph == 'init':
            if name == 'sess-init':
                self.phase = 'est'
                self.own = 'sent'
                own = [('XFER_SEGMENT', 3, 1, OWN)]
                return ('exact', (['SESS_INIT'] if self.role == 'passive' else []) + own)
            if name in ('keepalive', 'msg-reject'):
                return ('exact', [])
            if name in ('unknown-type', 'unknown-type-0'):
                self.phase = 'desync'
                return ('refusal',)
            return ('refusal',)
        if ph in ('est', 'term'):
            if name == 'sess-init':
                return ('refusal',)
            if name == 'seg-SE-5':
                if ph == 'term':
                    return ('any-parse',)
                self.partial = None
                self.delivered.append('6162')
                return ('exact', [('XFER_ACK', 3, 5, 2)])
            if name == 'seg-S-6':
                if ph == 'term':
                    self.partial = (6, '61')
                    return ('any-parse',)
                self.partial = (6, '61')
                return ('exact', [('XFER_ACK', 2, 6, 1)])
            if name == 'seg-E-6':
                if ph == 'term':
                    return ('any-parse',)
                if self.partial is not None and self.partial[0] == 6:
                    data = self.partial[1] + '62'
                    self.partial = None
                    self.delivered.append(data)
                    return ('exact+', [('XFER_ACK', 1, 6, len(data) // 2)])
                return ('refusal',)
            if name == 'seg-mid-9':
                return ('refusal',)
            if name == 'ack-own':
                if self.own == 'sent':
                    self.own = 'acked'
                    return ('exact+', [])
                return ('refusal',)
            if name == 'refuse-own':
                if self.own == 'sent':
                    self.own = 'refused'
                    return ('exact+', [])
                return ('refusal',)
            if name in ('ack-unknown', 'refuse-unknown'):
                return ('refusal',)
            if name in ('sess-term', 'sess-term-reply'):
                if ph == 'term':
                    return ('any-parse',)
                self.phase = 'term'
                self.r_term = True
                return ('exact+', [('SESS_TERM', 1)])
            if name in ('keepalive', 'msg-reject'):
                return ('exact', [])
            if name in ('unknown-type', 'unknown-type-0'):
                self.phase = 'desync'
                return ('refusal',)
        raise HarnessError('reference model has no rule for %s in %s' % (name, ph))


def summarise(msgs):
    out = []
    for m in msgs:
        k = m['kind']
        if k == 'XFER_ACK':
            out.append(('XFER_ACK', m['flags'], m['transfer_id'], m['length']))
        elif k == 'XFER_SEGMENT':
            out.append(('XFER_SEGMENT', m['flags'], m['transfer_id'], m['data'].hex()))
        elif k == 'SESS_TERM':
            out.append(('SESS_TERM', m['flags'] & 1))
        else:
            out.append(k)
    return out


class AdvWorld(PeerWorld):
    '''PeerWorld plus the adversary's history, the reference model and the
    parser of R's output.'''

    def __init__(self, params):
        self.depth = 0
        self.history = []
        self.ref = Ref((params or {}).get('role', 'passive'))
        self.parser = T.StreamParser()
        self.parsed_upto = 0
        self.popped = []
        prm = dict(role='passive', queued=(OWN,), seg_mru=64, tx_init=64)
        prm.update(params or {})
        self.max_depth = prm.pop('max_depth', 3)
        self.epilogue = prm.pop('epilogue', True)
        PeerWorld.__init__(self, prm)
        # nothing written yet (passive) or just the own contact header (active) - consume
        first = summarise(self.new_output())
        if first != ([] if prm['role'] == 'passive' else ['CONTACT']):
            raise HarnessError('unexpected initial output %r' % (first,))

    def canon_extra(self, c):
        PeerWorld.canon_extra(self, c)
        c.out.append('d%d' % self.depth)
        c.walk(self.ref)
        c.walk(self.popped)

    def new_output(self):
        data = self.out_octets[self.parsed_upto:]
        self.parsed_upto = len(self.out_octets)
        return self.parser.feed(data)

    def enabled_events(self):
        if self.depth >= self.max_depth:
            return []
        if self.ref.phase == 'dead':
            return []
        out = []
        for (idx, name) in enumerate(NAMES):
            if self.ref.phase == 'contact':
                if not name.startswith('ch-'):
                    continue
            elif name.startswith('ch-'):
                continue
            out.append(('peer', idx))
        return out

    def is_deviation(self, event):
        return False

    def apply(self, event):
        if event[0] != 'peer':
            return PeerWorld.apply(self, event)
        idx = event[1]
        name = NAMES[idx]
        self.depth += 1
        self.history.append(name)
        viols = []
        nsig = len(self.signals)
        nesc = len(self.escaped)
        was_closed = self.r_closed()
        expect = self.ref.step(name)
        self.peer_write(OCTETS[idx])
        self.quiesce()
        msgs = self.new_output()
        got = summarise(msgs)
        closed = self.r_closed()
        viols.extend(self.judge(name, expect, got, msgs, closed, was_closed, nsig, nesc))
        return viols, True

    def v(self, kind, sig, detail):
        return Violation(PROP, 'adversary', kind, sig, detail + ' after peer messages %r' % (self.history,))

    def judge(self, name, expect, got, msgs, closed, was_closed, nsig, nesc):
        out = []
        if len(self.escaped) > nesc:
            esc = self.escaped[-1]
            out.append(self.v('escaped-exception', dict(exc=esc[0], peer_message=name),
                              '%s: %s\n%s' % (esc[0], esc[2], esc[3])))
            return out
        for sig in self.signals[nsig:]:
            if sig[0] == 'MARSHAL-ERROR':
                out.append(self.v('signal-does-not-fit-signature', dict(signal=sig[1]), repr(sig)))
        if any(m['kind'] == 'MALFORMED' for m in msgs):
            out.append(self.v('undecodable-output', dict(peer_message=name), repr(got)))
            return out
        kind = expect[0]
        ref = self.ref
        if kind in ('any', 'any-parse'):
            pass
        elif kind == 'refusal-final':
            # bad contact header: closure (or termination); never a session
            if not closed and 'SESS_TERM' not in [g[0] if isinstance(g, tuple) else g for g in got]:
                out.append(self.v('bad-contact-header-not-refused', dict(peer_message=name), 'R wrote %r closed=%s' % (got, closed)))
            if 'SESS_INIT' in got:
                out.append(self.v('session-negotiated-after-bad-header', dict(peer_message=name), repr(got)))
        elif kind == 'refusal':
            kinds = [g[0] if isinstance(g, tuple) else g for g in got]
            ok = closed or ('MSG_REJECT' in kinds) or ('SESS_TERM' in kinds)
            if not ok:
                out.append(self.v('out-of-place-message-not-refused', dict(peer_message=name, phase=ref.phase),
                                  'R wrote %r and stays open' % (got,)))
            bad = [k for k in kinds if k in ('XFER_ACK', 'SESS_INIT', 'CONTACT')]
            if bad:
                out.append(self.v('out-of-place-message-accepted', dict(peer_message=name, phase=ref.phase), 'R wrote %r' % (got,)))
            if 'SESS_TERM' in kinds:
                ref.phase = 'term'
                ref.r_term = True
            if closed:
                ref.phase = 'dead'
        elif kind in ('exact', 'exact+'):
            want = expect[1]
            extra_ok = kind == 'exact+'
            if got[:len(want)] != want or (not extra_ok and len(got) != len(want)):
                out.append(self.v('unexpected-reaction', dict(peer_message=name, phase=ref.phase),
                                  'R wrote %r, reference expects %r' % (got, want)))
        if closed:
            ref.phase = 'dead'
        # deliveries: pop what R announced and compare with the reference reassembly
        for sig in self.signals[nsig:]:
            if sig[0] == 'recv_bundle_finished' and sig[3] == 'success':
                res = self.bus_call(self.proc, PATH, 'recv_bundle_pop_data', sig[1], iface=IFACE)
                self.proc.bus.drain_records()
                if res[0] != 'ok' and closed and ref.phase in ('term', 'dead'):
                    # the transfer completed the termination: the endpoint announced it and closed in
                    # the same run to quiescence, before this harness (which pops afterwards) could
                    # fetch the data.  After the peer's own SESS_TERM deliveries are optional here.
                    continue
                self.popped.append(bytes(res[1]).hex() if res[0] == 'ok' else 'POP-FAILED')
        if kind == 'any-parse' and len(self.popped) == len(ref.delivered) + 1:
            # after the peer's SESS_TERM the endpoint may still accept a transfer; if it
            # does, what it delivers must be the correct reassembly
            if name == 'seg-SE-5':
                ref.delivered.append('6162')
            elif name == 'seg-E-6' and ref.partial is not None:
                ref.delivered.append(ref.partial[1] + '62')
                ref.partial = None
        if ref.phase == 'desync':
            # framing is lost by definition after an unknown message type
            ref.delivered = list(self.popped)
        if self.popped != ref.delivered[:len(self.popped)] or (ref.phase != 'dead' and len(self.popped) != len(ref.delivered) and ref.phase not in ('desync',)):
            out.append(self.v('delivery-differs-from-reference', dict(peer_message=name),
                              'R delivered %r, reference reassembly %r' % (self.popped, ref.delivered)))
        # own transfer: finished signals
        fins = [s for s in self.signals if s[0] == 'send_bundle_finished']
        if len(fins) > 1:
            out.append(self.v('own-transfer-finished-twice', dict(), repr(fins)))
        if ref.own == 'acked' and (len(fins) != 1 or fins[0][3] != 'success'):
            out.append(self.v('own-transfer-ack-not-reported', dict(), repr(fins)))
        if ref.own == 'refused' and (len(fins) != 1 or fins[0][3] == 'success'):
            out.append(self.v('own-transfer-refusal-not-reported', dict(), repr(fins)))
        if ref.own == 'sent' and fins and not closed and ref.phase == 'est':
            out.append(self.v('own-transfer-finished-without-cause', dict(peer_message=name), repr(fins)))
        return out

    def check_state(self):
        '''Epilogue on a snapshot: while R is in session a correct transfer in
        each direction must still complete.'''
        out = []
        pend = getattr(self, 'prefix_violations', None)
        if pend:
            out.extend(pend)
            self.prefix_violations = []
        if not self.epilogue or self.ref.phase != 'est' or self.r_closed():
            return out
        w = self.snapshot()
        w.epilogue = False
        ref = w.ref
        nesc = len(w.escaped)
        # inbound: a fresh well-formed bundle
        w.peer_write(T.enc_segment(3, 77, b'\x01\x02\x03', [T.ext_total_length(3)]))
        w.quiesce()
        got = summarise(w.new_output())
        if ('XFER_ACK', 3, 77, 3) not in got:
            out.append(self.v('later-inbound-transfer-not-acknowledged', dict(), 'R wrote %r' % (got,)))
        fin = [s for s in w.signals if s[0] == 'recv_bundle_finished' and s[1] == '77']
        if len(fin) != 1:
            out.append(self.v('later-inbound-transfer-not-delivered', dict(), repr(w.signals[-3:])))
        else:
            res = w.bus_call(w.proc, PATH, 'recv_bundle_pop_data', '77', iface=IFACE)
            if res[0] != 'ok' or bytes(res[1]) != b'\x01\x02\x03':
                out.append(self.v('later-inbound-transfer-corrupted', dict(), repr(res)))
        # outbound: R's own transfer, if still outstanding, completes on a proper ACK
        if ref.own == 'sent':
            w.peer_write(T.enc_ack(3, 1, 2))
            w.quiesce()
            fins = [s for s in w.signals if s[0] == 'send_bundle_finished']
            if len(fins) != 1 or fins[0][3] != 'success':
                out.append(self.v('own-transfer-affected', dict(), 'after a correct ACK: %r' % (fins,)))
        if len(w.escaped) > nesc:
            esc = w.escaped[-1]
            out.append(self.v('escaped-exception', dict(exc=esc[0], peer_message='epilogue'), '%s: %s' % (esc[0], esc[2])))
        return out

    def outcome(self):
        return '%s/%s/%d' % (self.ref.phase, self.ref.own, len(self.popped))


def build(params):
    params = dict(params)
    if params.get('scripted_peer'):
        from .c09 import TermPeerWorld
        return TermPeerWorld(dict(params, prop=PROP))
    prefix = params.pop('prefix', [])
    world = AdvWorld(params)
    pending = []
    for name in prefix:
        (viols, _eff) = world.apply(('peer', NAMES.index(name)))
        pending.extend(viols)
    world.prefix_violations = pending
    return world


def run_agent_bystander(params, known):
    '''An agent with one ordinary contact (idle, or with a two-segment transfer of its own) while a
    second connection arrives whose first octets are no TCPCLv4 contact header (wrong magic, TCPCLv3,
    versions 5 / 255, an HTTP request, nothing but the end of the stream), at every step of the run,
    with stop_on_close off and on, the ordinary contact outgoing or accepted.  The stray connection is
    closed; the agent keeps running; the ordinary contact is unaffected (its transfer completes); only
    after the ordinary contact has been terminated too does a stop_on_close agent stop - once.'''
    from ..agent_world import AgentWorld, AGENT_PATH, AGENT_IFACE, CONTACT_IFACE
    violations = []
    kinds = set()
    count = 0
    keys = set()

    def viol(kind, detail, case):
        if kind in kinds:
            return
        kinds.add(kind)
        v = Violation(PROP, 'adversary', kind, dict(), '%r: %s' % (case, detail)).as_dict()
        v['case'] = case
        violations.append(v)
    heads = [('bad-magic', T.enc_contact(0, magic=b'dtn?'), False), ('tcpcl-v3', v3_header(), False), ('version-5', T.enc_contact(0, version=5), False),
             ('version-255', T.enc_contact(0, version=255), False), ('http', b'GET / HTTP/1.1\r\nHost: x\r\n\r\n', False),
             ('end-of-stream', b'', True)]
    data_x = bytes(range(0xa0, 0xa5))
    for stop_on_close in (False, True):
        for kind in ('out', 'in'):
            for load in ('idle', 'x-sends'):
                for (hname, octets, eof) in heads:
                  for third in (False, True):
                    if third and (hname not in ('bad-magic', 'http') or load != 'idle'):
                        continue
                    k = 0
                    while True:
                        case = dict(stop_on_close=stop_on_close, contact=kind, load=load, stray=hname, stray_after_steps=k, second_stray_afterwards=third)
                        # with a second stray the first one is the connection the agent sees first (its contact is the oldest)
                        (oi, ri, li) = (1, 0, 2) if third else (0, 1, None)
                        w = AgentWorld(dict(contacts=(['raw', kind, 'raw-late'] if third else [kind, 'raw']), stop_on_close=stop_on_close))
                        order = ['X', 'P%d' % oi]
                        # the ordinary session is set up first (the stray connection waits in the accept queue: X may take it at any time)
                        done = 0
                        live = list(order)
                        sent = False
                        wrote = False
                        exhausted = False
                        guard = 0
                        while True:
                            guard += 1
                            if guard > 5000:
                                raise HarnessError('bystander run does not end')
                            if not sent and load == 'x-sends':
                                paths = [str(p) for p in w.x_contacts()[1]]
                                est = [p for p in paths if w.contact_state('X', p) == 'established' and
                                       'peer_nodeid' in dict(w.bus_call(w.procs['X'], p, 'get_session_parameters', iface=CONTACT_IFACE)[1])]
                                if est:
                                    w.bus_call(w.procs['X'], est[0], 'send_bundle_data', data_x, iface=CONTACT_IFACE)
                                    sent = True
                            if not wrote and done >= k:
                                w.raw_write(ri, octets, eof=eof)
                                wrote = True
                            for (j, name) in enumerate(live):
                                if w.step(name):
                                    live = live[j + 1:] + live[:j + 1]
                                    done += 1
                                    break
                            else:
                                if not wrote:
                                    exhausted = True
                                    w.raw_write(ri, octets, eof=eof)
                                    wrote = True
                                    continue
                                break
                        if third:
                            # when everything has settled a further stray connection arrives (the agent has had a
                            # contact come and go by now) and is dealt with in the same way
                            w.raw_arrive(li)
                            w.raw_write(li, octets, eof=eof)
                            w.run_policy(live)
                            if not w.raw[li].closed[1]:
                                viol('stray-connection-left-open', 'the second stray connection (%s) is still open at the agent' % hname, case)
                        count += 1
                        keys.add('%s/%s/%s/%s/%d/%s' % (stop_on_close, kind, load, hname, k, third))
                        sig = w.sig
                        if sig.escaped:
                            viol('exception-escaped-callback', '%s: %s' % (sig.escaped[-1][1], sig.escaped[-1][2]), case)
                        raw = w.raw[ri]
                        if not raw.closed[1]:
                            viol('stray-connection-left-open', 'the connection that sent %s is still open at the agent' % hname, case)
                        if w.stops:
                            viol('agent-stopped-by-a-stray-connection', 'on_stop ran %d times while the ordinary contact was in use' % w.stops, case)
                        c0 = w.conns[oi]
                        if any(c0.closed):
                            viol('ordinary-contact-closed', 'connection of the ordinary contact closed: %r' % (c0.closed,), case)
                        if load == 'x-sends':
                            fin = [a for (pn, _p, m, a) in sig.log if pn == 'X' and m == 'send_bundle_finished']
                            got = [a for (pn, _p, m, a) in sig.log if pn == 'P%d' % oi and m == 'recv_bundle_finished']
                            if [a[2] for a in fin] != ['success'] or not any(a[1] == len(data_x) and a[2] == 'success' for a in got):
                                viol('own-transfer-affected', 'sender signals %r, receiver signals %r' % (fin, got), case)
                        # now the ordinary contact ends too
                        for p in [str(p) for p in w.x_contacts()[1]]:
                            w.bus_call(w.procs['X'], p, 'terminate', 0, iface=CONTACT_IFACE)
                        w.run_policy(live)
                        want = 1 if stop_on_close else 0
                        if w.stops != want and not any(kk in kinds for kk in ('agent-stopped-by-a-stray-connection', 'ordinary-contact-closed')):
                            viol('agent-stop-count-after-last-contact', 'stop_on_close=%s: on_stop ran %d times after every contact had closed' % (stop_on_close, w.stops), case)
                        if exhausted:
                            break
                        k += 1
    return dict(name=params['name'], kind='enum', evaluations=count, nontrivial_keys=sorted(keys), violations=violations, known=[], samples=[])


def run_same_read(params, known):
    '''Two adversarial messages arriving in ONE read: every contact-phase message followed by every
    message of the alphabet on a fresh endpoint, and every ordered pair of in-session messages after
    a good negotiation (both roles).  Judged for C17: nothing escapes the receive callback and what
    the endpoint writes stays decodable.  Judged for C07 (prop=C07): the endpoint ends up exactly as
    when the two messages arrive in separate reads.'''
    prop = params.get('prop', PROP)
    violations = []
    kinds = set()
    count = 0
    keys = set()

    def viol(kind, detail, case):
        if kind in kinds:
            return
        kinds.add(kind)
        v = Violation(prop, 'adversary', kind, dict(), '%r: %s' % (case, detail)).as_dict()
        v['case'] = case
        violations.append(v)

    def fresh(role, established):
        w = PeerWorld(dict(role=role, queued=(OWN,), seg_mru=64, tx_init=64))
        if established:
            w.peer_write(OCTETS[NAMES.index('ch-good')] + OCTETS[NAMES.index('sess-init')])
            w.quiesce()
        return w

    def view(w):
        return (w.out_octets, tuple(w.signals), w.r_closed())
    for role in ('passive', 'active'):
        for established in (False, True):
            firsts = [n for n in NAMES if n.startswith('ch-') != established]
            for a in firsts:
                for b in NAMES:
                    if established and b.startswith('ch-'):
                        continue
                    count += 1
                    case = dict(role=role, established=established, first=a, second=b)
                    (oa, ob) = (OCTETS[NAMES.index(a)], OCTETS[NAMES.index(b)])
                    one = fresh(role, established)
                    one.peer_write(oa + ob)
                    one.quiesce()
                    two = fresh(role, established)
                    two.peer_write(oa)
                    two.quiesce()
                    two.peer_write(ob)
                    two.quiesce()
                    keys.add('%s/%s/%s+%s' % (role, established, a, b))
                    if prop == 'C07':
                        if a.startswith('unknown-type'):
                            continue    # a message type without known length: where it ends depends on what has arrived
                        if not one.escaped and not two.escaped and view(one) != view(two):
                            viol('chunking-changes-behaviour', 'one read: wrote %s closed=%s; two reads: wrote %s closed=%s'
                                 % (one.out_octets.hex()[-80:], one.r_closed(), two.out_octets.hex()[-80:], two.r_closed()), case)
                        continue
                    # an out-of-place message that is answered when it arrives alone is answered too when it
                    # arrives in the same read as the message before it
                    if not a.startswith('unknown-type') and not one.escaped and not two.escaped:
                        if len(one.out_octets) < len(two.out_octets) or (two.r_closed() and not one.r_closed()):
                            viol('out-of-place-message-left-unanswered', 'in one read the endpoint wrote %d octets (closed=%s), in two reads %d (closed=%s): ...%s'
                                 % (len(one.out_octets), one.r_closed(), len(two.out_octets), two.r_closed(), two.out_octets.hex()[-40:]), case)
                    for (w, how) in ((one, 'one read'), (two, 'two reads')):
                        if w.escaped:
                            viol('exception-escaped-callback', '%s: %s: %s' % (how, w.escaped[-1][0], w.escaped[-1][2]), dict(case, how=how))
                        try:
                            T.parse_all(w.out_octets, with_contact=True)
                        except Exception as err:
                            viol('undecodable-octets-written', '%s: %s: %s' % (how, type(err).__name__, err), dict(case, how=how))
    return dict(name=params['name'], kind='enum', evaluations=count, nontrivial_keys=sorted(keys), violations=violations, known=[], samples=[])


def run_early_closure(params, known):
    """The connection is closed while output still waits to be written: the peer's contact header (bad magic,
    version 3, version 255, a good one) is already there when the endpoint's loop first runs, so it is read - and
    refused - before the endpoint's own header has left; or the peer says something out of place (or ends the
    session) and closes before the answer has been written.  Afterwards the loop runs on until quiet: no callback
    raises, the socket is closed."""
    import itertools
    violations = []
    kinds = set()
    keys = set()
    count = 0

    def viol(kind, detail, case):
        if kind in kinds:
            return
        kinds.add(kind)
        v = Violation(PROP, 'adversary', kind, dict(), '%r: %s' % (case, detail)).as_dict()
        v['case'] = case
        violations.append(v)
    heads = {'bad-magic': b'dtm!\x04\x00', 'version-3': b'dtn!\x03\x00', 'version-255': b'dtn!\xff\x00', 'short-then-closed': b'dtn', 'good': T.enc_contact(0)}
    for (role, hname, then) in itertools.product(('active', 'passive'), sorted(heads), ('stays', 'closes')):
        count += 1
        case = dict(role=role, first_octets_of_the_peer=hname, peer=then, when='before the first loop turn')
        w = PeerWorld(dict(role=role, keepalive=0, idle=0, seg_mru=64, tx_init=64, peer_first=heads[hname].hex()))
        if then == 'closes':
            w.peer_close()
        w.quiesce()
        keys.add('%s/%s/%s' % (role, hname, then))
        if w.escaped:
            viol('exception-escaped-callback', '%s: %s' % (w.escaped[-1][0], w.escaped[-1][2]), case)
        elif hname in ('bad-magic', 'version-3', 'version-255') and not w.r_closed():
            viol('bad-contact-header-not-refused', 'socket still open', case)
    # the negotiation stalls: the peer sends its header, then session messages that are out of place before SESS_INIT, then
    # nothing - while the endpoint is configured with an idle time; the timers run on (a few clock advances)
    early = {'nothing': b'', 'keepalive': T.enc_keepalive(), 'segment': T.enc_segment(3, 1, b'zz', [T.ext_total_length(2)]), 'sess-term': T.enc_sess_term(0, 0),
             'ack': T.enc_ack(1, 1, 2)}
    for (role, ename, idle) in itertools.product(('active', 'passive'), sorted(early), (3, 30)):
        count += 1
        case = dict(role=role, peer_says_before_sess_init=ename, then='silence', idle_time=idle)
        w = PeerWorld(dict(role=role, keepalive=2, idle=idle, seg_mru=64, tx_init=64))
        w.peer_write(T.enc_contact(0) + early[ename])
        w.quiesce()
        for _ in range(6):
            if w.r_closed() or w.next_deadline() is None:
                break
            w.apply(('tick',))
            w.quiesce()
        keys.add('stalled/%s/%s/%d' % (role, ename, idle))
        if w.escaped:
            viol('exception-escaped-callback', '%s: %s' % (w.escaped[-1][0], w.escaped[-1][2]), case)
    strays = {'segment-without-start': T.enc_segment(1, 9, b'zz'), 'ack-of-nothing': T.enc_ack(1, 9, 5), 'second-sess-init': T.enc_sess_init(0, 64, 1000, b'dtn://p/'),
              'unknown-type': b'\x99\x00', 'sess-term': T.enc_sess_term(0, 0)}
    for (role, sname, chunk) in itertools.product(('active', 'passive'), sorted(strays), (10240, 3)):
        count += 1
        case = dict(role=role, peer_says=sname, peer='closes at once', read_chunk=chunk)
        w = PeerWorld(dict(role=role, keepalive=0, idle=0, seg_mru=64, tx_init=64, chunk=chunk))
        w.peer_write(T.enc_contact(0) + T.enc_sess_init(0, 64, 1000, b'dtn://p/'))
        w.quiesce()
        w.peer_write(strays[sname])
        w.peer_close()
        w.quiesce()
        keys.add('%s/%s/%d' % (role, sname, chunk))
        if w.escaped:
            viol('exception-escaped-callback', '%s: %s' % (w.escaped[-1][0], w.escaped[-1][2]), case)
        elif not w.r_closed():
            viol('connection-left-half-open', 'the peer has closed, the endpoint has not (state %r)' % (w.handler().get_session_state(),), case)
    return dict(name=params['name'], evaluations=count, nontrivial_keys=sorted(keys), violations=violations, known=[], samples=[])


def run_unstarted(params, known):
    '''The out-of-place message concerns a transfer of the endpoint that is queued but of which
    nothing has been sent yet: one or two bundles are handed to an established endpoint and, before
    its loop has started the first, the peer's XFER_ACK (every flag combination, lengths 0 / 5 / 7) or
    XFER_REFUSE naming transfer 1, 2 or an unknown one arrives.  Afterwards the peer is a conforming
    one (acknowledges what is really sent).  No transfer may be reported finished before its last
    segment has been written; each is reported exactly once; nothing escapes.'''
    from ..peer_world import PATH as RPATH, IFACE as RIFACE
    violations = []
    kinds = set()
    count = 0
    keys = set()

    def viol(kind, detail, case):
        if kind in kinds:
            return
        kinds.add(kind)
        v = Violation(PROP, 'adversary', kind, dict(), '%r: %s' % (case, detail)).as_dict()
        v['case'] = case
        violations.append(v)
    strays = []
    for tid in (1, 2, 9):
        for flags in (0, 1, 2, 3):
            for length in (0, 5, 7):
                strays.append(('ack id=%d flags=%d length=%d' % (tid, flags, length), T.enc_ack(flags, tid, length)))
        for reason in (0, 2):
            strays.append(('refuse id=%d reason=%d' % (tid, reason), T.enc_refuse(reason, tid)))
    bundles = [bytes(range(0x30, 0x35)), bytes(range(0x40, 0x47))]
    for role in ('passive', 'active'):
        for nb in (1, 2):
            for seg in (64, 4):
                # with two bundles in small segments the stray may also arrive when the loop has run a few callbacks:
                # the first transfer is then under way (some of its segments written), the second still waits
                for ((sname, octets), steps) in itertools.product(strays, (0, 1, 2, 3, 4) if (nb == 2 and seg == 4) else (0,)):
                    count += 1
                    case = dict(role=role, bundles=nb, segment_size=seg, stray=sname)
                    if steps:
                        case['loop_callbacks_before_the_stray'] = steps
                    w = PeerWorld(dict(role=role, keepalive=0, idle=0, seg_mru=64, tx_init=seg))
                    w.peer_write(T.enc_contact(0) + T.enc_sess_init(0, seg, 1000, b'dtn://p/'))
                    w.quiesce()
                    for d in bundles[:nb]:
                        w.bus_call(w.proc, RPATH, 'send_bundle_data', d, iface=RIFACE)
                    for _ in range(steps):
                        if w.runnable(w.proc):
                            w.apply(('run', 'R'))
                            pipe = w.conns[0].buf[1 - w.ridx]
                            if pipe:
                                del pipe[:]
                    before = len(w.out_octets)
                    if steps:
                        # a message naming a transfer of which something has been written by now is no stray (a peer may
                        # acknowledge or refuse that one): only the waiting transfer and unknown ones are judged here
                        try:
                            started_now = {m['transfer_id'] for m in T.parse_all(w.out_octets, with_contact=True)[0] if m['kind'] == 'XFER_SEGMENT'}
                        except Exception:
                            started_now = set()
                        named = int(sname.split('id=')[1].split(' ')[0])
                        if named in started_now or getattr(w.handler(), '_tx_tmp', None) is not None and w.handler()._tx_tmp.transfer_id == named:
                            count -= 1
                            continue
                    w.peer_write(octets)
                    # a conforming peer from here on
                    acked = 0
                    totals = {}
                    for _round in range(40):
                        w.quiesce()
                        try:
                            (msgs, _rest) = T.parse_all(w.out_octets, with_contact=True)
                        except Exception as err:
                            viol('undecodable-octets-written', '%s: %s' % (type(err).__name__, err), case)
                            break
                        segs = [m for m in msgs if m['kind'] == 'XFER_SEGMENT']
                        # was anything reported finished although its last segment has not been written?
                        ended = {m['transfer_id'] for m in segs if m['flags'] & 1}
                        for sg in w.signals:
                            if sg[0] == 'send_bundle_finished' and int(sg[1]) not in ended and not w.r_closed() \
                                    and 'ending' not in [x[1] for x in w.signals if x[0] == 'session_state_changed']:
                                viol('transfer-reported-finished-before-it-was-sent', 'signal %r, segments written so far %r'
                                     % (sg, [(m['transfer_id'], m['flags']) for m in segs]), case)
                        if acked >= len(segs) or w.r_closed():
                            break
                        m = segs[acked]
                        acked += 1
                        totals[m['transfer_id']] = totals.get(m['transfer_id'], 0) + len(m['data'])
                        w.peer_write(T.enc_ack(m['flags'], m['transfer_id'], totals[m['transfer_id']]))
                    keys.add('%s/%d/%d/%s/%d' % (role, nb, seg, sname, steps))
                    if w.escaped:
                        viol('exception-escaped-callback', '%s: %s' % (w.escaped[-1][0], w.escaped[-1][2]), case)
                        continue
                    if w.r_closed() or 'ending' in [x[1] for x in w.signals if x[0] == 'session_state_changed']:
                        continue        # the endpoint answered by ending the session: a permitted refusal
                    fin = {}
                    for sg in w.signals:
                        if sg[0] == 'send_bundle_finished':
                            fin.setdefault(int(sg[1]), []).append(sg[3])
                    for k in range(1, nb + 1):
                        if fin.get(k) != ['success']:
                            viol('own-transfer-not-completed-after-stray-message', 'transfer %d finished %r (all: %r)' % (k, fin.get(k), fin), case)
    return dict(name=params['name'], kind='enum', evaluations=count, nontrivial_keys=sorted(keys), violations=violations, known=[], samples=[])


def scenarios(tier):
    depth = 6 if tier == "thorough" else 5
    out = []
    # the space is split by the first two peer messages so that it spreads over the workers
    # an out-of-place message arriving while an own transfer is being written in small chunks (every
    # callback of the endpoint is a separate step, so the message can land between two writes of one segment)
    for role in ('passive', 'active'):
        for stray in ('ack', 'refuse', 'ack-final-early'):
            nm = 'mid-write/%s/stray-%s' % (role, stray)
            out.append(dict(name=nm, kind='graph', dev_bound=0, max_states=600000, liveness=False, weight=30,
                            params=dict(scripted_peer=True, role=role, bundles=[bytes(range(0xa0, 0xa9)).hex()], chunk=9,
                                        refuse=False, user_term=False, peer_term=False, stray=stray)))
    out.append(dict(name='agent-bystander', kind='enum', runner='run_agent_bystander', params=dict(name='agent-bystander'), weight=60))
    out.append(dict(name='same-read', kind='enum', runner='run_same_read', params=dict(name='same-read'), weight=30))
    out.append(dict(name='unstarted-transfer', kind='enum', runner='run_unstarted', params=dict(name='unstarted-transfer'), weight=30))
    out.append(dict(name='early-closure', kind='enum', runner='run_early_closure', params=dict(name='early-closure'), weight=5))
    for role in ('passive', 'active'):
        tag = '' if role == 'passive' else 'active/'
        for first in ('ch-bad-magic', 'ch-v3', 'ch-v3-not-utf8', 'ch-v5', 'ch-v255'):
            out.append(dict(name='%s%s' % (tag, first), kind='graph', params=dict(max_depth=depth, prefix=[first], role=role),
                            dev_bound=0, max_states=2000000, liveness=False, validate_every=20, weight=1))
        for name in NAMES:
            if name.startswith('ch-'):
                continue
            out.append(dict(name='%sch-good+%s' % (tag, name), kind='graph',
                            params=dict(max_depth=depth, prefix=['ch-good', name], role=role),
                            dev_bound=0, max_states=2000000, liveness=False, validate_every=20,
                            weight=100 if name == 'sess-init' else 10))
    return out


ASSUMPTIONS = [
    'the peer writes whole well-formed messages and R runs to quiescence between them (chunking is C07)',
    'the first thing a peer sends is some contact header (good, bad magic, TCPCLv3, version 5 or 255); anything else at that point is the bad-magic case',
    'after the peer\'s own SESS_TERM, after an unknown message type (framing lost) and after closure only "no escaped exception, output decodable" is required',
    'a refusal may be MSG_REJECT, SESS_TERM or closing the connection',
    'agent level: a stray connection (6 kinds of first octets) arriving at every step while one ordinary contact is idle or sending, stop_on_close off / on, the ordinary contact outgoing / accepted',
    'same read: every contact-phase message followed by every alphabet message, and every ordered pair of in-session messages, delivered in one read and in two (both roles)',
    'unstarted transfers: 42 acknowledgements / refusals naming transfer 1, 2 or 9 arriving after one or two bundles were queued and before the first segment is written (segment size 64 or 4), then a conforming peer',
    'mid-write graphs: a scripted peer that acknowledges in order and sends one acknowledgement / refusal of a non-existent transfer at any point, against an endpoint writing a three-segment transfer in 9-octet chunks; every callback is a step',
]

RULE = ('explicit-state BFS: every sequence of adversarial messages (21-message alphabet incl. bad headers, out-of-place '
        'and unknown-id messages, unknown type) up to the depth bound, in every reachable state of a real endpoint (passive and active role) '
        'holding one transfer of its own; reference receiver model decides expected ACKs/deliveries/refusals; an epilogue '
        'with a correct transfer in each direction is run from every in-session state')


def evidence(tier, seed, scens, results, wall_s):
    graphs = [r for r in results if r and r.get('kind') == 'graph']
    enums = [r for r in results if r and r.get('kind') == 'enum']
    ev = graph_evidence(PROP, tier, seed, [sc for sc in scens if sc['kind'] == 'graph'], graphs, wall_s, ASSUMPTIONS, RULE)
    cov = ev['coverage']
    cov['evaluations'] = sum(r.get('evaluations', 0) for r in enums)
    keys = set()
    for r in enums:
        keys.update(r.get('nontrivial_keys', []))
    cov['distinct_nontrivial'] = len(keys)
    cov['exhaustive'] = cov['exhaustive'] and len([r for r in results if r and r.get('kind') != 'error']) == len(results)
    return ev
