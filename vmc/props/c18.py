'''C18 - the D-Bus view of transfers is type-correct and consistent.

TCPCL: the C01/C09 state graphs with explicit user pop calls (once and once
more), queue / idle / state queries evaluated in every state through the
recording bus, and every emission and return value marshalled against its
declared signature by the rule table probed from real dbus-python.
UDPCL: send/receive/pop histories (see c13 for the world).'''
from ..tcpcl_world import TcpclWorld
from ..monitors import EscapeMonitor, DbusViewMonitor
from ..evidence import graph_evidence
from .c01 import hexn, DEVS

PROP = 'C18'


def build(params):
    if params.get('udpcl'):
        from .c13 import build_udp_world
        return build_udp_world(params, PROP)
    world = TcpclWorld(params)
    world.monitors = [DbusViewMonitor(PROP), EscapeMonitor(PROP)]
    return world


def _scen(name, scripts, dev_bound=0, weight=1, **over):
    params = dict(scripts=scripts, devs=DEVS if dev_bound else (), auto_pop=False)
    params.update(over)
    return dict(name=name, kind='graph', params=params, dev_bound=dev_bound, weight=weight, max_states=500000)


def scenarios(tier):
    s5 = ('send', hexn(5))
    s1 = ('send', hexn(1, 0xb0))
    s1b = ('send', hexn(1, 0xb8))
    term = ('terminate', 0)
    pop1 = ('pop', '1')
    pop2 = ('pop', '2')
    out = []
    out.append(_scen('A1|B:pop,pop', {'A': [s1], 'B': [pop1, pop1]}, weight=10))
    out.append(_scen('A1|B:pop-d1', {'A': [s1], 'B': [pop1]}, dev_bound=1, weight=30))
    out.append(_scen('A5|B:pop', {'A': [s5], 'B': [pop1]}, dev_bound=0, weight=20))
    out.append(_scen('A1+A1|B:pop2,pop1', {'A': [s1, s1b], 'B': [pop2, pop1]}, weight=40))
    out.append(_scen('A1+term|B:pop', {'A': [s1, term], 'B': [pop1]}, weight=30))
    out.append(_scen('A1|B1+pop', {'A': [s1, pop1], 'B': [s1b]}, weight=40))
    out.append(_scen('len0|B:pop', {'A': [('send', '')], 'B': [pop1]}, weight=5))
    out.append(_scen('A1+A1+term', {'A': [s1, s1b, term], 'B': []}, weight=40))
    try:
        from .c13 import c18_udp_scenarios
        out.extend(c18_udp_scenarios(tier))
    except ImportError:
        pass
    if tier == 'thorough':
        out.append(_scen('A5+A1+term', {'A': [s5, s1, term], 'B': []}, weight=80))
        out.append(_scen('A5|B:pop-d1', {'A': [s5], 'B': [pop1]}, dev_bound=1, weight=60))
        out.append(_scen('A5+A1|B:pop,pop', {'A': [s5, s1], 'B': [pop1, pop2]}, weight=100))
        out.append(_scen('A1+term|B1+pop-d1', {'A': [s1, term, pop1], 'B': [s1b]}, dev_bound=0, weight=100))
        out.append(_scen('A1|B:pop,pop-d2', {'A': [s1], 'B': [pop1, pop1]}, dev_bound=2, weight=60))
    return out


ASSUMPTIONS = [
    'D-Bus marshalling judged by a rule table re-stated from probes of real dbus-python 1.3.2 (self-test in setup)',
    'method calls are dispatched between event-loop iterations; queries are evaluated in every explored state',
    'workloads of at most two bundles per direction',
]

RULE = ('explicit-state BFS over two real ContactHandler objects with user send/pop/terminate calls at every '
        'between-iteration point; in every state the queues, idle flag and state are read through the bus and compared '
        'with ghost bookkeeping of announced/popped/queued/finished ids; every signal emission and method return is '
        'marshalled against its declared signature')


def evidence(tier, seed, scens, results, wall_s):
    return graph_evidence(PROP, tier, seed, scens, results, wall_s, ASSUMPTIONS, RULE)
