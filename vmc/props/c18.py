'''C18 - the D-Bus view of transfers is type-correct and consistent.

TCPCL: the C01/C09 state graphs with explicit user pop calls (once and once
more), queue / idle / state queries evaluated in every state through the
recording bus, and every emission and return value marshalled against its
declared signature by the rule table probed from real dbus-python.
UDPCL: send/receive/pop histories (see c13 for the world).'''
from ..tcpcl_world import TcpclWorld
from ..monitors import EscapeMonitor, DbusViewMonitor
from ..evidence import graph_evidence
from .c01 import hexn, DEVS

from .c18_nodes import run_nodes, run_udp_nodes, WORKLOADS as NODE_WORKLOADS, UDP_WORKLOADS  # noqa: F401,E402


def run_send_histories(params, known):
    from .c13 import run_send_histories as run
    return run(params, known)


def run_pop_histories(params, known):
    from .c13 import run_pop_histories as run
    return run(params, known)
PROP = 'C18'


def build(params):
    if params.get('udpcl'):
        from .c13 import build_udp_world
        return build_udp_world(params, PROP)
    world = TcpclWorld(params)
    world.monitors = [DbusViewMonitor(PROP), EscapeMonitor(PROP)]
    return world


# ---------------------------------------------------------------------------
# one real endpoint against a scripted peer that acknowledges and refuses

def run_refusals(params, known):
    '''Every sequence (up to the depth) of peer reactions - acknowledge the next outstanding
    segment, refuse transfer 1 / 2 / an unknown one, repeat the last acknowledgement - to an
    endpoint whose user has queued one or two bundles.  After every reaction the send queue is
    read through the bus: it must list exactly the ids queued and not yet reported finished,
    and no id may be reported finished twice.'''
    import itertools
    from ..peer_world import PeerWorld, PATH, IFACE
    from ..oracle import tcpclv4 as T
    from ..world import Violation
    bundles = params['bundles']
    depth = params['depth']
    menu = ('ack-next', 'refuse-1', 'refuse-2', 'refuse-9', 'ack-again')
    violations = []
    seen_kinds = set()
    count = 0
    outcomes = set()

    def run(seq):
        w = PeerWorld(dict(role=params['role'], seg_mru=4, tx_init=4))
        w.peer_write(T.enc_contact(0) + T.enc_sess_init(0, 4, 1000, b'dtn://peer/'))
        w.quiesce()
        queued = []
        parser = T.StreamParser()
        outstanding = []     # (transfer id, cumulative length, flags) of segments R wrote, not yet acknowledged
        last_ack = None
        pos = 0

        def absorb():
            nonlocal pos
            for msg in parser.feed(w.out_octets[pos:]):
                if msg['kind'] == 'XFER_SEGMENT':
                    prev = [o for o in outstanding if o[0] == msg['transfer_id']]
                    total = (prev[-1][1] if prev else acked.get(msg['transfer_id'], 0)) + len(msg['data'])
                    outstanding.append((msg['transfer_id'], total, msg['flags']))
            pos = len(w.out_octets)
        acked = {}
        for hexdata in bundles:
            res = w.bus_call(w.proc, PATH, 'send_bundle_data', bytes.fromhex(hexdata), iface=IFACE)
            if res[0] == 'ok':
                queued.append(str(res[1]))
            w.quiesce()
        absorb()
        trail = []

        def judge(step):
            res = w.bus_call(w.proc, PATH, 'send_bundle_get_queue', iface=IFACE)
            fins = [str(sig[1]) for sig in w.signals if sig[0] == 'send_bundle_finished']
            found = []
            for bid in set(fins):
                if fins.count(bid) > 1:
                    found.append(('transfer-finished-twice', 'id %s reported finished %d times' % (bid, fins.count(bid))))
            if res[0] == 'ok':
                got = sorted(str(x) for x in res[1])
                want = sorted(b for b in queued if b not in fins)
                if got != want and not w.r_closed():
                    found.append(('send-queue-differs-from-bookkeeping', 'queue %r; queued %r, finished %r' % (got, queued, fins)))
            if w.escaped:
                found.append(('exception-escaped-callback', '%s: %s' % (w.escaped[-1][0], w.escaped[-1][2])))
            if any(sig[0] == 'MARSHAL-ERROR' for sig in w.signals):
                found.append(('signal-does-not-fit-signature', repr([sig for sig in w.signals if sig[0] == 'MARSHAL-ERROR'][:1])))
            return [(k, '%s after peer reactions %r' % (d, trail[:step])) for (k, d) in found]
        found = judge(0)
        for (i, react) in enumerate(seq):
            if found or w.r_closed():
                break
            trail.append(react)
            if react == 'ack-next':
                if not outstanding:
                    break
                (tid, total, flags) = outstanding.pop(0)
                acked[tid] = total
                last_ack = T.enc_ack(flags, tid, total)
                w.peer_write(last_ack)
            elif react == 'ack-again':
                if last_ack is None:
                    break
                w.peer_write(last_ack)
            else:
                tid = int(react.split('-')[1])
                outstanding[:] = [o for o in outstanding if o[0] != tid]
                w.peer_write(T.enc_refuse(1, tid))
            w.quiesce()
            absorb()
            found = judge(i + 1)
        fins = tuple(sorted((sig[1], sig[3]) for sig in w.signals if sig[0] == 'send_bundle_finished'))
        return found, trail, fins

    for n in range(0, depth + 1):
        for seq in itertools.product(menu, repeat=n):
            (found, trail, fins) = run(seq)
            if len(trail) != len(seq):
                continue       # a prefix of this sequence already ended the run; counted there
            count += 1
            outcomes.add(fins)
            for (kind, detail) in found:
                if kind not in seen_kinds:
                    seen_kinds.add(kind)
                    v = Violation(PROP, 'dbus-view', kind, dict(), detail).as_dict()
                    v['case'] = dict(role=params['role'], bundles=bundles, reactions=list(trail))
                    violations.append(v)
    kn, out_v = [], []
    for v in violations:
        ent = known.match(v) if known is not None else None
        (kn if ent else out_v).append(dict(v, entry=ent) if ent else v)
    return dict(name=params['name'], evaluations=count, nontrivial_keys=['%s:%r' % (params['name'], o) for o in sorted(outcomes)],
                violations=out_v, known=kn, samples=[])


def run_agent_api(params, known):
    '''The agent-level D-Bus object (tcpcl.agent.Agent): every sequence of up to `depth` calls from
    {listen, listen on the same port again, listen_stop, listen_stop of an unknown port, connect,
    connect to a port nobody listens on, a peer connecting to the listener, get_connections,
    shutdown, stop}, the system run to quiescence after each.  Every signal and return value must
    fit its declared signature, failures must come back as D-Bus errors (never escape from a
    callback), and get_connections must list exactly the contacts announced opened and not yet closed.'''
    import itertools
    from ..agent_world import AgentWorld, AGENT_PATH, AGENT_IFACE, X_ADDR
    from .. import vnet
    from ..world import Violation
    menu = ('listen', 'listen-again', 'listen-stop', 'listen-stop-unknown', 'connect', 'connect-refused',
            'peer-connects', 'get', 'shutdown', 'stop')
    depth = params['depth']
    (part, parts) = (params['part'], params['parts'])
    violations = []
    kinds = set()
    count = 0
    outcomes = set()

    def viol(kind, sig, detail, case):
        key = (kind, tuple(sorted(sig.items())))
        if key in kinds:
            return
        kinds.add(key)
        v = Violation(PROP, 'agent-api', kind, sig, '%r: %s' % (case, detail)).as_dict()
        v['case'] = case
        violations.append(v)
    idx = -1
    for n in range(1, depth + 1):
        for seq in itertools.product(menu, repeat=n):
            idx += 1
            if idx % parts != part:
                continue
            count += 1
            case = dict(calls=list(seq))
            w = AgentWorld(dict(contacts=['out']))     # one outgoing contact to start with (process P0)
            px = w.procs['X']
            w.run_policy(w.proc_names())
            results = []
            stopped = False
            for call in seq:
                if call in ('listen', 'listen-again'):
                    res = w.bus_call(px, AGENT_PATH, 'listen', X_ADDR, 4556, iface=AGENT_IFACE)
                elif call == 'listen-stop':
                    res = w.bus_call(px, AGENT_PATH, 'listen_stop', X_ADDR, 4556, iface=AGENT_IFACE)
                elif call == 'listen-stop-unknown':
                    res = w.bus_call(px, AGENT_PATH, 'listen_stop', X_ADDR, 4999, iface=AGENT_IFACE)
                elif call == 'connect':
                    # nobody reads at the other end: the contact stays in negotiation
                    conn = vnet.StreamConn('cx%d' % len(w.conns), addr0=(X_ADDR, 42000 + len(w.conns)), addr1=('10.0.9.2', 4556))
                    conn.sent_log = []
                    w.conns.append(conn)
                    w.net.targets[('10.0.9.2', 4556)] = conn
                    res = w.bus_call(px, AGENT_PATH, 'connect', '10.0.9.2', 4556, iface=AGENT_IFACE)
                elif call == 'connect-refused':
                    res = w.bus_call(px, AGENT_PATH, 'connect', '10.0.8.2', 4556, iface=AGENT_IFACE)
                elif call == 'peer-connects':
                    lst = w.net.listeners.get((X_ADDR, 4556))
                    if lst is not None:
                        conn = vnet.StreamConn('cy%d' % len(w.conns), addr0=('10.0.7.2', 43000 + len(w.conns)), addr1=(X_ADDR, 4556))
                        conn.sent_log = []
                        w.conns.append(conn)
                        lst._accept_q.append(conn)
                    res = ('ok', None)
                elif call == 'get':
                    res = w.bus_call(px, AGENT_PATH, 'get_connections', iface=AGENT_IFACE)
                elif call == 'shutdown':
                    res = w.bus_call(px, AGENT_PATH, 'shutdown', iface=AGENT_IFACE)
                else:
                    res = w.bus_call(px, AGENT_PATH, 'stop', iface=AGENT_IFACE)
                results.append(res[0] if res[0] == 'ok' else '%s:%s' % (res[0], res[1]))
                w.collect(('user',))
                try:
                    w.run_policy(w.proc_names())
                except Exception as err:
                    viol('run-does-not-end', dict(call=call), str(err), case)
                    break
                if AGENT_PATH not in px.bus._objects:
                    stopped = True
                    break
                got = w.bus_call(px, AGENT_PATH, 'get_connections', iface=AGENT_IFACE)
                opened = [a[0] for (pn, pth, m, a) in w.sig.log if pn == 'X' and m == 'connection_opened']
                closed = [a[0] for (pn, pth, m, a) in w.sig.log if pn == 'X' and m == 'connection_closed']
                want = sorted(p for p in opened if p not in closed)
                if got[0] != 'ok' or sorted(str(x) for x in got[1]) != want:
                    viol('connection-list-differs-from-signals', dict(call=call), 'get_connections %r, opened %r, closed %r' % (got, opened, closed), case)
            if w.sig.escaped:
                viol('exception-escaped-callback', dict(exc=w.sig.escaped[-1][1]), '%s: %s' % (w.sig.escaped[-1][1], w.sig.escaped[-1][2]), case)
            if w.sig.marshal_errors:
                viol('signal-or-return-does-not-fit-signature', dict(), repr(w.sig.marshal_errors[-1]), case)
            for (call, res) in zip(seq, results):
                expect_error = call in ('listen-again', 'listen-stop-unknown', 'connect-refused')
                if call == 'listen-again' and seq.index('listen-again') == 0 and 'listen' not in seq[:seq.index('listen-again')]:
                    expect_error = False
                if res.startswith('error') and 'DBus' not in res and 'dbus' not in res:
                    viol('failure-not-reported-as-dbus-error', dict(call=call), res, case)
            outcomes.add((tuple(results), stopped))
    kn, out_v = [], []
    for v in violations:
        ent = known.match(v) if known is not None else None
        (kn if ent else out_v).append(dict(v, entry=ent) if ent else v)
    return dict(name=params['name'], evaluations=count, nontrivial_keys=['%s:%r' % (params['name'], o) for o in sorted(outcomes, key=repr)],
                violations=out_v, known=kn, samples=[])


def run_inbound_lengths(params, known):
    '''Argument values that reach a signal: the peer announces a total transfer length (and sends
    segment data) at the integer boundaries; every signal of the inbound transfer must still fit
    its signature, the announced-finished bundle must be listed and pop as sent.'''
    from ..peer_world import PeerWorld, PATH, IFACE
    from ..oracle import tcpclv4 as T
    from ..world import Violation
    violations = []
    count = 0
    keys = set()
    for role in ('passive', 'active'):
        for total in (None, 0, 8, 255, 65536, 2 ** 31 - 1, 2 ** 31, 5 * 10 ** 9, 2 ** 63, 2 ** 64 - 1):
            for tid in (0, 1, 2 ** 31, 2 ** 32, 2 ** 64 - 1):
                count += 1
                case = dict(role=role, announced_total_length=total, transfer_id=tid)
                w = PeerWorld(dict(role=role, seg_mru=64, tx_init=64))
                w.peer_write(T.enc_contact(0) + T.enc_sess_init(0, 64, 2 ** 64 - 1, b'dtn://peer/'))
                w.quiesce()
                ext = [T.ext_total_length(total)] if total is not None else []
                w.peer_write(T.enc_segment(2, tid, b'abcd', ext))
                w.quiesce()
                w.peer_write(T.enc_segment(1, tid, b'efgh'))
                w.quiesce()
                found = None
                bad = [sg for sg in w.signals if sg[0] == 'MARSHAL-ERROR']
                if bad:
                    found = ('signal-does-not-fit-signature', repr(bad[0]))
                elif w.escaped:
                    found = ('exception-escaped-callback', '%s: %s' % (w.escaped[-1][0], w.escaped[-1][2]))
                else:
                    started = [sg for sg in w.signals if sg[0] == 'recv_bundle_started']
                    fin = [sg for sg in w.signals if sg[0] == 'recv_bundle_finished']
                    if len(started) != 1:
                        found = ('inbound-transfer-not-announced-started-once', repr(started))
                    elif total in (None, 8) and (len(fin) != 1 or fin[0][3] != 'success'):
                        found = ('inbound-transfer-not-finished', repr(fin))
                    elif fin and fin[0][3] == 'success':
                        q = w.bus_call(w.proc, PATH, 'recv_bundle_get_queue', iface=IFACE)
                        res = w.bus_call(w.proc, PATH, 'recv_bundle_pop_data', fin[0][1], iface=IFACE)
                        if q[0] != 'ok' or [str(x) for x in q[1]] != [str(fin[0][1])]:
                            found = ('receive-queue-differs', repr(q))
                        elif res[0] != 'ok' or bytes(res[1]) != b'abcdefgh':
                            found = ('pop-returns-other-data', repr(res))
                keys.add('%s/%r/%r' % (role, total, tid))
                if found and len(violations) < 4:
                    v = Violation(PROP, 'inbound-lengths', found[0], dict(), '%r: %s' % (case, found[1])).as_dict()
                    v['case'] = case
                    violations.append(v)
    return dict(name=params['name'], evaluations=count, nontrivial_keys=sorted(keys), violations=violations, known=[], samples=[])


def run_file_api(params, known):
    """The file forms of the contact's bus methods: `recv_bundle_pop_file(id, path)` leaves in the file exactly
    the announced bundle - whatever the file held before (a longer earlier bundle, foreign content, nothing) -
    and `send_bundle_file(path)` transmits exactly the file's content.  Pairs of bundle lengths, popped into
    one file or two, in arrival or reverse order."""
    import itertools
    import os
    import shutil
    import tempfile
    from ..peer_world import PeerWorld, PATH, IFACE
    from ..oracle import tcpclv4 as T
    from ..world import Violation
    violations = []
    kinds = set()
    count = 0
    keys = set()

    def viol(kind, detail, case):
        if kind in kinds:
            return
        kinds.add(kind)
        v = Violation(params.get('prop', PROP), 'file-api', kind, dict(), '%r: %s' % (case, detail)).as_dict()
        v['case'] = case
        violations.append(v)

    def content(n, seed):
        return bytes((i * 7 + seed) & 0xFF for i in range(n))
    tmp = tempfile.mkdtemp(prefix='verif-c18-')
    try:
        lengths = (0, 1, 5, 8, 300)
        for (role, (l1, l2), paths, before, order) in itertools.product(('passive', 'active'), itertools.product(lengths, repeat=2),
                                                                        ('same', 'two'), ('absent', 'longer-content'), ('arrival', 'reverse')):
            count += 1
            case = dict(role=role, lengths=[l1, l2], files=paths, file_before=before, pop_order=order)
            w = PeerWorld(dict(role=role, seg_mru=64, tx_init=64))
            w.peer_write(T.enc_contact(0) + T.enc_sess_init(0, 64, 2 ** 32, b'dtn://peer/'))
            w.quiesce()
            data = [content(l1, 1), content(l2, 101)]
            for (k, d) in enumerate(data):
                segs = [d[i:i + 64] for i in range(0, len(d), 64)] or [b'']
                for (j, seg) in enumerate(segs):
                    w.peer_write(T.enc_segment((2 if j == 0 else 0) | (1 if j == len(segs) - 1 else 0), k + 1, seg))
                w.quiesce()
            fin = [sg for sg in w.signals if sg[0] == 'recv_bundle_finished' and sg[3] == 'success']
            if len(fin) != 2:
                viol('inbound-transfers-not-finished', repr(w.signals[-4:]), case)
                continue
            files = [os.path.join(tmp, 'f0'), os.path.join(tmp, 'f0' if paths == 'same' else 'f1')]
            for f in set(files):
                if os.path.exists(f):
                    os.unlink(f)
                if before == 'longer-content':
                    with open(f, 'wb') as fobj:
                        fobj.write(b'\xee' * 400)
            idx = [0, 1] if order == 'arrival' else [1, 0]
            for k in idx:
                res = w.bus_call(w.proc, PATH, 'recv_bundle_pop_file', fin[k][1], files[k], iface=IFACE)
                if res[0] != 'ok':
                    viol('pop-into-file-fails', repr(res), case)
                    continue
                import gc
                gc.collect()
                with open(files[k], 'rb') as fobj:
                    got = fobj.read()
                if got != data[k]:
                    viol('file-does-not-hold-exactly-the-bundle', 'bundle of %d octets, file holds %d octets (first difference at %d)'
                         % (len(data[k]), len(got), next((i for i in range(min(len(got), len(data[k]))) if got[i] != data[k][i]), min(len(got), len(data[k])))), case)
            q = w.bus_call(w.proc, PATH, 'recv_bundle_get_queue', iface=IFACE)
            if q[0] != 'ok' or list(q[1]) != []:
                viol('receive-queue-not-empty-after-the-pops', repr(q), case)
            if w.escaped:
                viol('exception-escaped-callback', '%s: %s' % (w.escaped[-1][0], w.escaped[-1][2]), case)
            keys.add('%s/%d/%d/%s/%s/%s' % (role, l1, l2, paths, before, order))
        # sending from a file
        for (role, length) in itertools.product(('passive', 'active'), (0, 1, 64, 65, 300)):
            count += 1
            case = dict(role=role, send_file_length=length)
            w = PeerWorld(dict(role=role, seg_mru=64, tx_init=64))
            w.peer_write(T.enc_contact(0) + T.enc_sess_init(0, 64, 2 ** 32, b'dtn://peer/'))
            w.quiesce()
            path = os.path.join(tmp, 'tx')
            with open(path, 'wb') as fobj:
                fobj.write(content(length, 33))
            res = w.bus_call(w.proc, PATH, 'send_bundle_file', path, iface=IFACE)
            w.quiesce()
            (msgs, _rest) = T.parse_all(bytes(w.out_octets), with_contact=True)
            segs = [m for m in msgs if m['kind'] == 'XFER_SEGMENT']
            sent = b''.join(m['data'] for m in segs)
            if res[0] != 'ok':
                viol('send-from-file-fails', repr(res), case)
            elif sent != content(length, 33) or not segs or not segs[-1]['flags'] & 1:
                viol('transmitted-octets-differ-from-the-file', '%d octets in %d segments' % (len(sent), len(segs)), case)
            keys.add('%s/send/%d' % (role, length))
    finally:
        shutil.rmtree(tmp, ignore_errors=True)
    return dict(name=params['name'], evaluations=count, nontrivial_keys=sorted(keys), violations=violations, known=[], samples=[])


def run_agent_receive(params, known):
    '''Several contacts of one agent receive at the same time (every peer numbers its transfers
    from 1).  Nothing is popped until the run is over; then every contact must list exactly the
    ids announced on it, and popping them must return what that contact's peer sent.'''
    from ..agent_world import AgentWorld, CONTACT_IFACE
    from ..world import Violation
    PPATH = '/org/ietf/dtn/tcpcl/Contact0'
    violations = []
    kinds = set()
    count = 0
    keys = set()

    def viol(kind, sig, detail, case):
        key = (kind, tuple(sorted(sig.items())))
        if key in kinds:
            return
        kinds.add(key)
        v = Violation(PROP, 'agent-receive', kind, sig, '%r: %s' % (case, detail)).as_dict()
        v['case'] = case
        violations.append(v)
    for contacts in (['out'], ['out', 'out'], ['out', 'in'], ['in', 'in'], ['in', 'out', 'in']):
        names = ['X'] + ['P%d' % i for i in range(len(contacts))]
        for nb in (1, 2):
            for order in [names[k:] + names[:k] for k in range(len(names))] + [list(reversed(names))]:
                count += 1
                case = dict(contacts=contacts, bundles_per_peer=nb, order=order)
                w = AgentWorld(dict(contacts=contacts))
                w.run_policy(order)
                sent = {}
                for i in range(len(contacts)):
                    sent[i] = [bytes([0x30 + i]) * (2 + j) + bytes([j]) for j in range(nb)]
                    for data in sent[i]:
                        w.bus_call(w.procs['P%d' % i], PPATH, 'send_bundle_data', data, iface=CONTACT_IFACE)
                w.run_policy(order)
                px = w.procs['X']
                paths = [str(p) for p in w.x_contacts()[1]]
                peer_of = {}
                for path in paths:
                    prm = w.bus_call(px, path, 'get_session_parameters', iface=CONTACT_IFACE)
                    peer_of[path] = str(prm[1]['peer_nodeid']) if prm[0] == 'ok' else None
                for path in paths:
                    i = int(peer_of[path][len('dtn://p'):-1])
                    announced = [a[0] for (pn, pth, m, a) in w.sig.log if pn == 'X' and pth == path and m == 'recv_bundle_finished']
                    q = w.bus_call(px, path, 'recv_bundle_get_queue', iface=CONTACT_IFACE)
                    if q[0] != 'ok' or sorted(str(x) for x in q[1]) != sorted(announced):
                        viol('receive-queue-differs', dict(), 'contact %s lists %r, announced on it %r' % (path, q, announced), case)
                        continue
                    if len(announced) != nb:
                        viol('bundles-not-announced', dict(), 'contact %s announced %r, its peer sent %d' % (path, announced, nb), case)
                        continue
                    got = []
                    for bid in announced:
                        res = w.bus_call(px, path, 'recv_bundle_pop_data', bid, iface=CONTACT_IFACE)
                        got.append(bytes(res[1]) if res[0] == 'ok' else repr(res))
                    if got != sent[i]:
                        viol('pop-returns-other-data', dict(), 'contact %s (peer %d) pops %r, its peer sent %r' % (path, i, got, sent[i]), case)
                if w.sig.escaped:
                    viol('exception-escaped-callback', dict(exc=w.sig.escaped[-1][1]), '%s: %s' % (w.sig.escaped[-1][1], w.sig.escaped[-1][2]), case)
                if w.sig.marshal_errors:
                    viol('signal-or-return-does-not-fit-signature', dict(), repr(w.sig.marshal_errors[-1]), case)
                keys.add('%s/%d/%s' % ('+'.join(contacts), nb, ''.join(order)))
    kn, out_v = [], []
    for v in violations:
        ent = known.match(v) if known is not None else None
        (kn if ent else out_v).append(dict(v, entry=ent) if ent else v)
    return dict(name=params['name'], evaluations=count, nontrivial_keys=sorted(keys), violations=out_v, known=kn, samples=[])


def replay_case(body, verbose=False):
    case = body['case']
    print('peer reactions %r to an endpoint (%s) with bundles %r' % (case['reactions'], case['role'], case['bundles']))
    from ..findings import KnownFindings
    res = run_refusals(dict(name='replay', role=case['role'], bundles=case['bundles'], depth=len(case['reactions'])), KnownFindings())
    hit = [v for v in res['violations'] if v['kind'] == body['violation']['kind']]
    for v in res['violations']:
        print(' observed %s: %s' % (v['kind'], v['detail'][:300]))
    return 1 if hit else 0


def _scen(name, scripts, dev_bound=0, weight=1, **over):
    params = dict(scripts=scripts, devs=DEVS if dev_bound else (), auto_pop=False)
    params.update(over)
    return dict(name=name, kind='graph', params=params, dev_bound=dev_bound, weight=weight, max_states=500000)


def scenarios(tier):
    s5 = ('send', hexn(5))
    s1 = ('send', hexn(1, 0xb0))
    s1b = ('send', hexn(1, 0xb8))
    term = ('terminate', 0)
    pop1 = ('pop', '1')
    pop2 = ('pop', '2')
    out = []
    out.append(_scen('A1|B:pop,pop', {'A': [s1], 'B': [pop1, pop1]}, weight=10))
    out.append(_scen('A1|B:pop-d1', {'A': [s1], 'B': [pop1]}, dev_bound=1, weight=30))
    out.append(_scen('A5|B:pop', {'A': [s5], 'B': [pop1]}, dev_bound=0, weight=20))
    out.append(_scen('A1+A1|B:pop2,pop1', {'A': [s1, s1b], 'B': [pop2, pop1]}, weight=40))
    out.append(_scen('A1+term|B:pop', {'A': [s1, term], 'B': [pop1]}, weight=30))
    out.append(_scen('A1|B1+pop', {'A': [s1, pop1], 'B': [s1b]}, weight=40))
    out.append(_scen('len0|B:pop', {'A': [('send', '')], 'B': [pop1]}, weight=5))
    out.append(_scen('ipv6/A1|B:pop', {'A': [s1], 'B': [pop1]}, weight=8, ipv6=True))
    out.append(_scen('A5|B:term', {'A': [s5], 'B': [term]}, weight=30))
    out.append(_scen('A1+A1+term', {'A': [s1, s1b, term], 'B': []}, weight=40))
    depth = 4 if tier == 'thorough' else 3
    for role in ('passive', 'active'):
        for (label, bundles) in (('one-segment', [hexn(3)]), ('two-segments', [hexn(6)]), ('two-bundles', [hexn(2), hexn(5, 0xb0)])):
            nm = 'refusals-%s-%s' % (role, label)
            out.append(dict(name=nm, kind='enum', runner='run_refusals',
                            params=dict(name=nm, role=role, bundles=bundles, depth=depth), weight=15))
    out.append(dict(name='agent-receive', kind='enum', runner='run_agent_receive', params=dict(name='agent-receive'), weight=15))
    out.append(dict(name='inbound-lengths', kind='enum', runner='run_inbound_lengths', params=dict(name='inbound-lengths'), weight=5))
    out.append(dict(name='file-api', kind='enum', runner='run_file_api', params=dict(name='file-api'), weight=5))
    # whole nodes: the BP agent consuming the D-Bus view through the real TCPCL adaptor of bp/cla.py
    for wname in NODE_WORKLOADS:
        for order in (['N0', 'N1'], ['N1', 'N0']):
            nm = 'nodes/%s/%s' % (wname, ''.join(order))
            out.append(dict(name=nm, kind='enum', runner='run_nodes', params=dict(name=nm, workload=wname, order=order),
                            weight=60 if wname == 'three' else 8))
    # the same over UDPCL: bp.cla.UdpclAdaptor between a real BP agent and a real UDPCL agent per node
    for wname in UDP_WORKLOADS:
        nm = 'udp-nodes/%s' % wname
        out.append(dict(name=nm, kind='enum', runner='run_udp_nodes', params=dict(name=nm, workload=wname), weight=5))
    adepth = 3
    aparts = 4 if tier == 'quick' else 8
    for part in range(aparts):
        nm = 'agent-api-%d/%d' % (part + 1, aparts)
        out.append(dict(name=nm, kind='enum', runner='run_agent_api',
                        params=dict(name=nm, depth=adepth if tier == 'quick' else 4, part=part, parts=aparts), weight=15))
    try:
        from .c13 import c18_udp_scenarios
        out.extend(c18_udp_scenarios(tier))
    except ImportError:
        pass
    if tier == 'thorough':
        out.append(_scen('A5+A1+term', {'A': [s5, s1, term], 'B': []}, weight=80))
        out.append(_scen('A5|B:pop-d1', {'A': [s5], 'B': [pop1]}, dev_bound=1, weight=60))
        out.append(_scen('A5+A1|B:pop,pop', {'A': [s5, s1], 'B': [pop1, pop2]}, weight=100))
        out.append(_scen('A1+term|B1+pop-d1', {'A': [s1, term, pop1], 'B': [s1b]}, dev_bound=0, weight=100))
        out.append(_scen('A1|B:pop,pop-d2', {'A': [s1], 'B': [pop1, pop1]}, dev_bound=2, weight=60))
    return out


ASSUMPTIONS = [
    'whole nodes (real BP agent, real bp.cla.TcpclAdaptor, real TCPCL agent on one bus; two nodes joined by virtual TCP): nine workloads (one to three bundles, both directions, reply over the route the adaptor adds, a bundle after the session was terminated) x the scheduler step at which each later bundle is handed over x two schedule orders; every bundle reaches the destination application once and intact, every contact queue read over the bus is empty at the end',
    'D-Bus marshalling judged by a rule table re-stated from probes of real dbus-python 1.3.2 (self-test in setup)',
    'method calls are dispatched between event-loop iterations; queries are evaluated in every explored state',
    'workloads of at most two bundles per direction',
    'inbound transfers whose announced total length and transfer id take the integer boundary values up to 2**64-1 (argument values reaching the started / finished signals)',
    'several contacts of one agent receiving at once (1-3 contacts, 1-2 bundles per peer, rotation-fair schedules): per-contact queue listing and pops',
    'agent object (tcpcl.agent.Agent): every sequence of up to 3 (thorough 4) calls from a menu of ten (listen, connect, peer connecting, listen_stop, get_connections, shutdown, stop and their failing variants), run to quiescence after each',
    'scripted-peer part: every sequence of up to 3 (thorough 4) reactions from {acknowledge next segment, refuse transfer 1, 2 or an unknown one, repeat the last acknowledgement} against one, two-segment and two queued bundles, endpoint active and passive',
]

RULE = ('explicit-state BFS over two real ContactHandler objects with user send/pop/terminate calls at every '
        'between-iteration point; in every state the queues, idle flag and state are read through the bus and compared '
        'with ghost bookkeeping of announced/popped/queued/finished ids; every signal emission and method return is '
        'marshalled against its declared signature')


def evidence(tier, seed, scens, results, wall_s):
    graphs = [r for r in results if r and r.get('kind') == 'graph']
    enums = [r for r in results if r and r.get('kind') == 'enum']
    ev = graph_evidence(PROP, tier, seed, [sc for sc in scens if sc['kind'] == 'graph'], graphs, wall_s, ASSUMPTIONS, RULE)
    cov = ev['coverage']
    cov['evaluations'] = sum(r.get('evaluations', 0) for r in enums)
    keys = set()
    for r in enums:
        keys.update(r.get('nontrivial_keys', []))
    cov['distinct_nontrivial'] = len(keys)
    cov['exhaustive'] = cov['exhaustive'] and len([r for r in results if r and r.get('kind') != 'error']) == len(results)
    return ev
