'''C03 - a COSE integrity block verifies iff nothing it covers was altered.

Fault enumeration.  Integrity-protected bundles are produced (a) by the real
transmit chain of a source agent for COSE_Mac0 (direct key), COSE_Mac (wrapped
key) and COSE_Sign1 (ES256, certificate chain or thumbprint), and (b) by an
independent HMAC producer for AAD scopes the source side never emits.  Every
single-bit flip of the encoded bundle, plus field-level edits, is fed to a
verifier agent.  The independent decoder and AAD builder compute the "covered
tuple" of every target before and after the alteration; equal tuples must
verify (the change lies outside the scope), different tuples must fail and be
reported as a security failure.'''
import datetime
import os
import re
import tempfile

from ..bp_world import BpWorld
from ..world import Violation
from ..oracle import bpv7 as B
from ..oracle import cbor_min as C
from ..oracle import cose_aad as A
from ..evidence import enum_evidence

PROP = 'C03'
SRC = 'dtn://src/'
NODE = 'dtn://node/'
KEY = bytes(range(32))
WRONG_KEY = bytes(range(1, 33))
KID = b'mac-key'
SEC_REASONS = (12, 13, 14, 15, 16)
# message kinds that need the repository's pinned pycose fork (not installable here)
ENV_LIMITED = ('mac-kw', 'sign1-x5t')


# shape of the bundle to protect (set per scenario): payload length classes, no report
# requests, other block order / numbering
VARIANT = 'base'
VARIANTS = ('base', 'empty-payload', 'long-payload', 'no-reports', 'renumbered')


CREATION = (760000000000, 3)


def plain_bundle(crc=0):
    pri = dict(flags=B.FLAG_REQ_DELETION | B.FLAG_REQ_DELIVERY, crc_type=crc, dest='dtn://node/app', src=SRC + 'app',
               report_to='dtn://rpt/', ts=CREATION, lifetime=86400000 * 400)
    payload = b'integrity-protected payload'
    if VARIANT == 'empty-payload':
        payload = b''
    elif VARIANT == 'long-payload':
        payload = bytes((i * 7 + 3) & 0xFF for i in range(300))
    elif VARIANT == 'no-reports':
        pri.update(flags=0, report_to='dtn:none')
    blocks = [dict(type=7, num=2, flags=0, crc_type=crc, data=B.enc_age(1234)),
              dict(type=193, num=3, flags=0, crc_type=0, data=b'other-block'),
              dict(type=1, num=1, flags=0, crc_type=crc, data=payload)]
    if VARIANT == 'renumbered':
        blocks = [dict(blocks[1], num=23), dict(blocks[0], num=24), blocks[2]]
    return dict(primary=pri, blocks=blocks)


# ---------------------------------------------------------------------------
# keys, certificates

def sym_key(k, ops, alg):
    from pycose.keys import SymmetricKey, keyops
    from pycose import algorithms
    key = SymmetricKey(k=k, optional_params={})
    key.kid = KID
    key.alg = getattr(algorithms, alg)
    key.key_ops = [getattr(keyops, op) for op in ops]
    return key


_PKI = None
_PEMS = None


def make_pems():
    '''A CA and an end-entity certificate for the source node as PEM text
    (generated once by the driver and handed to every worker so that all parts
    of one scenario work on the same certificates).'''
    from cryptography import x509
    from cryptography.x509.oid import NameOID
    from cryptography.hazmat.primitives import hashes, serialization
    from cryptography.hazmat.primitives.asymmetric import ec
    import asn1
    now = datetime.datetime(2024, 1, 1, tzinfo=datetime.timezone.utc)

    # keys are derived from fixed scalars: every run of the check works on the same keys
    def find_key(curve, start, pred=None):
        size = (curve.key_size + 7) // 8
        d = start
        while True:
            key = ec.derive_private_key(d, curve)
            nums = key.public_key().public_numbers()
            full = nums.x >> (8 * (size - 1)) and nums.y >> (8 * (size - 1))
            if (pred is None and full) or (pred is not None and pred(nums.x, nums.y, size)):
                return key
            d += 1
    ca_key = find_key(ec.SECP256R1(), 0xCA0001)
    ca_name = x509.Name([x509.NameAttribute(NameOID.COMMON_NAME, 'verif CA')])
    ca = (x509.CertificateBuilder().subject_name(ca_name).issuer_name(ca_name).public_key(ca_key.public_key())
          .serial_number(1).not_valid_before(now - datetime.timedelta(days=3650)).not_valid_after(now + datetime.timedelta(days=3650))
          .add_extension(x509.BasicConstraints(ca=True, path_length=None), critical=True)
          .add_extension(x509.KeyUsage(False, False, False, False, False, True, True, False, False), critical=True)
          .add_extension(x509.SubjectKeyIdentifier.from_public_key(ca_key.public_key()), critical=False)
          .add_extension(x509.AuthorityKeyIdentifier.from_issuer_public_key(ca_key.public_key()), critical=False)
          .sign(ca_key, hashes.SHA256()))
    ee_key = find_key(ec.SECP256R1(), 0xEE0001)
    enc = asn1.Encoder()
    enc.start()
    enc.write(SRC, asn1.Numbers.IA5String)
    other = x509.OtherName(x509.ObjectIdentifier('1.3.6.1.5.5.7.8.11'), enc.output())
    ee = (x509.CertificateBuilder().subject_name(x509.Name([x509.NameAttribute(NameOID.COMMON_NAME, 'src node')]))
          .issuer_name(ca_name).public_key(ee_key.public_key()).serial_number(2)
          .not_valid_before(now - datetime.timedelta(days=3650)).not_valid_after(now + datetime.timedelta(days=3650))
          .add_extension(x509.BasicConstraints(ca=False, path_length=None), critical=True)
          .add_extension(x509.KeyUsage(True, False, False, False, False, False, False, False, False), critical=True)
          .add_extension(x509.ExtendedKeyUsage([x509.ObjectIdentifier('1.3.6.1.5.5.7.3.35')]), critical=False)
          .add_extension(x509.SubjectAlternativeName([other]), critical=False)
          .add_extension(x509.SubjectKeyIdentifier.from_public_key(ee_key.public_key()), critical=False)
          .add_extension(x509.AuthorityKeyIdentifier.from_issuer_public_key(ca_key.public_key()), critical=False)
          .sign(ca_key, hashes.SHA256()))
    out = dict(
        ca=ca.public_bytes(serialization.Encoding.PEM).decode('ascii'),
        cert=ee.public_bytes(serialization.Encoding.PEM).decode('ascii'),
        key=ee_key.private_bytes(serialization.Encoding.PEM, serialization.PrivateFormat.PKCS8,
                                 serialization.NoEncryption()).decode('ascii'))

    # certificates whose key is NOT bound to the security source dtn://src/
    def other_name(eid):
        e2 = asn1.Encoder()
        e2.start()
        e2.write(eid, asn1.Numbers.IA5String)
        return x509.OtherName(x509.ObjectIdentifier('1.3.6.1.5.5.7.8.11'), e2.output())
    ca2_key = find_key(ec.SECP256R1(), 0xCA2001)
    ca2_name = x509.Name([x509.NameAttribute(NameOID.COMMON_NAME, 'some other CA')])
    variants = {
        'other-node-id': (ca_key, ca_name, [other_name('dtn://evil/')]),
        'no-san': (ca_key, ca_name, None),
        'dns-san-only': (ca_key, ca_name, [x509.DNSName('src.example')]),
        'untrusted-issuer': (ca2_key, ca2_name, [other_name(SRC)]),
    }
    # certificates that DO bind their key to the security source, over keys of other shapes: public points with a
    # leading zero octet in x or in y, the larger curves, P-521 points with and without the top bit of a coordinate
    top = lambda v, size: v >> (8 * (size - 1))
    shapes = {
        'shape-p256-x-leading-zero': (ec.SECP256R1(), lambda x, y, n: not top(x, n) and top(y, n)),
        'shape-p256-y-leading-zero': (ec.SECP256R1(), lambda x, y, n: top(x, n) and not top(y, n)),
        'shape-p384': (ec.SECP384R1(), None),
        'shape-p384-x-leading-zero': (ec.SECP384R1(), lambda x, y, n: not top(x, n) and top(y, n)),
        'shape-p521-top-bits-set': (ec.SECP521R1(), lambda x, y, n: x >> 520 and y >> 520),
        'shape-p521-x-short': (ec.SECP521R1(), lambda x, y, n: not x >> 520 and y >> 520),
        'shape-p521-y-short': (ec.SECP521R1(), lambda x, y, n: x >> 520 and not y >> 520),
    }
    # certificates bound to the security source that are valid only before / only after the middle of 2024
    windows = {'valid-early': (datetime.datetime(2023, 1, 1, tzinfo=datetime.timezone.utc), datetime.datetime(2024, 4, 30, tzinfo=datetime.timezone.utc)),
               'valid-late': (datetime.datetime(2024, 5, 15, tzinfo=datetime.timezone.utc), datetime.datetime(2030, 1, 1, tzinfo=datetime.timezone.utc))}
    for vname in windows:
        variants[vname] = (ca_key, ca_name, [other_name(SRC)])
    shape_keys = {}
    for (k, (vname, (curve, pred))) in enumerate(sorted(shapes.items())):
        variants[vname] = (ca_key, ca_name, [other_name(SRC)])
        shape_keys[vname] = find_key(curve, 0x5A0001 + 0x1000 * k, pred)
    for (serial, (vname, (iss_key, iss_name, san))) in enumerate(sorted(variants.items()), 10):
        vkey = shape_keys.get(vname) or find_key(ec.SECP256R1(), 0xBAD001 + 0x100 * serial)
        bld = (x509.CertificateBuilder().subject_name(x509.Name([x509.NameAttribute(NameOID.COMMON_NAME, vname)]))
               .issuer_name(iss_name).public_key(vkey.public_key()).serial_number(serial)
               .not_valid_before(windows.get(vname, (now - datetime.timedelta(days=3650), None))[0])
               .not_valid_after(windows.get(vname, (None, now + datetime.timedelta(days=3650)))[1])
               .add_extension(x509.BasicConstraints(ca=False, path_length=None), critical=True)
               .add_extension(x509.KeyUsage(True, False, False, False, False, False, False, False, False), critical=True)
               .add_extension(x509.ExtendedKeyUsage([x509.ObjectIdentifier('1.3.6.1.5.5.7.3.35')]), critical=False)
               .add_extension(x509.SubjectKeyIdentifier.from_public_key(vkey.public_key()), critical=False)
               .add_extension(x509.AuthorityKeyIdentifier.from_issuer_public_key(iss_key.public_key()), critical=False))
        if san is not None:
            bld = bld.add_extension(x509.SubjectAlternativeName(san), critical=False)
        vcert = bld.sign(iss_key, hashes.SHA256())
        out['cert:' + vname] = vcert.public_bytes(serialization.Encoding.PEM).decode('ascii')
        out['key:' + vname] = vkey.private_bytes(serialization.Encoding.PEM, serialization.PrivateFormat.PKCS8,
                                                 serialization.NoEncryption()).decode('ascii')
    return out


WRONG_CERTS = ('other-node-id', 'no-san', 'dns-san-only', 'untrusted-issuer')
KEY_SHAPES = ('shape-p256-x-leading-zero', 'shape-p256-y-leading-zero', 'shape-p384', 'shape-p384-x-leading-zero',
              'shape-p521-top-bits-set', 'shape-p521-x-short', 'shape-p521-y-short')


def set_pems(pems):
    global _PEMS
    _PEMS = pems


def pki():
    '''PEM files on disk (the repository loads certificates through its
    configuration); removed again when the worker exits.'''
    global _PKI, _PEMS
    if _PKI is not None:
        return _PKI
    if _PEMS is None:
        _PEMS = make_pems()
    import atexit
    tmp = tempfile.mkdtemp(prefix='verif-c03-')
    paths = {}
    for (idx, name) in enumerate(sorted(_PEMS)):
        paths[name] = os.path.join(tmp, 'f%02d.pem' % idx)
        with open(paths[name], 'w') as fobj:
            fobj.write(_PEMS[name])
    atexit.register(cleanup_pki)
    _PKI = paths
    return paths


def cleanup_pki():
    global _PKI
    if _PKI:
        import shutil
        shutil.rmtree(os.path.dirname(_PKI['ca']), ignore_errors=True)
        _PKI = None


# ---------------------------------------------------------------------------
# producing protected bundles

def source_protect(kind, targets, cert_variant=None):
    '''Run the real transmit chain of a source agent; returns the octets that
    reach its convergence layer.'''
    from bp.app.bpsec import SecAssociation, SecOperation
    from pycose import algorithms
    from .c05 import impl_container
    tgt_types = [1] + ([7] if 7 in targets else [])
    params = dict(node_id=SRC, tx_routes=[('.*', 'dtn://next/', None)])
    world = None
    if kind in ('sign1-x5chain', 'sign1-x5t'):
        world = _bp_world_with_config(params, sign=True, include_chain=(kind == 'sign1-x5chain'), cert_variant=cert_variant)
        cose = world.cose()
        # the repository's own association signs the payload; widen it to the wanted targets
        cose.sec_assoc[0].tgt_blk_types = tgt_types
    else:
        world = BpWorld(params)
        cose = world.cose()
        if kind == 'mac0':
            key = sym_key(KEY, ['MacCreateOp', 'MacVerifyOp'], 'HMAC256')
            tmpl = SecOperation(sec_type='bib', role='source', priv_key_id=KID)
        else:
            key = sym_key(KEY, ['WrapOp', 'UnwrapOp'], 'A256KW')
            tmpl = SecOperation(sec_type='bib', role='source', priv_key_id=KID, content_alg=algorithms.HMAC256,
                                content_key=bytes(range(100, 132)))
        cose.sym_key_store[KID] = key
        if list(targets) == [7, 1]:
            # two associations, the one for the higher block number first: the operations are
            # then not in ascending order of target block number
            for typ in (7, 1):
                cose.sec_assoc.append(SecAssociation(src_pat=re.compile(re.escape(SRC) + '.*'), dst_pat=re.compile('.*'),
                                                     tgt_blk_types=[typ], templates=[tmpl]))
        else:
            cose.sec_assoc.append(SecAssociation(src_pat=re.compile(re.escape(SRC) + '.*'), dst_pat=re.compile('.*'),
                                                 tgt_blk_types=tgt_types, templates=[tmpl]))
    world.send(impl_container(plain_bundle()))
    world.quiesce()
    sent = world.sent()
    if len(sent) != 1 or world.api_errors or world.escaped:
        raise RuntimeError('source agent did not produce one protected bundle: %r %r %r' % (len(sent), world.api_errors[:1], world.escaped[:1]))
    return sent[0]


def _bp_world_with_config(params, sign=False, include_chain=True, verify_ca=False, cert_variant=None):
    '''BpWorld whose configuration names certificate / key files.'''
    import vmc.bp_world as bw
    paths = pki()

    class CfgWorld(BpWorld):
        pass
    orig = bw._env.load_bp().config.Config
    extra = {}
    if sign:
        (cert, key) = ('cert', 'key') if cert_variant is None else ('cert:' + cert_variant, 'key:' + cert_variant)
        extra.update(sign_cert_file=paths[cert], sign_key_file=paths[key], integrity_include_chain=include_chain)
    if verify_ca:
        extra.update(verify_ca_file=paths['ca'])

    def patched(**kwargs):
        kwargs.update(extra)
        return orig(**kwargs)
    cfgmod = bw._env.load_bp().config
    cfgmod.Config = patched
    try:
        world = BpWorld(params)
    finally:
        cfgmod.Config = orig
    return world


def oracle_protect(scope_name):
    bundle = plain_bundle()
    other = [b['num'] for b in bundle['blocks'] if b['type'] == 193][0]
    scopes = {
        'default': {0: 1, -1: 1},
        'with-secblk': {0: 1, -1: 1, -2: 1},
        'other-metadata': {0: 1, -1: 1, other: 1},
        'other-btsd': {0: 1, -1: 1, other: 3},
        'target-btsd-only': {-1: 2},
        'omitted-param': None,
    }
    source = SRC
    if scope_name == 'ipn3-endpoints':
        # three-number ipn endpoint IDs (allocator, node, service) as source, report-to and security source
        bundle['primary'].update(src='ipn:977000.3.7', report_to='ipn:977000.5.1')
        source = 'ipn:977000.3.9'
        scopes[scope_name] = {0: 1, -1: 1}
    return B.encode(A.add_bib(bundle, [1], KEY, KID, source, scope=scopes[scope_name], num=(4 if other == 3 else 30)))


# ---------------------------------------------------------------------------
# verifier

def verifier(keymode, with_ca=False):
    params = dict(node_id=NODE, rx_routes=[('^dtn://node/.*', 'deliver')], tx_routes=[('.*', 'dtn://next/', None)])
    world = _bp_world_with_config(params, verify_ca=True) if with_ca else BpWorld(params)
    cose = world.cose()
    if keymode == 'right':
        cose.sym_key_store[KID] = sym_key(KEY, ['MacCreateOp', 'MacVerifyOp'], 'HMAC256')
    elif keymode == 'right-kw':
        cose.sym_key_store[KID] = sym_key(KEY, ['WrapOp', 'UnwrapOp'], 'A256KW')
    elif keymode == 'wrong':
        cose.sym_key_store[KID] = sym_key(WRONG_KEY, ['MacCreateOp', 'MacVerifyOp'], 'HMAC256')
    elif keymode == 'wrong-kw':
        cose.sym_key_store[KID] = sym_key(WRONG_KEY, ['WrapOp', 'UnwrapOp'], 'A256KW')
    return world


def verify(data, keymode, with_ca=False):
    world = verifier(keymode, with_ca)
    world.receive(data)
    world.quiesce()
    delivered = [d for d in world.probe.seen]
    reasons = []
    for octets in world.sent():
        try:
            dec = B.decode(octets)
            if dec['primary']['flags'] & B.FLAG_ADMIN:
                rep = B.dec_status_report(B.payload(dec))
                if rep['status'][3][0]:
                    reasons.append(rep['reason'])
        except Exception:
            pass
    return world, delivered, reasons



def same_layout(data, alt):
    """Do the altered octets still parse, as plain CBOR, into the same top-level items at the same places
    (the primary block and every other block where they were)?"""
    try:
        (_i1, e1, info1) = C.load(bytes(data), 0)
        (_i2, e2, info2) = C.load(bytes(alt), 0)
    except C.DecodeError:
        return False
    return e1 == e2 and isinstance(info1, dict) and isinstance(info2, dict) and info1.get('spans') == info2.get('spans')

def classify(orig, alt_bytes):
    '''Oracle verdict for altered octets: 'undecodable', 'crc', 'not-local',
    'must-fail', 'must-verify' or 'either'.'''
    try:
        alt = B.decode(alt_bytes, strict=False)
    except B.Malformed:
        return 'undecodable', None
    if not alt['primary']['crc_ok'] or not all(b['crc_ok'] for b in alt['blocks']):
        return 'crc', alt
    if not alt['primary']['dest'].startswith('dtn://node/') or alt['primary']['src'] == NODE:
        return 'not-local', alt
    if alt['primary']['flags'] & B.FLAG_IS_FRAGMENT:
        return 'not-local', alt
    try:
        t_orig = A.covered_tuples(orig)
    except A.NoTuple:
        t_orig = None
    try:
        t_alt = A.covered_tuples(alt)
    except A.NoTuple:
        # a security block is present but what it covers cannot be established
        if any(b['type'] == B.T_BIB for b in alt['blocks']):
            return 'must-fail', alt
        return 'either', alt
    nbib_o = sum(1 for b in orig['blocks'] if b['type'] == B.T_BIB)
    nbib_a = sum(1 for b in alt['blocks'] if b['type'] == B.T_BIB)
    if t_orig is None or nbib_o != nbib_a or len(t_orig) != len(t_alt):
        return 'either', alt
    same_all = True
    for (o, a) in zip(t_orig, t_alt):
        if o[2] != a[2]:
            return 'must-fail', alt
        if o[3] != a[3] or o[0] != a[0]:
            same_all = False
    # identical covered tuples: the alteration is outside everything the block binds
    asb_o = [b['data'] for b in orig['blocks'] if b['type'] == B.T_BIB]
    asb_a = [b['data'] for b in alt['blocks'] if b['type'] == B.T_BIB]
    if same_all and asb_o == asb_a:
        return 'must-verify', alt
    return 'either', alt


def flip(data, bit):
    buf = bytearray(data)
    buf[bit // 8] ^= 0x80 >> (bit % 8)
    return bytes(buf)


def field_edits(orig):
    '''Field-level alterations re-encoded by the independent encoder.'''
    out = []

    def variant(name, fn):
        b = dict(primary=dict(orig['primary']), blocks=[dict(x) for x in orig['blocks']])
        for x in [b['primary']] + b['blocks']:
            for k in ('span', 'crc', 'crc_ok'):
                x.pop(k, None)
        try:
            fn(b)
            out.append((name, B.encode(b)))
        except Exception:
            pass
    bib_idx = [i for (i, b) in enumerate(orig['blocks']) if b['type'] == B.T_BIB][0]

    def edit_asb(fn):
        def inner(b):
            asb = B.dec_asb(b['blocks'][bib_idx]['data'])
            fn(asb)
            b['blocks'][bib_idx]['data'] = B.enc_asb(asb)
        return inner
    variant('payload-append', lambda b: b['blocks'][-1].update(data=b['blocks'][-1]['data'] + b'!'))
    variant('payload-truncate', lambda b: b['blocks'][-1].update(data=b['blocks'][-1]['data'][:-1]))
    variant('payload-flags', lambda b: b['blocks'][-1].update(flags=b['blocks'][-1]['flags'] ^ 0x10))
    variant('primary-lifetime', lambda b: b['primary'].update(lifetime=b['primary']['lifetime'] + 1))
    variant('primary-report-to', lambda b: b['primary'].update(report_to='dtn://evil/'))
    variant('primary-timestamp', lambda b: b['primary'].update(ts=(b['primary']['ts'][0], b['primary']['ts'][1] + 1)))
    variant('security-source', edit_asb(lambda a: a.update(source='dtn://evil/')))

    def last_number(eid):
        (head, _dot, tail) = eid.rpartition('.')
        if not eid.startswith('ipn:') or not tail.isdigit():
            raise ValueError('not an ipn endpoint ID')
        return '%s.%d' % (head, int(tail) + 1)
    # only for ipn endpoint IDs: the last number changed (for three-number IDs the third)
    variant('security-source-last-number', edit_asb(lambda a: a.update(source=last_number(a['source']))))
    variant('primary-source-last-number', lambda b: b['primary'].update(src=last_number(b['primary']['src'])))
    variant('primary-report-to-last-number', lambda b: b['primary'].update(report_to=last_number(b['primary']['report_to'])))
    variant('retarget-to-other-block', edit_asb(lambda a: a.update(targets=[3] + a['targets'][1:])))

    def scope_edit(a):
        params = [p for p in a['params'] if p[0] != 5]
        params.append((5, {0: 1, -1: 3}))
        a['params'] = params
        a['flags'] |= 1
    variant('scope-map-edited', edit_asb(scope_edit))

    def drop_scope(a):
        a['params'] = [p for p in a['params'] if p[0] != 5]
        if not a['params']:
            a['flags'] &= ~1
    variant('scope-map-removed', edit_asb(drop_scope))

    def msg_edit(fn):
        def inner(a):
            (rt, rv) = a['results'][0][0]
            msg = C.loads(rv)
            fn(msg)
            a['results'][0][0] = (rt, C.dumps(msg))
        return edit_asb(inner)
    variant('tag-truncated', msg_edit(lambda m: m.__setitem__(len(m) - 1, m[-1][:-1]) if isinstance(m[-1], bytes) else None))
    variant('tag-extended', msg_edit(lambda m: m.__setitem__(len(m) - 1, m[-1] + b'\x00') if isinstance(m[-1], bytes) else None))
    variant('protected-bucket-emptied', msg_edit(lambda m: m.__setitem__(0, b'')))

    def attach_old(b):
        # the protected content moves into the COSE payload slot, the target block gets other octets
        old = bytes(b['blocks'][-1]['data'])
        msg_edit(lambda m: m.__setitem__(2, old))(b)
        b['blocks'][-1].update(data=old[:-1] + bytes([old[-1] ^ 0x20]))
    variant('payload-altered-old-content-attached', attach_old)
    variant('other-block-data', lambda b: [x.update(data=x['data'] + b'+') for x in b['blocks'] if x['type'] == 193])
    variant('other-block-flags', lambda b: [x.update(flags=x['flags'] ^ 0x02) for x in b['blocks'] if x['type'] == 193])
    variant('other-block-removed', lambda b: b.update(blocks=[x for x in b['blocks'] if x['type'] != 193]))
    variant('age-block-data', lambda b: [x.update(data=B.enc_age(99)) for x in b['blocks'] if x['type'] == 7])
    # the same age written in other octets (a longer integer head): the value a parser reads is unchanged, the
    # block's data is not - covered octets are octets
    variant('age-block-same-value-longer-head', lambda b: [x.update(data=b'\x1a' + B.dec_age(x['data']).to_bytes(4, 'big')) for x in b['blocks'] if x['type'] == 7])
    variant('age-block-same-value-eight-octet-head', lambda b: [x.update(data=b'\x1b' + B.dec_age(x['data']).to_bytes(8, 'big')) for x in b['blocks'] if x['type'] == 7])

    def swap_numbers(b):
        for x in b['blocks']:
            if x['type'] == 7:
                x['num'] = 3
            elif x['type'] == 193:
                x['num'] = 2
    variant('swap-block-numbers', swap_numbers)
    return out


def run_source(params, known):
    from .. import env as _env
    _env.load_bp()
    global VARIANT
    VARIANT = params.get('variant', 'base')
    name = params['name']
    if params.get('pems'):
        set_pems(params['pems'])
    kind = params['kind']
    targets = params.get('targets', [1])
    with_ca = kind.startswith('sign1')
    if kind.startswith('oracle:'):
        data = oracle_protect(kind.split(':', 1)[1])
        right = 'right'
        (_w, delivered0, reasons0) = verify(data, right, False)
        if not delivered0 and kind.endswith(':omitted-param'):
            # no AAD-scope parameter at all: which default applies is a matter of the security
            # context's specification, the repository rejects such a block; nothing to alter
            return dict(name=name, evaluations=1, nontrivial_keys=[], violations=[], known=[], samples=[],
                        verdicts={'oracle-variant-not-accepted': 1}, report_keys=['verdicts'],
                        note='unmodified oracle-produced block rejected with reasons %r' % (reasons0,))
        if not delivered0:
            # The external AAD of this block was constructed independently (scope map with other
            # blocks' metadata / data); the verifier builds something else from the same bundle.
            # All five explicit scope variants verify on the repaired tree, so this is a regression of the
            # AAD construction the property names as its mechanism.
            v = Violation(PROP, 'integrity', 'independently-produced-block-rejected', dict(scope=kind.split(':', 1)[1]),
                          '%s: unmodified bundle with an independently produced integrity block is rejected (reasons %r)' % (name, reasons0)).as_dict()
            v['case'] = dict(source=kind, protected=data.hex(), altered=data.hex(), alteration='none', keymode='right', with_ca=False)
            return dict(name=name, evaluations=1, nontrivial_keys=[], violations=[v], known=[], samples=[],
                        verdicts={'oracle-variant-not-accepted': 1}, report_keys=['verdicts'])
    else:
        try:
            data = source_protect(kind, targets)
        except RuntimeError as err:
            text = str(err)
            if kind in ENV_LIMITED and ('site-packages/pycose' in text or 'cannot encode type' in text):
                # stock pycose 1.1.0 lacks what the repository's pinned fork provides for this message kind
                return dict(name=name, evaluations=1, nontrivial_keys=[], violations=[], known=[], samples=[],
                            verdicts={'not-producible-with-installed-pycose': 1}, report_keys=['verdicts'],
                            note=text[:300])
            v = Violation(PROP, 'integrity', 'source-cannot-apply-integrity-block', dict(kind=kind), text[:1500]).as_dict()
            v['case'] = dict(source=kind)
            return dict(name=name, evaluations=1, nontrivial_keys=[], violations=[v], known=[], samples=[])
        right = 'right-kw' if kind == 'mac-kw' else 'right'
    orig = B.decode(data)
    violations = []
    kinds = set()
    counts = {}
    keys = set()
    samples = []

    def viol(kind_, sig, detail, alt_bytes, what):
        key = (kind_, tuple(sorted(sig.items())))
        if key in kinds:
            return
        kinds.add(key)
        v = Violation(PROP, 'integrity', kind_, sig, '%s: %s' % (name, detail)).as_dict()
        v['case'] = dict(source=kind, protected=data.hex(), altered=alt_bytes.hex(), alteration=what, keymode=right, with_ca=with_ca)
        violations.append(v)

    if not kind.startswith('oracle'):
        # what the source was configured to protect is what its integrity block(s) name, each block once
        want_nums = sorted(b['num'] for b in orig['blocks'] if b['type'] in set(targets))
        got_nums = sorted(t for b in orig['blocks'] if b['type'] == B.T_BIB for t in B.dec_asb(b['data'])['targets'])
        if got_nums != want_nums:
            viol('integrity-block-does-not-name-the-configured-targets', dict(), 'targets on the wire %r, blocks of the configured types %r' % (got_nums, want_nums),
                 data, 'none')

    # is the primary block among what this integrity block covers?  (an ordinary change of its lifetime says so)
    probe = [e for e in field_edits(orig) if e[0] == 'primary-lifetime']
    primary_covered = bool(probe) and classify(orig, probe[0][1])[0] == 'must-fail'
    target_nums = set(t for b in orig['blocks'] if b['type'] == B.T_BIB for t in B.dec_asb(b['data'])['targets'])
    # ... and are the targets covered whole, their type / number / flags included?  (a change of the payload block's flags says so)
    probe = [e for e in field_edits(orig) if e[0] == 'payload-flags']
    if not (probe and classify(orig, probe[0][1])[0] == 'must-fail'):
        target_nums = set()

    def judge(alt_bytes, what, keymode):
        (verdict, alt) = classify(orig, alt_bytes) if alt_bytes != data else ('must-verify', orig)
        if keymode != right and verdict in ('must-verify', 'either') and alt_bytes == data:
            verdict = 'must-fail'
        counts[verdict] = counts.get(verdict, 0) + 1
        (world, delivered, reasons) = verify(alt_bytes, keymode, with_ca)
        if world.escaped:
            err = world.escaped[-1]
            viol('exception-escaped-idle-callback', dict(exc=err[0], verdict=verdict), '%s: %s' % (err[0], err[2]), alt_bytes, what)
            return verdict
        # an exception while decoding a damaged bundle only means "not processed"
        rejected_in_decode = bool(world.api_errors) and not delivered
        if verdict == 'crc':
            if delivered:
                viol('corrupted-bundle-delivered', dict(verdict=verdict), '%r' % (what,), alt_bytes, what)
        elif verdict == 'undecodable':
            # one bit of a covered primary block turned it into something that is no RFC 9171 bundle (an endpoint ID the
            # scheme does not allow, say): whatever the receiver makes of it, it is not the primary block that was bound in
            if delivered and keymode == right and str(what).startswith('bit ') and same_layout(data, alt_bytes):
                bitpos = int(str(what)[4:])
                spans = [('primary block', orig['primary']['span'])] if primary_covered else []
                # (the same for the blocks the integrity block names as targets: a data item retyped from byte string to
                # text string, say, is a change of the target although an obliging decoder reads the same octets out of it)
                spans += [('target block %d' % b['num'], b['span']) for b in orig['blocks'] if b['num'] in target_nums]
                for (which, (s0, s1)) in spans:
                    if s0 * 8 <= bitpos < s1 * 8:
                        viol('altered-bundle-verified', dict(primary_block='no longer RFC 9171') if which == 'primary block' else dict(target_block='no longer RFC 9171'),
                             'alteration %r of the covered %s, yet the bundle was delivered' % (what, which), alt_bytes, what)
        elif verdict == 'must-fail':
            if delivered:
                viol('altered-bundle-verified', dict(), 'alteration %r changes what the integrity block covers, yet the bundle was delivered' % (what,), alt_bytes, what)
            elif rejected_in_decode and any('verify' in (e[1] or '') for e in world.api_errors):
                err = world.api_errors[-1]
                viol('verification-failure-raises-instead-of-reporting', dict(exc=err[0]),
                     'alteration %r: %s: %s' % (what, err[0], err[1]), alt_bytes, what)
            elif rejected_in_decode:
                pass
            elif alt is not None and alt['primary']['flags'] & B.FLAG_REQ_DELETION and alt['primary']['report_to'] != 'dtn:none':
                if not any(r in SEC_REASONS for r in reasons):
                    viol('security-failure-not-reported', dict(), 'alteration %r: deletion reasons %r' % (what, reasons), alt_bytes, what)
        elif verdict == 'must-verify':
            if not delivered and rejected_in_decode:
                counts['rejected-in-decode'] = counts.get('rejected-in-decode', 0) + 1
            elif not delivered:
                viol('unaltered-coverage-rejected', dict(), 'alteration %r lies outside the declared scope, yet verification failed (reasons %r)' % (what, reasons), alt_bytes, what)
            else:
                pay = [bytes.fromhex(b[2]) for b in delivered[0]['blocks'] if b[0] == 1]
                if pay != [B.payload(alt)]:
                    viol('delivered-payload-differs', dict(), repr(pay), alt_bytes, what)
        return verdict

    # unmodified bundle, all key situations
    judge(data, 'none', right)
    for keymode in ('wrong-kw' if kind == 'mac-kw' else 'wrong', 'none'):
        if not with_ca:
            judge(data, 'none', keymode)
    if with_ca:
        # no trust anchor configured: the chain cannot be validated
        (world, delivered, reasons) = verify(data, 'none', False)
        if delivered:
            viol('signature-accepted-without-trust-anchor', dict(), 'delivered', data, 'none')
    # every single-bit flip
    (part, parts) = (params.get('part', 0), params.get('parts', 1))
    nbits = len(data) * 8
    for bit in range(nbits):
        if bit % parts != part:
            continue
        alt = flip(data, bit)
        verdict = judge(alt, 'bit %d' % bit, right)
        if verdict in ('must-fail', 'must-verify'):
            keys.add('%s:%d:%s' % (name.split('#')[0], bit, verdict))
            if len(samples) < 2 and bit % 499 == 7:
                samples.append(dict(source=kind, bit=bit, verdict=verdict))
    if part == 0:
        for (ename, ebytes) in field_edits(orig):
            verdict = judge(ebytes, ename, right)
            keys.add('%s:%s:%s' % (name.split('#')[0], ename, verdict))
    kn, out_v = [], []
    for v in violations:
        ent = known.match(v) if known is not None else None
        (kn if ent else out_v).append(dict(v, entry=ent) if ent else v)
    return dict(name=name, evaluations=sum(counts.values()), nontrivial_keys=sorted(keys), violations=out_v, known=kn,
                samples=samples, verdicts=counts, report_keys=['verdicts'])


def run_wrong_cert(params, known):
    '''"Fails when the key is wrong", asymmetric case: the signature is valid, made by the
    holder of a certificate that does not bind the key to the security source (other NODE-ID,
    no NODE-ID at all, other issuer).  The receiver trusts only the first CA.'''
    from .. import env as _env
    _env.load_bp()
    set_pems(params['pems'])
    name = params['name']
    violations = []
    verdicts = {}
    keys = []
    for variant in (None,) + WRONG_CERTS:
        label = variant or 'right-certificate'
        try:
            data = source_protect('sign1-x5chain', [1], cert_variant=variant)
        except RuntimeError as err:
            verdicts['source-refuses-%s' % label] = 1
            continue
        (world, delivered, reasons) = verify(data, 'right', True)
        ok = bool(delivered) == (variant is None)
        verdicts[('accepted-' if delivered else 'rejected-') + label] = 1
        keys.append(label)
        if world.escaped:
            err = world.escaped[-1]
            v = Violation(params.get('prop', PROP), 'integrity', 'exception-escaped-idle-callback', dict(exc=err[0], cert=label), '%s: %s' % (err[0], err[2])).as_dict()
        elif not ok and variant is None:
            v = Violation(params.get('prop', PROP), 'integrity', 'unmodified-bundle-rejected', dict(cert=label), 'reasons %r, errors %r' % (reasons, world.api_errors[:1])).as_dict()
        elif not ok:
            v = Violation(params.get('prop', PROP), 'integrity', 'signature-by-unbound-key-verified', dict(cert=label),
                          'BIB with security source %s signed under a certificate "%s" was verified and the bundle delivered' % (SRC, label)).as_dict()
        else:
            continue
        v['case'] = dict(source='sign1-x5chain', protected=data.hex(), altered=data.hex(), alteration='certificate %s' % label,
                         keymode='right', with_ca=True)
        violations.append(v)
    kn, out_v = [], []
    for v in violations:
        ent = known.match(v) if known is not None else None
        (kn if ent else out_v).append(dict(v, entry=ent) if ent else v)
    return dict(name=name, evaluations=len(keys), nontrivial_keys=['wrong-cert:%s' % k for k in keys], violations=out_v, known=kn,
                samples=[], verdicts=verdicts, report_keys=['verdicts'])


def run_two_keys(params, known):
    '''One integrity block over two targets whose results are made with different keys (as two security
    associations of one source produce): verifies when the receiver holds both; a result that names
    one key but was made with the other, a result naming a key the receiver lacks, and an altered
    second target all fail - in both orders of the two results.'''
    from .. import env as _env
    _env.load_bp()
    prop = params.get('prop', PROP)
    violations = []
    kinds = set()
    keys = []
    KEY2 = bytes(range(200, 232))
    KID2 = b'second-key'
    plainb = plain_bundle()
    other = [b['num'] for b in plainb['blocks'] if b['type'] == 193][0]
    cases = [('two-keys', [(KEY, KID), (KEY2, KID2)], True, None, True), ('two-keys-swapped', [(KEY2, KID2), (KEY, KID)], True, None, True),
             ('second-result-names-a-key-it-was-not-made-with', [(KEY, KID), (KEY, KID2)], True, None, False),
             ('first-result-names-a-key-it-was-not-made-with', [(KEY2, KID), (KEY2, KID2)], True, None, False),
             ('second-key-unknown-to-the-receiver', [(KEY, KID), (KEY2, KID2)], False, None, False),
             ('second-target-altered', [(KEY, KID), (KEY2, KID2)], True, other, False),
             ('first-target-altered', [(KEY2, KID2), (KEY, KID)], True, 1, False)]
    for (name, per, have_second, alter, ok) in cases:
        keys.append(name)
        bundle = A.add_bib(plainb, [1, other], KEY, KID, SRC, scope={0: 1, -1: 1}, num=4, per_target=per)
        if alter is not None:
            for blk in bundle['blocks']:
                if blk['num'] == alter:
                    blk['data'] = bytes(blk['data'][:-1]) + bytes([blk['data'][-1] ^ 1])
        data = B.encode(bundle)
        world = verifier('right')
        if have_second:
            k2 = sym_key(KEY2, ['MacCreateOp', 'MacVerifyOp'], 'HMAC256')
            k2.kid = KID2
            world.cose().sym_key_store[KID2] = k2
        world.receive(data)
        world.quiesce()
        delivered = bool(world.probe.seen)
        found = None
        if world.escaped:
            found = ('exception-escaped-idle-callback', '%s: %s' % (world.escaped[-1][0], world.escaped[-1][2]))
        elif ok and not delivered:
            found = ('unmodified-bundle-rejected', 'case %s: errors %r' % (name, world.api_errors[:1]))
        elif not ok and delivered:
            found = ('altered-bundle-verified', 'case %s: delivered' % name)
        if found and found[0] not in kinds:
            kinds.add(found[0])
            v = Violation(prop, 'integrity', found[0], dict(case=name), found[1]).as_dict()
            v['case'] = dict(source='oracle-two-keys', protected=data.hex(), altered=data.hex(), alteration=name, keymode='right', with_ca=False)
            violations.append(v)
    return dict(name=params['name'], evaluations=len(keys), nontrivial_keys=['two-keys:%s' % k for k in keys], violations=violations, known=[],
                samples=[], verdicts={}, report_keys=['verdicts'])


def run_secured_fragments(params, known):
    from .c06 import run_secured_fragments as run
    res = run(params, known)
    res.update(verdicts={}, report_keys=['verdicts'])
    return res


def run_admin_record_source(params, known):
    """The protected bundle carries an administrative record that an application attached as parsed content, leaving the
    "payload is an administrative record" flag to the encoding layer (flags given as 0, or only report requests): what is
    signed is what is sent - the unmodified bundle verifies at the receiver and the record is handed over."""
    from .. import env as _env
    _env.load_bp()
    from bp.encoding import Bundle
    from bp.util import BundleContainer
    from bp.app.bpsec import SecAssociation, SecOperation
    from .c02 import admin_payload
    violations = []
    kinds = set()
    keys = []
    count = 0
    for (given_flags, crc) in ((0, 0), (0, 1), (B.FLAG_REQ_DELETION, 1), (B.FLAG_ADMIN, 1)):
        count += 1
        case = dict(flags_given_by_the_application=hex(given_flags), crc_type=crc)
        pri = dict(flags=B.FLAG_ADMIN | given_flags, crc_type=crc, dest='dtn://node/app', src=SRC + 'app', report_to='dtn://rpt/', ts=(760000000000, 40 + count),
                   lifetime=86400000)
        wire = B.encode(dict(primary=pri, blocks=[dict(type=1, num=1, flags=0, crc_type=crc, data=admin_payload(1))]))
        world = BpWorld(dict(node_id=SRC, tx_routes=[('.*', 'dtn://next/', None)]))
        cose = world.cose()
        cose.sym_key_store[KID] = sym_key(KEY, ['MacCreateOp', 'MacVerifyOp'], 'HMAC256')
        cose.sec_assoc.append(SecAssociation(src_pat=re.compile(re.escape(SRC) + '.*'), dst_pat=re.compile('.*'), tgt_blk_types=[1],
                                             templates=[SecOperation(sec_type='bib', role='source', priv_key_id=KID)]))
        obj = Bundle(wire)                      # the record is now parsed content of the payload block
        obj.primary.bundle_flags = given_flags  # ... and the flags are what the application said
        world.send(BundleContainer(obj))
        world.quiesce()
        sent = [o for o in world.sent()]
        keys.append('admin-record-source:%x/%d' % (given_flags, crc))
        found = None
        if len(sent) != 1 or world.api_errors or world.escaped:
            found = ('source-cannot-apply-integrity-block', repr((len(sent), world.api_errors[:1], world.escaped[:1])))
        else:
            dec = B.decode(sent[0])
            if not dec['primary']['flags'] & B.FLAG_ADMIN:
                found = ('administrative-flag-missing-on-the-wire', hex(dec['primary']['flags']))
            elif not any(b['type'] == B.T_BIB for b in dec['blocks']):
                found = ('no-integrity-block-added', repr([b['type'] for b in dec['blocks']]))
            else:
                (w2, delivered, reasons) = verify(sent[0], 'right', False)
                if not delivered:
                    found = ('unmodified-bundle-rejected', 'reasons %r, errors %r' % (reasons, w2.api_errors[:1]))
        if found and found[0] not in kinds:
            kinds.add(found[0])
            v = Violation(PROP, 'integrity', found[0], dict(), '%r: %s' % (case, found[1])).as_dict()
            v['case'] = dict(source='mac0', protected='', altered='', alteration='administrative record source', keymode='right', with_ca=False, **case)
            violations.append(v)
    return dict(name=params['name'], evaluations=count, nontrivial_keys=keys, violations=violations, known=[], samples=[], verdicts={}, report_keys=['verdicts'])


def run_key_history(params, known):
    '''One long-lived receiver; before each of three receptions of bundles protected with COSE_Mac0 its key under
    the key identifier is the right one, another one, or absent (27 histories).  Each reception is judged on its
    own: delivered exactly when the right key is held at that moment, whatever was held and used before.'''
    import itertools
    from .. import env as _env
    _env.load_bp()
    global CREATION
    violations = []
    kinds = set()
    keys = []
    bundles = []
    try:
        for seq in (31, 32, 33):
            CREATION = (760000000000, seq)
            bundles.append(source_protect('mac0', [1]))
    finally:
        CREATION = (760000000000, 3)
    count = 0
    for hist in itertools.product(('right', 'wrong', 'absent'), repeat=3):
        count += 1
        case = dict(key_before_each_reception=list(hist))
        world = verifier('none')
        cose = world.cose()
        want = []
        for (k, state) in enumerate(hist):
            if state == 'absent':
                cose.sym_key_store.pop(KID, None)
            else:
                cose.sym_key_store[KID] = sym_key(KEY if state == 'right' else WRONG_KEY, ['MacCreateOp', 'MacVerifyOp'], 'HMAC256')
            if state == 'right':
                want.append(31 + k)
            world.receive(bundles[k])
            world.quiesce()
        keys.append('/'.join(hist))
        got = sorted(d['ts'][1] for d in world.probe.seen)
        found = None
        if world.escaped:
            found = ('exception-escaped-idle-callback', '%s: %s' % (world.escaped[-1][0], world.escaped[-1][2]))
        elif [s2 for s2 in got if s2 not in want]:
            found = ('verified-without-the-right-key', 'delivered %r, right key held for %r' % (got, want))
        elif got != want:
            found = ('unmodified-bundle-rejected', 'delivered %r, right key held for %r' % (got, want))
        if found and found[0] not in kinds:
            kinds.add(found[0])
            v = Violation(PROP, 'integrity', found[0], dict(), '%r: %s' % (case, found[1])).as_dict()
            v['case'] = dict(source='mac0', protected='', altered='', alteration='key history', keymode='history', with_ca=False, **case)
            violations.append(v)
    return dict(name=params['name'], evaluations=count, nontrivial_keys=['key-history:%s' % k for k in keys], violations=violations, known=[],
                samples=[], verdicts={}, report_keys=['verdicts'])


def run_cert_validity(params, known):
    '''The signer's certificate is judged at the time the bundle was created: two certificates bound to
    the security source, one valid until the end of April 2024 and one from the middle of May 2024 on, each
    signing a bundle created in January and one created in August 2024.  All four reach ONE long-lived
    receiver, in every order: exactly the two whose certificate was valid at their creation time are
    delivered - whatever the receiver verified before.'''
    import itertools
    from .. import env as _env
    _env.load_bp()
    set_pems(params['pems'])
    prop = params.get('prop', PROP)
    global CREATION
    violations = []
    kinds = set()
    keys = []
    jan = 760000000000
    aug = jan + 200 * 86400000
    bundles = {}
    try:
        for (cert, when, seq, ok) in (('valid-early', jan, 11, True), ('valid-early', aug, 12, False), ('valid-late', aug, 13, True), ('valid-late', jan, 14, False)):
            CREATION = (when, seq)
            bundles[(cert, 'jan' if when == jan else 'aug')] = (source_protect('sign1-x5chain', [1], cert_variant=cert), seq, ok)
        # a bundle of a source without a clock (creation time 0, age block) signed on its way by a forwarding
        # security source: there is no creation time to judge the certificate at, it is judged now - the
        # receiver's clock stands at the first days of 2024
        fwd = dict(node_id=SRC, rx_routes=[('.*', 'forward')], tx_routes=[('.*', 'dtn://next/', None)])
        for (cert, seq, ok) in (('valid-early', 15, True), ('valid-late', 16, False)):
            CREATION = (0, seq)
            world = _bp_world_with_config(fwd, sign=True, include_chain=True, cert_variant=cert)
            world.receive(B.encode(plain_bundle()))
            world.quiesce()
            sent = world.sent()
            if len(sent) != 1 or world.escaped or not any(b['type'] == B.T_BIB for b in B.decode(sent[0])['blocks']):
                raise RuntimeError('forwarding security source did not produce one protected bundle: %r %r' % (len(sent), world.escaped[:1]))
            bundles[(cert, 'no-clock')] = (sent[0], seq, ok)
    finally:
        CREATION = (760000000000, 3)
    count = 0
    groups = [sorted(n for n in bundles if n[1] != 'no-clock'),
              sorted(n for n in bundles if n[1] == 'no-clock') + [('valid-early', 'jan'), ('valid-late', 'aug')]]
    for order in [o for names in groups for o in itertools.permutations(names)]:
        count += 1
        world = verifier('right', True)
        case = dict(order=['%s/%s' % n for n in order])
        for name in order:
            world.receive(bundles[name][0])
            world.quiesce()
        got = sorted(d['ts'][1] for d in world.probe.seen)
        want = sorted(bundles[n][1] for n in order if bundles[n][2])
        keys.append('/'.join(case['order']))
        found = None
        if world.escaped:
            found = ('exception-escaped-idle-callback', '%s: %s' % (world.escaped[-1][0], world.escaped[-1][2]))
        elif got != want:
            extra = [s2 for s2 in got if s2 not in want]
            missing = [s2 for s2 in want if s2 not in got]
            found = ('signature-under-a-certificate-not-valid-at-creation-time-verified' if extra else 'unmodified-bundle-rejected',
                     'delivered bundles %r; valid at their creation time: %r' % (got, want))
        if found and found[0] not in kinds:
            kinds.add(found[0])
            v = Violation(prop, 'integrity', found[0], dict(), '%r: %s' % (case, found[1])).as_dict()
            v['case'] = dict(source='sign1-x5chain', protected='', altered='', alteration='certificate validity', keymode='right', with_ca=True, **case)
            violations.append(v)
    return dict(name=params['name'], evaluations=count, nontrivial_keys=['validity:%s' % k for k in keys], violations=violations, known=[],
                samples=[], verdicts={}, report_keys=['verdicts'])


def run_key_shapes(params, known):
    '''"Verifies with the right key", over the shapes a right key can have: signer certificates bound to
    the security source whose public point has a leading zero octet in x or in y, on P-256 / P-384 / P-521,
    P-521 points with and without the top bit of a coordinate.  The source signs with the real transmit
    chain (COSE_Sign1, x5chain); the unmodified bundle is delivered, one with an altered payload is not.'''
    from .. import env as _env
    _env.load_bp()
    set_pems(params['pems'])
    prop = params.get('prop', PROP)
    violations = []
    keys = []
    verdicts = {}
    for shape in KEY_SHAPES:
        keys.append(shape)
        case = dict(source='sign1-x5chain', alteration='none', keymode='right', with_ca=True, key_shape=shape)
        try:
            data = source_protect('sign1-x5chain', [1], cert_variant=shape)
        except Exception as err:
            # (also: the agent cannot even load a configuration that names this key)
            import traceback
            v = Violation(prop, 'integrity', 'source-cannot-apply-integrity-block', dict(key=shape),
                          'signer key %s: %s: %s\n%s' % (shape, type(err).__name__, str(err)[:600], traceback.format_exc()[-700:])).as_dict()
            v['case'] = dict(case, protected='', altered='')
            violations.append(v)
            continue
        (world, delivered, reasons) = verify(data, 'right', True)
        if world.escaped:
            v = Violation(prop, 'integrity', 'exception-escaped-idle-callback', dict(exc=world.escaped[-1][0], key=shape),
                          '%s: %s' % (world.escaped[-1][0], world.escaped[-1][2])).as_dict()
        elif not delivered:
            v = Violation(prop, 'integrity', 'unmodified-bundle-rejected', dict(key=shape), 'signer key %s: reasons %r, errors %r'
                          % (shape, reasons, world.api_errors[:1])).as_dict()
        else:
            v = None
        if v is not None:
            v['case'] = dict(case, protected=data.hex(), altered=data.hex())
            violations.append(v)
            continue
        verdicts['verified-' + shape] = 1
        # the same bundle with the last payload octet changed (block CRCs are none in this bundle)
        dec = B.decode(data)
        alt = dict(primary={k: v2 for (k, v2) in dec['primary'].items() if k not in ('span', 'crc', 'crc_ok')},
                   blocks=[{k: v2 for (k, v2) in b.items() if k not in ('span', 'crc', 'crc_ok')} for b in dec['blocks']])
        pay = alt['blocks'][-1]['data']
        alt['blocks'][-1]['data'] = pay[:-1] + bytes([pay[-1] ^ 1])
        altered = B.encode(alt)
        (world, delivered, reasons) = verify(altered, 'right', True)
        if delivered:
            v = Violation(prop, 'integrity', 'altered-bundle-verified', dict(key=shape), 'signer key %s: payload altered, still delivered' % shape).as_dict()
            v['case'] = dict(case, protected=data.hex(), altered=altered.hex(), alteration='payload-last-octet')
            violations.append(v)
    return dict(name=params['name'], evaluations=2 * len(keys), nontrivial_keys=['key-shape:%s' % k for k in keys], violations=violations, known=[],
                samples=[], verdicts=verdicts, report_keys=['verdicts'])


def scenarios(tier):
    out = []
    pems = make_pems()
    out.append(dict(name='mac0-two-keys', kind='enum', runner='run_two_keys', params=dict(name='mac0-two-keys'), weight=1))
    out.append(dict(name='mac0-key-history', kind='enum', runner='run_key_history', params=dict(name='mac0-key-history'), weight=1))
    out.append(dict(name='administrative-record-source', kind='enum', runner='run_admin_record_source', params=dict(name='administrative-record-source'), weight=1))
    # the secured bundle is cut into fragments on its way: put together first, verified then (all arrival orders)
    out.append(dict(name='secured-then-fragmented', kind='enum', runner='run_secured_fragments', params=dict(name='secured-then-fragmented', prop=PROP), weight=2))
    out.append(dict(name='sign1-certificate-validity', kind='enum', runner='run_cert_validity', params=dict(name='sign1-certificate-validity', pems=pems), weight=2))
    out.append(dict(name='sign1-key-shapes', kind='enum', runner='run_key_shapes', params=dict(name='sign1-key-shapes', pems=pems), weight=2))
    out.append(dict(name='sign1-wrong-certificate', kind='enum', runner='run_wrong_cert',
                    params=dict(name='sign1-wrong-certificate', pems=pems), weight=1))

    def add(name, kind, targets=(1,), parts=1, variant='base'):
        for part in range(parts):
            nm = '%s#%d/%d' % (name, part + 1, parts)
            prm = dict(name=nm, kind=kind, targets=list(targets), part=part, parts=parts, variant=variant)
            if kind.startswith('sign1'):
                prm['pems'] = pems
            out.append(dict(name=nm, kind='enum', runner='run_source', params=prm, weight=10))
    add('mac0', 'mac0', parts=2)
    add('mac0+age', 'mac0', targets=(1, 7), parts=2)
    add('mac0/age-association-first', 'mac0', targets=(7, 1), parts=2)
    add('mac-kw', 'mac-kw', parts=2)
    add('sign1-x5t', 'sign1-x5t', parts=3)
    add('sign1-x5chain', 'sign1-x5chain', parts=6 if tier == 'thorough' else 4)
    for scope in ('default', 'with-secblk', 'other-metadata', 'other-btsd', 'target-btsd-only', 'omitted-param', 'ipn3-endpoints'):
        add('oracle-%s' % scope, 'oracle:%s' % scope)
    if tier == 'thorough':
        # the same alteration sets over other bundle shapes
        for variant in VARIANTS[1:]:
            big = 6 if variant == 'long-payload' else 2
            add('mac0/%s' % variant, 'mac0', parts=big, variant=variant)
            add('mac0+age/%s' % variant, 'mac0', targets=(1, 7), parts=big, variant=variant)
            add('sign1-x5chain/%s' % variant, 'sign1-x5chain', parts=2 * big, variant=variant)
            for scope in ('default', 'other-btsd', 'target-btsd-only'):
                add('oracle-%s/%s' % (scope, variant), 'oracle:%s' % scope, parts=big // 2, variant=variant)
    return out


ASSUMPTIONS = [
    'trusted base: pycose and cryptography primitives; certificate path validation by the harness stand-in for certvalidator',
    'the covered tuple (external AAD, target data, protected bucket, tag/signature, result type, context id) is computed by vmc/oracle/cose_aad.py from the independently decoded bundle',
    'one integrity block with two results made under two different keys, seven cases (valid in both orders, mislabelled results, unknown key, either target altered)',
    'certificate validity: two certificates valid before / after the middle of 2024, bundles created in January and August 2024, the four combinations in all 24 orders at one receiver',
    'right key, asymmetric case: signer keys on P-256 / P-384 / P-521 whose public point has a leading zero octet in x or y, or (P-521) the top bit of a coordinate set or clear; all keys of the check are derived from fixed scalars',
    'wrong key, asymmetric case: valid signatures under four certificates that do not bind the key to the security source (other NODE-ID, no SAN, DNS SAN only, issuer not trusted)',
    'alterations inside the security block that leave the covered tuple unchanged (unprotected headers, structure) may go either way; removing the integrity block altogether is not detectable without policy and is not judged',
    'bundles without block CRCs so that alterations reach the security layer (CRC behaviour is C08)',
    'thorough tier: the same alteration sets over four more bundle shapes (empty / 300-octet payload, no report requests, other block order and numbers)',
]

RULE = ('every single-bit flip of each protected bundle plus 19 field-level edits, for six kinds of integrity block '
        '(three produced by the real transmit chain, oracle-produced AAD scopes), each fed to a fresh verifier agent; '
        'non-trivial = the independent model gives a definite verdict (must-fail / must-verify); distinct by (source, alteration)')


def evidence(tier, seed, scens, results, wall_s):
    ev = enum_evidence(PROP, 'fault_enumeration', tier, seed, scens, results, wall_s, ASSUMPTIONS, RULE)
    tot = {}
    for r in results:
        if r and r.get('kind') == 'enum':
            for (k, v) in r.get('verdicts', {}).items():
                tot[k] = tot.get(k, 0) + v
    ev['coverage']['oracle_verdicts'] = tot
    return ev


def replay_case(body, verbose=False):
    case = body['case']
    if case.get('alteration') == 'administrative record source':
        res = run_admin_record_source(dict(name='administrative-record-source'), None)
        for v in res['violations']:
            print('%s: %s' % (v['kind'], v['detail'][:400]))
        return 1 if res['violations'] else 0
    if case.get('alteration') == 'key history':
        res = run_key_history(dict(name='mac0-key-history'), None)
        for v in res['violations']:
            print('%s: %s' % (v['kind'], v['detail'][:400]))
        print('%d histories, %d kinds of violation' % (res['evaluations'], len(res['violations'])))
        return 1 if res['violations'] else 0
    if case.get('alteration') == 'certificate validity':
        # keys and certificates are derived from fixed values: the scenario itself is run again
        res = run_cert_validity(dict(name='sign1-certificate-validity', pems=make_pems()), None)
        for v in res['violations']:
            print('%s: %s' % (v['kind'], v['detail'][:400]))
        print('%d orders, %d kinds of violation' % (res['evaluations'], len(res['violations'])))
        return 1 if res['violations'] else 0
    data = bytes.fromhex(case['protected'])
    alt = bytes.fromhex(case['altered'])
    orig = B.decode(data)
    (verdict, _a) = classify(orig, alt) if alt != data else ('must-verify', None)
    print('alteration %r: independent verdict %s' % (case['alteration'], verdict))
    if case.get('with_ca'):
        print('(certificate files of the original run are not kept; verdict of the agent not re-evaluated)')
        return 1
    (world, delivered, reasons) = verify(alt, case['keymode'], False)
    print('agent: delivered=%d deletion reasons=%r errors=%r' % (len(delivered), reasons, [e[:2] for e in world.api_errors]))
    return 1
