'''C11 - forwarding preserves the bundle and updates only the hop-by-hop blocks.

Bounded-exhaustive enumeration of received bundles (every multiset of 0-2
previous-node, 0-2 hop-count, 0-1 age and 0-1 unknown blocks x CRC types x
block numbering x creation time zero/non-zero x route with/without MTU x time
held, and a sweep of primary-block field values); each
is handed to a real agent whose route says "forward"; the octets that reach the
convergence layer are decoded by the independent RFC 9171 decoder.'''
import itertools

from ..bp_world import BpWorld
from ..world import Violation
from ..oracle import bpv7 as B
from ..oracle import cbor_min as C
from ..evidence import enum_evidence

PROP = 'C11'

NODE = 'dtn://node/'


def cases():
    prevs = [[], ['dtn://prev/'], ['dtn://prev/', 'ipn:4.0']]
    hops = [[], [(30, 2)], [(30, 2), (255, 23)]]
    ages = [None, 5000]
    unks = [None, b'\x01\x02']
    for (pv, hp, age, unk, crc, numbering, ts0, mtu, hold) in itertools.product(
            prevs, hops, ages, unks, (0, 1, 2), ('dense', 'gaps', 'scrambled'), (False, True), (None, 4000), (0, 250)):
        if ts0 and age is None:
            # a bundle without a clock must carry an age block (RFC 9171 4.4.2)
            age_val = 5000
        else:
            age_val = age
        ext = []
        for eid in pv:
            ext.append(dict(type=B.T_PREV_NODE, flags=0, crc_type=crc, data=B.enc_prev_node(eid)))
        for (limit, count) in hp:
            ext.append(dict(type=B.T_HOP_COUNT, flags=0, crc_type=crc, data=B.enc_hop_count(limit, count)))
        if age_val is not None:
            ext.append(dict(type=B.T_AGE, flags=0, crc_type=0, data=B.enc_age(age_val)))
        if unk is not None:
            ext.append(dict(type=199, flags=1, crc_type=crc, data=unk))
        if numbering == 'dense':
            nums = list(range(2, 2 + len(ext)))
        elif numbering == 'gaps':
            nums = [3 + 4 * i for i in range(len(ext))]
        else:
            nums = list(reversed(range(2, 2 + len(ext))))
        for (blk, num) in zip(ext, nums):
            blk['num'] = num
        pri = dict(flags=B.FLAG_REQ_FORWARD, crc_type=crc, dest='dtn://far/app', src='dtn://src/', report_to='dtn://rpt/',
                   ts=((0, 3) if ts0 else (700000000000, 3)), lifetime=86400000)
        bundle = dict(primary=pri, blocks=ext + [dict(type=1, num=1, flags=0, crc_type=crc, data=b'forward-me')])
        yield (dict(prev=len(pv), hop=len(hp), age=age_val, unk=unk is not None, crc=crc, numbering=numbering, ts0=ts0, mtu=mtu,
                    hold=hold), bundle)
    yield from primary_cases()


UINTS = [0, 1, 23, 24, 255, 256, 65535, 65536, 2 ** 32 - 1, 2 ** 32, 2 ** 64 - 1]
FLAG_BITS = [0x4, 0x20, 0x40, 0x4000, 0x10000, 0x20000, 0x40000]
RESERVED_BITS = [0x8, 0x10, 0x80, 0x100, 0x200, 0x400, 0x800, 0x1000, 0x2000, 0x8000, 0x80000, 0x100000, 0x200000, 1 << 40]


def primary_cases():
    '''Primary-block field values of the received bundle (boundary values of lifetime, every
    subset of the non-structural flags with and without fragment fields, endpoint ID forms,
    sequence numbers) on a fixed extension-block layout.'''
    def mk(label, **over):
        pri = dict(flags=0, crc_type=1, dest='dtn://far/app', src='dtn://src/', report_to='dtn://rpt/', ts=(700000000000, 3),
                   lifetime=86400000)
        pri.update(over)
        ext = [dict(type=B.T_PREV_NODE, num=2, flags=0, crc_type=1, data=B.enc_prev_node('dtn://prev/')),
               dict(type=B.T_HOP_COUNT, num=3, flags=0, crc_type=1, data=B.enc_hop_count(30, 2))]
        bundle = dict(primary=pri, blocks=ext + [dict(type=1, num=1, flags=0, crc_type=1, data=b'forward-me')])
        lab = dict(prev=1, hop=1, age=None, unk=False, crc=1, numbering='dense', ts0=False, mtu=None, hold=0)
        lab.update(label)
        return (lab, bundle)
    for (life, dest, src, rpt, seq) in itertools.product(UINTS, ('dtn://far/app', 'ipn:5.6', 'dtn://far/a?b#c', 'ipn:977000.3.7', 'dtn://FarNode/App'),
                                                         ('dtn://src/', 'ipn:7.1', 'ipn:977000.5.1'),
                                                         ('dtn://rpt/', 'dtn:none', 'ipn:8.0'), (0, 2 ** 32)):
        yield mk(dict(primary='life=%d dest=%s src=%s rpt=%s seq=%d' % (life, dest, src, rpt, seq)),
                 lifetime=life, dest=dest, src=src, report_to=rpt, ts=(700000000000, seq))
    # a received fragment larger than the MTU of the route: fragments are not cut again, the bundle
    # leaves with its offset and total length
    for (off, total, n) in ((0, 5000, 400), (1000, 5000, 400), (4600, 5000, 400)):
        (lab, b) = mk(dict(primary='fragment [%d,%d) of %d on an MTU-250 route' % (off, off + n, total), mtu=250),
                      flags=B.FLAG_IS_FRAGMENT, frag_offset=off, total_adu=total)
        b['blocks'][-1]['data'] = bytes((i * 11 + 5) & 0xFF for i in range(n))
        yield (lab, b)
    for mask in range(1 << len(FLAG_BITS)):
        flags = sum(bit for (i, bit) in enumerate(FLAG_BITS) if mask >> i & 1)
        yield mk(dict(primary='flags=%#x' % flags), flags=flags)
        if not flags & 0x4:
            yield mk(dict(primary='flags=%#x fragment' % (flags | B.FLAG_IS_FRAGMENT)), flags=flags | B.FLAG_IS_FRAGMENT,
                     frag_offset=10, total_adu=100)


    # reserved / unassigned bits of the bundle processing control flags and of the block processing control
    # flags of a block the node does not know: a forwarder passes them on as they came
    for rbit in RESERVED_BITS:
        for base in (0, 0x4, 0x40000 | 0x20):
            yield mk(dict(primary='flags=%#x (reserved bit)' % (base | rbit)), flags=base | rbit)
    yield mk(dict(primary='flags=%#x (all reserved bits)' % sum(RESERVED_BITS)), flags=sum(RESERVED_BITS))
    # a received canonical block numbered 0 (the primary block's number): whatever is forwarded has unique numbers >= 1
    for typ in (199, B.T_HOP_COUNT):
        (lab, b) = mk(dict(primary='extension block of type %d numbered 0' % typ, unk=(typ == 199), not_rfc9171=True))
        if typ == 199:
            b['blocks'].insert(0, dict(type=199, num=0, flags=0, crc_type=1, data=b'\x01\x02'))
        else:
            for blk in b['blocks']:
                if blk['type'] == B.T_HOP_COUNT:
                    blk['num'] = 0
        yield (lab, b)
    # an administrative record in transit (status report of another node, status times 0 = no clock there,
    # and real times): the payload octets are not ours to rewrite
    for (times, frag) in (((0, 0, None, None), None), ((700000000123, None, None, 0), None), ((0, None, None, None), (0, 50))):
        status = [(t is not None, t) for t in times]
        (lab, b) = mk(dict(primary='status report in transit, times %r fragment %r' % (times, frag)), flags=B.FLAG_ADMIN, report_to='dtn:none',
                      src='dtn://other/')
        b['blocks'][-1]['data'] = B.enc_status_report(status, 0, 'dtn://elsewhere/app', (0, 9) if times[0] == 0 else (700000000001, 3), frag=frag)
        yield (lab, b)
    # an administrative record in transit whose sender asked for reports (the repository's own ACME request does:
    # flags 0x40022): the primary block is not the forwarder's to rewrite
    for extra in (0x40000, 0x40020, 0x74000):
        (lab, b) = mk(dict(primary='administrative record in transit with report-request flags %#x' % extra), flags=B.FLAG_ADMIN | extra,
                      report_to='dtn:none', src='dtn://other/')
        b['blocks'][-1]['data'] = C.dumps([7, [1, 'token']])
        yield (lab, b)
    # administrative records of types this node has no class for, in transit, with "empty" and ordinary contents
    for content in ([], 0, '', False, {}, None, b'', [1, [2]], {4: 1, 1: 2}, 'text'):
        (lab, b) = mk(dict(primary='administrative record [7, %r] in transit' % (content,)), flags=B.FLAG_ADMIN, report_to='dtn:none', src='dtn://other/')
        b['blocks'][-1]['data'] = C.dumps([7, content])
        yield (lab, b)
    # flagged as an administrative record but carrying no record (empty payload / not CBOR / a bare integer):
    # still a payload the forwarder has no business rewriting
    for (pname, pdata) in (('empty', b''), ('not-cbor', b'\xff\xfe'), ('bare-integer', b'\x05'), ('array-of-one', b'\x81\x01')):
        (lab, b) = mk(dict(primary='administrative flag with payload %s' % pname), flags=B.FLAG_ADMIN, report_to='dtn:none', src='dtn://other/')
        b['blocks'][-1]['data'] = pdata
        yield (lab, b)
    # hop-by-hop blocks whose content this node cannot interpret (an endpoint-ID scheme it does not know, data that is
    # not what the block type defines): there is still exactly one previous-node block afterwards, naming this node
    for (pname, pdata) in (('unknown-scheme', C.dumps([7, 'abc'])), ('not-an-eid', C.dumps(5)), ('not-cbor', b'\xff')):
        (lab, b) = mk(dict(primary='previous-node block with %s' % pname, prev=1))
        for blk in b['blocks']:
            if blk['type'] == B.T_PREV_NODE:
                blk['data'] = pdata
        yield (lab, b)
    # hop-by-hop blocks written in valid CBOR that is not the shortest form (longer integer heads, an
    # indefinite-length array, a longer text head): they are what they are and are handled as such
    for (pname, typ, pdata) in (('hop-count-long-heads', B.T_HOP_COUNT, b'\x82\x18\x1e\x18\x02'), ('hop-count-indefinite-array', B.T_HOP_COUNT, b'\x9f\x18\x1e\x02\xff'),
                                ('hop-count-two-octet-heads', B.T_HOP_COUNT, b'\x82\x19\x00\x1e\x19\x00\x02'),
                                ('previous-node-long-text-head', B.T_PREV_NODE, b'\x82\x01\x78\x07//prev/'), ('previous-node-indefinite-array', B.T_PREV_NODE, b'\x9f\x01\x67//prev/\xff')):
        (lab, b) = mk(dict(primary='%s' % pname))
        for blk in b['blocks']:
            if blk['type'] == typ:
                blk['data'] = pdata
        yield (lab, b)
    # block numbers at the top of the 64-bit range on blocks that survive forwarding: the blocks the node adds get
    # numbers that are free AND representable
    for top in (2 ** 64 - 1, 2 ** 64 - 2):
        (lab, b) = mk(dict(primary='unknown block numbered %d' % top, unk=True))
        b['blocks'].insert(0, dict(type=199, num=top, flags=0, crc_type=1, data=b'\x01\x02'))
        yield (lab, b)
        (lab, b) = mk(dict(primary='hop-count block numbered %d' % top))
        for blk in b['blocks']:
            if blk['type'] == B.T_HOP_COUNT:
                blk['num'] = top
        yield (lab, b)
    for bflags in (0x80, 0x81, 0x28, 0x1000001):
        (lab, b) = mk(dict(primary='unknown block with block flags %#x' % bflags, unk=True))
        b['blocks'].insert(0, dict(type=199, num=5, flags=bflags, crc_type=1, data=b'\x01\x02'))
        yield (lab, b)
    # a hop-count block that carries block processing flags (replicate in every fragment, report / delete if it
    # cannot be processed) and each CRC type: only its count changes on the way through
    for (bflags, crc) in itertools.product((0x01, 0x02, 0x04, 0x10, 0x15), (0, 1, 2)):
        (lab, b) = mk(dict(primary='hop-count block with block flags %#x, crc type %d' % (bflags, crc)))
        for blk in b['blocks']:
            if blk['type'] == B.T_HOP_COUNT:
                blk['flags'] = bflags
                blk['crc_type'] = crc
        yield (lab, b)


def check_case(label, bundle, mtu, world=None):
    if world is None:
        world = BpWorld(dict(node_id=NODE, tx_routes=[('.*', 'dtn://next/', mtu)]))
    before = len(world.sent())
    now_ms = world.clock.now_us // 1000 + 1704067200000 - 946684800000  # DTN time of the virtual clock
    data = B.encode(bundle)
    world.receive(data)
    # time the bundle is held between reception and the idle callback that forwards it
    hold = label.get('hold', 0)
    world.clock.now_us += hold * 1000
    now_ms += hold
    world.quiesce()
    out = []

    def bad(kind, sig, detail):
        v = Violation(PROP, 'forward', kind, sig, '%r: %s' % (label, detail)).as_dict()
        v['case'] = dict(label=label, received=data.hex(), mtu=mtu, sent=[d.hex() for d in world.sent()[before:]],
                         history=getattr(world, 'c11_history', []))
        out.append(v)
    if label.get('not_rfc9171') and world.api_errors and not world.escaped and len(world.sent()) == before:
        return out      # refused while being read in: nothing of it left the node
    if world.escaped or world.api_errors:
        err = (world.escaped or world.api_errors)[-1]
        bad('exception-while-forwarding', dict(exc=err[0]), '%s: %s' % (err[0], err[2] if world.escaped else err[1]))
        return out
    fwd = []
    reports = []
    for octets in world.sent()[before:]:
        try:
            dec = B.decode(octets)
        except B.Malformed as err:
            bad('forwarded-octets-not-rfc9171', dict(), '%s: %s' % (err, octets.hex()))
            return out
        if dec['primary']['flags'] & B.FLAG_ADMIN and dec['primary']['src'] == NODE:
            reports.append(dec)
        else:
            fwd.append(dec)
    if not fwd and label.get('not_rfc9171'):
        # the received octets break a rule of RFC 9171 themselves (block number 0): refusing them is fine,
        # forwarding them with the broken numbering is not (judged below when something was forwarded)
        return out
    if len(fwd) != 1:
        bad('not-forwarded-exactly-once', dict(count=len(fwd)), 'convergence layer got %d data bundles' % len(fwd))
        return out
    got = fwd[0]
    want_pri = B.strip(bundle)['primary']
    got_pri = B.strip(got)['primary']
    for fld in ('version', 'flags', 'dest', 'src', 'report_to', 'ts', 'lifetime', 'frag_offset', 'total_adu'):
        if got_pri.get(fld, 7) != want_pri.get(fld, 7):
            bad('primary-field-changed', dict(field=fld), '%s: received %r, forwarded %r' % (fld, want_pri.get(fld), got_pri.get(fld)))
    if B.payload(got) != B.payload(bundle):
        bad('payload-changed', dict(), '%r -> %r' % (B.payload(bundle), B.payload(got)))
    if not got['primary']['crc_ok'] or not all(b['crc_ok'] for b in got['blocks']):
        bad('crc-invalid-on-output', dict(), repr([(b['num'], b['crc_ok']) for b in got['blocks']]))
    prevs = [b for b in got['blocks'] if b['type'] == B.T_PREV_NODE]
    if len(prevs) != 1:
        bad('previous-node-block-count', dict(count=len(prevs)), 'forwarded bundle carries %d previous-node blocks' % len(prevs))
    else:
        try:
            if B.dec_prev_node(prevs[0]['data']) != NODE:
                bad('previous-node-wrong', dict(), repr(B.dec_prev_node(prevs[0]['data'])))
        except Exception as err:
            bad('previous-node-undecodable', dict(), str(err))
    want_hops = sorted((lim, cnt + 1) for (lim, cnt) in
                       [B.dec_hop_count(b['data']) for b in bundle['blocks'] if b['type'] == B.T_HOP_COUNT])
    try:
        got_hops = sorted(B.dec_hop_count(b['data']) for b in got['blocks'] if b['type'] == B.T_HOP_COUNT)
    except Exception as err:
        got_hops = 'undecodable: %s' % err
    if got_hops != want_hops:
        bad('hop-count-not-incremented-on-the-wire', dict(), 'received %r, transmitted %r, expected %r'
            % ([B.dec_hop_count(b['data']) for b in bundle['blocks'] if b['type'] == B.T_HOP_COUNT], got_hops, want_hops))
    # ... and only the count: number, block processing flags and CRC type of a hop-count block stay as received
    want_meta = sorted((b['num'], b['flags'], b['crc_type']) for b in bundle['blocks'] if b['type'] == B.T_HOP_COUNT)
    got_meta = sorted((b['num'], b['flags'], b['crc_type']) for b in got['blocks'] if b['type'] == B.T_HOP_COUNT)
    if got_meta != want_meta and not label.get('not_rfc9171'):
        bad('hop-count-block-number-flags-or-crc-type-changed', dict(), 'received (number, flags, crc type) %r, transmitted %r' % (want_meta, got_meta))
    ages = [b for b in got['blocks'] if b['type'] == B.T_AGE]
    if len(ages) > 1:
        bad('more-than-one-age-block', dict(), str(len(ages)))
    if bundle['primary']['ts'][0] != 0:
        # age reflects time since creation
        if len(ages) == 1:
            age = B.dec_age(ages[0]['data'])
            want_age = now_ms - bundle['primary']['ts'][0]
            if abs(age - want_age) > 1:
                bad('age-does-not-reflect-time-since-creation', dict(), 'age %d ms, creation was %d ms ago' % (age, want_age))
    else:
        rx_age = [B.dec_age(b['data']) for b in bundle['blocks'] if b['type'] == B.T_AGE]
        if len(ages) != 1:
            bad('age-block-lost-for-clockless-source', dict(), 'received age %r, forwarded bundle has %d age blocks' % (rx_age, len(ages)))
        elif rx_age and abs(B.dec_age(ages[0]['data']) - (rx_age[0] + hold)) > 1:
            bad('age-does-not-add-time-held', dict(), 'received age %r, held %d ms, transmitted age %r' % (rx_age, hold, B.dec_age(ages[0]['data'])))
    # unknown blocks survive untouched
    for blk in bundle['blocks']:
        if blk['type'] == 199:
            same = [b for b in got['blocks'] if b['type'] == 199 and b['data'] == blk['data'] and b['flags'] == blk['flags']]
            if len(same) != 1:
                bad('unknown-block-not-preserved', dict(), repr(B.strip(got)['blocks']))
    for rep in reports:
        if not rep['primary']['crc_ok'] or not all(b['crc_ok'] for b in rep['blocks']):
            bad('crc-invalid-on-output', dict(), 'status report')
    return out


def run_chunk(params, known):
    (part, parts) = (params['part'], params['parts'])
    violations = []
    kinds = set()
    keys = set()
    count = 0
    samples = []
    for (idx, (label, bundle)) in enumerate(cases()):
        if idx % parts != part:
            continue
        count += 1
        found = check_case(label, bundle, label['mtu'])
        for v in found:
            key = (v['kind'], tuple(sorted(v['signature'].items())))
            if key not in kinds:
                kinds.add(key)
                violations.append(v)
        if label['prev'] or label['hop'] or label['age'] or label['unk'] or label.get('primary'):
            keys.add(repr(sorted(label.items())))
        if not samples:
            samples.append(dict(label=label, received=B.encode(bundle).hex()))
    kn, out_v = [], []
    for v in violations:
        ent = known.match(v) if known is not None else None
        (kn if ent else out_v).append(dict(v, entry=ent) if ent else v)
    return dict(name=params['name'], evaluations=count, nontrivial_keys=sorted(keys), violations=out_v, known=kn, samples=samples)


def history_menu():
    out = []
    for (label, bundle) in cases():
        if label['mtu'] is None and not label.get('primary') and label['hold'] == 0 and label['crc'] in (0, 2) and label['numbering'] in ('dense', 'gaps') \
                and (label['prev'], label['hop']) in ((0, 0), (1, 1), (2, 2)) and label['unk'] == (label['prev'] == 1):
            out.append((label, bundle))
    return out


def run_history(params, known):
    '''Two bundles forwarded one after the other by the same agent (state a
    first bundle leaves behind must not change how the second is forwarded).'''
    menu = history_menu()
    violations = []
    kinds = set()
    count = 0
    keys = set()
    (part, parts) = (params['part'], params['parts'])
    for (idx, (i, j)) in enumerate([(i, j) for i in range(len(menu)) for j in range(len(menu))]):
        if idx % parts != part:
            continue
        count += 1
        world = BpWorld(dict(node_id=NODE, tx_routes=[('.*', 'dtn://next/', None)]))
        world.c11_history = []
        for (pos, k) in enumerate((i, j)):
            (label, bundle) = menu[k]
            bundle = dict(primary=dict(bundle['primary'], ts=(bundle['primary']['ts'][0], 10 + pos)), blocks=bundle['blocks'])
            found = check_case(dict(label, position=pos), bundle, None, world=world)
            world.c11_history.append(B.encode(bundle).hex())
            for v in found:
                key = (v['kind'], tuple(sorted(v['signature'].items())))
                if key not in kinds:
                    kinds.add(key)
                    violations.append(v)
        if (i + j) % 3 == 0:
            # the node's clock is set back by 30 s, then a third bundle is forwarded: its age is
            # what the clock says now, not what an earlier reading said
            world.clock.now_us -= 30 * 10 ** 6
            (label, bundle) = menu[i]
            bundle = dict(primary=dict(bundle['primary'], ts=(bundle['primary']['ts'][0], 12)), blocks=bundle['blocks'])
            found = check_case(dict(label, position=2, clock_set_back=True), bundle, None, world=world)
            for v in found:
                key = (v['kind'], tuple(sorted(v['signature'].items())))
                if key not in kinds:
                    kinds.add(key)
                    violations.append(v)
        keys.add('%d,%d' % (i, j))
    return dict(name=params['name'], evaluations=count, nontrivial_keys=['hist ' + k for k in sorted(keys)],
                violations=violations, known=[], samples=[dict(pairs_over_menu_of=len(menu))])


def scenarios(tier):
    parts = 16
    hist = [dict(name='history-%d/4' % (p + 1), kind='enum', runner='run_history',
                 params=dict(name='history-%d/4' % (p + 1), part=p, parts=4), weight=2) for p in range(4)]
    return hist + [dict(name='forward-%d/%d' % (p + 1, parts), kind='enum', runner='run_chunk',
                 params=dict(name='forward-%d/%d' % (p + 1, parts), part=p, parts=parts), weight=1) for p in range(parts)]


ASSUMPTIONS = [
    'received bundles carry 0-2 previous-node, 0-2 hop-count, 0-1 age and 0-1 unknown extension blocks',
    'in a third of the two-bundle histories the clock is then set back by 30 s and a third bundle forwarded',
    'the bundle is held 0 or 250 ms (virtual clock) between reception and the idle callback that forwards it; age tolerance 1 ms',
    'primary-block sweep on a fixed block layout: lifetime at every CBOR head-width boundary x three destination / two source / three report-to forms x two sequence numbers; every subset of seven non-structural flags, with and without fragment fields',
    'a bundle whose creation time is zero carries an age block (RFC 9171 4.4.2)',
]

RULE = ('finite product of extension-block multisets x CRC types x numbering schemes x clock/no-clock x MTU enumerated '
        'completely; the transmitted octets of every case are decoded independently; non-trivial = at least one '
        'hop-by-hop or unknown block present')


def evidence(tier, seed, scens, results, wall_s):
    return enum_evidence(PROP, 'exploration', tier, seed, scens, results, wall_s, ASSUMPTIONS, RULE)


def replay_case(body, verbose=False):
    case = body['case']
    bundle = B.decode(bytes.fromhex(case['received']))
    print('received: %r' % (B.strip(bundle),))
    found = check_case(case['label'], B.strip(bundle), case['mtu'])
    for v in found:
        print(' observed %s: %s' % (v['kind'], v['detail'][:400]))
    return 1 if found else 0
