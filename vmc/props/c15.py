'''C15 - TCPCL enforces its TLS and peer-authentication policy.

Decision-table enumeration on a real endpoint whose configuration hands out a
scripted TLS context (the handshake itself is not real; the policy around it
is what is decided).
Table 1: local TLS capability x peer CAN_TLS x require_tls {unset, true,
false} x role x handshake outcome.
Table 2: under TLS, real X.509 certificates for all 64 subsets of subject
alternative names {matching/other IP, matching/other DNS name, matching/other
node-ID URI} x peer given by name or by address x require-host x require-node
x role.
Oracle: an independent statement of the policy (vmc/oracle/policy.py inlined
below).'''
import datetime
import ipaddress
import itertools
import ssl

from .. import env as _env
from .. import vnet
from ..world import World, Violation, Monitor, HarnessError
from ..oracle import tcpclv4 as T
from ..evidence import enum_evidence

PROP = 'C15'
PATH = '/org/ietf/dtn/tcpcl/Contact0'
IFACE = 'org.ietf.dtn.tcpcl.Contact'
PEER_IP = '10.0.0.7'
PEER_NAME = 'peer.example.org'
PEER_NODE = 'dtn://peer/'
LOCAL_IP = '10.0.0.8'


class FakeTls(object):
    '''What ssl.SSLContext.wrap_socket() returns: passes octets through.'''

    def __init__(self, sock, log, handshake_ok, cert_der):
        self._sock = sock
        self._log = log
        self._ok = handshake_ok
        self._cert = cert_der

    def do_handshake(self):
        self._log.append('handshake')
        if not self._ok:
            raise ssl.SSLError(1, 'handshake failure (scripted)')

    def cipher(self):
        return ('TLS_FAKE', 'TLSv1.3', 256)

    def getpeercert(self, binary_form=False):
        if binary_form or self._cert is None:
            return self._cert
        return {}

    def unwrap(self):
        return self._sock

    def __getattr__(self, name):
        return getattr(self._sock, name)


class FakeCtx(object):
    def __init__(self, log, handshake_ok, cert_der):
        self.log = log
        self.ok = handshake_ok
        self.cert = cert_der

    def wrap_socket(self, sock, server_side=False, do_handshake_on_connect=True, server_hostname=None, **kwargs):
        self.log.append('wrap server=%s name=%s' % (bool(server_side), server_hostname))
        return FakeTls(sock, self.log, self.ok, self.cert)


class TlsWorld(World):
    def __init__(self, role, tls_enable, require_tls, require_host, require_node, by_name, handshake_ok, cert_der, config_text=None):
        World.__init__(self)
        ns = _env.load_tcpcl('A')
        ns.session.Connection.CHUNK_SIZE = 10240
        self.log = []
        log = self.log

        class Cfg(ns.config.Config):
            def get_ssl_context(self_inner):
                if not self_inner.tls_enable:
                    return None
                if handshake_ok == 'no-context':
                    # the configured certificate / key files cannot be read
                    raise FileNotFoundError(2, 'No such file or directory')
                return FakeCtx(log, handshake_ok, cert_der)
        self.role = role
        ridx = 1 if role == 'passive' else 0
        self.ridx = ridx
        addr = [None, None]
        addr[ridx] = (LOCAL_IP, 4556 if role == 'passive' else 40000)
        addr[1 - ridx] = (PEER_IP, 40000 if role == 'passive' else 4556)
        conn = vnet.StreamConn('c0', addr0=addr[0], addr1=addr[1])
        conn.sent_log = []
        self.conns.append(conn)
        proc = self.add_proc('R')
        if config_text is None:
            cfg = Cfg(tls_enable=tls_enable, require_tls=require_tls, require_host_authn=require_host,
                      require_node_authn=require_node, node_id='dtn://local/', segment_size_mru=64, segment_size_tx_initial=64)
        else:
            # the way the daemon gets its settings: defaults, then the configuration file
            import io
            cfg = Cfg(node_id='dtn://local/', segment_size_mru=64, segment_size_tx_initial=64)
            cfg.from_file(io.StringIO(config_text))
        self.cfg = cfg
        cfg._bus_conn = proc.bus
        kwargs = dict(config=cfg, sock=conn.ends[ridx])
        if role == 'passive':
            kwargs['fromaddr'] = conn.addr[0]
        else:
            kwargs['toaddr'] = ((PEER_NAME if by_name else PEER_IP), 4556)

        def make():
            hdl = ns.session.ContactHandler(hdl_kwargs=kwargs, bus_kwargs=dict(conn=proc.bus, object_path=PATH))
            hdl.start()
            return hdl
        proc.roots['contact'] = self.in_proc(proc, make)
        self.out = b''
        self.states = []
        self.escaped = []
        self.collect(('init',))

    def collect(self, event):
        conn = self.conns[0]
        for (side, data) in conn.sent_log or []:
            if side == self.ridx:
                self.out += data
        conn.sent_log = []
        proc = self.procs['R']
        for rec in proc.bus.drain_records():
            if rec[0] == 'signal' and rec[3] == 'session_state_changed':
                self.states.append(str(rec[4][0]))
        for esc in proc.ctx.escaped:
            self.escaped.append((esc.exc_type, esc.exc_text, esc.tb))
        proc.ctx.escaped = []
        proc.ctx.warnings = []
        return []

    def quiesce(self):
        proc = self.procs['R']
        steps = 0
        while self.runnable(proc):
            steps += 1
            if steps > 300:
                raise HarnessError('endpoint does not become quiescent')
            self.apply(('run', 'R'))
            pipe = self.conns[0].buf[1 - self.ridx]
            if pipe:
                del pipe[:]

    def peer_write(self, data):
        conn = self.conns[0]
        if not conn.closed[self.ridx]:
            conn.buf[self.ridx] += data

    def closed(self):
        return self.conns[0].closed[self.ridx]

    def received(self):
        '''Transfer ids the endpoint lists as received (read over the bus).'''
        res = self.bus_call(self.procs['R'], PATH, 'recv_bundle_get_queue', iface=IFACE)
        return [str(x) for x in res[1]] if res[0] == 'ok' else []

    def params_view(self):
        proc = self.procs['R']
        if PATH not in proc.bus._objects:
            return None
        res = self.bus_call(proc, PATH, 'get_session_parameters', iface=IFACE)
        proc.bus.drain_records()
        return {str(k): v for (k, v) in dict(res[1]).items()} if res[0] == 'ok' else res


def run_exchange(world, peer_can_tls, peer_flags=None, node_id=None, one_read=False, header_cut=None):
    '''The scripted peer plays a correct TCPCL peer (peer_flags: the whole flags octet of its
    contact header, reserved bits included; node_id: what its SESS_INIT announces; header_cut: its
    contact header arrives in two reads, cut after that many octets).'''
    world.quiesce()
    head = T.enc_contact(peer_flags if peer_flags is not None else (1 if peer_can_tls else 0))
    if header_cut:
        world.peer_write(head[:header_cut])
        world.quiesce()
        head = head[header_cut:]
    world.peer_write(head)
    if not one_read:
        world.quiesce()
    # (one_read: the peer's SESS_INIT is already there when the endpoint reads the contact header)
    world.peer_write(T.enc_sess_init(0, 64, 1000, PEER_NODE if node_id is None else node_id))
    world.quiesce()
    (msgs, _rest) = T.parse_all(world.out, with_contact=True)
    kinds = [m['kind'] for m in msgs]
    term = [m for m in msgs if m['kind'] == 'SESS_TERM']
    return dict(kinds=kinds, sess_init=kinds.count('SESS_INIT'), established='established' in world.states,
                closed=world.closed(), term_reason=term[0]['reason'] if term else None,
                wrapped=any(e.startswith('wrap') for e in world.log), handshakes=world.log.count('handshake'))


# ---------------------------------------------------------------------------
# table 1

def run_table1(params, known):
    violations = []
    kinds = set()
    count = 0
    keys = set()
    samples = []

    def viol(kind, sig, detail, row):
        key = (kind, tuple(sorted(sig.items())))
        if key in kinds:
            return
        kinds.add(key)
        v = Violation(PROP, 'tls-policy', kind, sig, '%r: %s' % (row, detail)).as_dict()
        v['case'] = row
        violations.append(v)
    # the peer's flags octet: CAN_TLS is bit 0, the other bits are reserved and must be ignored
    for (tls_enable, peer_flags, require, role, hs_ok, one_read, cut) in itertools.product(
            (True, False), (0x00, 0x01, 0x03, 0x81, 0xFE, 0xFF), (None, True, False), ('active', 'passive'), (True, False), (False, True), (None, 1, 5)):
        count += 1
        peer_can = bool(peer_flags & 1)
        row = dict(tls_enable=tls_enable, peer_can_tls=peer_can, peer_flags=peer_flags, require_tls=require, role=role, handshake_ok=hs_ok,
                   sess_init_in_the_same_read=one_read)
        if cut:
            row['contact_header_cut_after'] = cut
        world = TlsWorld(role, tls_enable, require, False, False, False, hs_ok, make_cert(()))
        obs = run_exchange(world, peer_can, peer_flags=peer_flags, one_read=one_read, header_cut=cut)
        if world.escaped:
            viol('exception-escaped-callback', dict(exc=world.escaped[-1][0]), '%s: %s' % world.escaped[-1][:2], row)
            continue
        # --- the policy, stated independently
        attempt = tls_enable and peer_can
        proceed = True
        if require is not None and attempt != require:
            proceed = False
        secure = attempt and hs_ok
        if attempt and not hs_ok:
            proceed = False
        if require is not None and secure != require:
            proceed = False
        if obs['wrapped'] != (attempt and (require is None or attempt == require)):
            viol('tls-attempt-does-not-follow-the-contact-headers', dict(), 'TLS attempted=%s, both offer=%s' % (obs['wrapped'], attempt), row)
        if proceed:
            keys.add(repr(sorted(row.items())))
            if obs['sess_init'] != 1 or not obs['established']:
                viol('session-not-established-although-policy-allows', dict(), repr(obs), row)
        else:
            if obs['sess_init'] or obs['established']:
                what = 'in the clear' if not secure else 'secured'
                viol('session-proceeds-against-tls-policy', dict(require=str(require)), 'proceeded %s: %r' % (what, obs), row)
            if not obs['closed']:
                viol('connection-left-open-after-policy-failure', dict(), repr(obs), row)
        if len(samples) < 1:
            samples.append(dict(row=row, observed=obs))
    # the TLS context cannot be made (the configured files are unreadable) although both ends offer TLS and TLS is
    # required: whatever else happens to the contact (the error is the operator's), no session in the clear
    for (peer_flags, role, one_read) in itertools.product((0x01, 0xFF), ('active', 'passive'), (False, True)):
        count += 1
        row = dict(tls_enable=True, peer_can_tls=True, peer_flags=peer_flags, require_tls=True, role=role, tls_context='cannot be made',
                   sess_init_in_the_same_read=one_read)
        world = TlsWorld(role, True, True, False, False, False, 'no-context', None)
        obs = run_exchange(world, True, peer_flags=peer_flags, one_read=one_read)
        keys.add(repr(sorted(row.items())))
        if obs['sess_init'] or obs['established']:
            viol('session-proceeds-against-tls-policy', dict(require='True'), 'proceeded in the clear: %r' % (obs,), row)
    return dict(name='table1', evaluations=count, nontrivial_keys=sorted(keys), violations=violations, known=[], samples=samples)


# ---------------------------------------------------------------------------
# several contacts in one process

class MultiTlsWorld(World):
    '''Several contacts of one process, each with a configuration of its own and a scripted peer;
    started and answered one event at a time.'''

    def __init__(self, specs):
        World.__init__(self)
        ns = _env.load_tcpcl('A')
        ns.session.Connection.CHUNK_SIZE = 10240
        self.specs = specs
        self.logs = [[] for _ in specs]
        self.paths = []
        self.hdls = []
        proc = self.add_proc('R')
        for (i, spec) in enumerate(specs):
            log = self.logs[i]

            class Cfg(ns.config.Config):
                def get_ssl_context(self_inner, log=log):
                    if not self_inner.tls_enable:
                        return None
                    return FakeCtx(log, True, make_cert(()))
            passive = spec['role'] == 'passive'
            ridx = 1 if passive else 0
            addr = [None, None]
            addr[ridx] = (LOCAL_IP, 4556 if passive else 40000 + i)
            addr[1 - ridx] = ('10.0.1.%d' % (i + 1), 40000 + i if passive else 4556)
            conn = vnet.StreamConn('c%d' % i, addr0=addr[0], addr1=addr[1])
            conn.sent_log = []
            conn.ridx = ridx
            self.conns.append(conn)
            cfg = Cfg(tls_enable=spec['tls_enable'], require_tls=spec['require_tls'], require_host_authn=False,
                      require_node_authn=False, node_id='dtn://local/', segment_size_mru=64, segment_size_tx_initial=64)
            cfg._bus_conn = proc.bus
            kwargs = dict(config=cfg, sock=conn.ends[ridx])
            if passive:
                kwargs['fromaddr'] = conn.addr[0]
            else:
                kwargs['toaddr'] = (addr[1 - ridx][0], 4556)
            path = '/org/ietf/dtn/tcpcl/Contact%d' % i
            self.paths.append(path)

            def make(kwargs=kwargs, path=path):
                return ns.session.ContactHandler(hdl_kwargs=kwargs, bus_kwargs=dict(conn=proc.bus, object_path=path))
            hdl = self.in_proc(proc, make)
            proc.roots['contact%d' % i] = hdl
            self.hdls.append(hdl)
        self.out = [b'' for _ in specs]
        self.states = [[] for _ in specs]
        self.escaped = []
        self.collect(('init',))

    def collect(self, event):
        proc = self.procs['R']
        for (i, conn) in enumerate(self.conns):
            for (side, data) in conn.sent_log or []:
                if side == conn.ridx:
                    self.out[i] += data
            conn.sent_log = []
        for rec in proc.bus.drain_records():
            if rec[0] == 'signal' and rec[3] == 'session_state_changed' and str(rec[1]) in self.paths:
                self.states[self.paths.index(str(rec[1]))].append(str(rec[4][0]))
        for esc in proc.ctx.escaped:
            self.escaped.append((esc.exc_type, esc.exc_text, esc.tb))
        proc.ctx.escaped = []
        proc.ctx.warnings = []
        return []

    def quiesce(self):
        proc = self.procs['R']
        steps = 0
        while self.runnable(proc):
            steps += 1
            if steps > 600:
                raise HarnessError('endpoints do not become quiescent')
            self.apply(('run', 'R'))
            for conn in self.conns:
                pipe = conn.buf[1 - conn.ridx]
                if pipe:
                    del pipe[:]

    def start(self, i):
        self.in_proc(self.procs['R'], self.hdls[i].start)
        self.collect(('start', i))
        self.quiesce()

    def peer_write(self, i, data):
        conn = self.conns[i]
        if not conn.closed[conn.ridx]:
            conn.buf[conn.ridx] += data
        self.quiesce()


def run_two_contacts(params, known):
    '''Two contacts of one process with settings of their own (TLS offered or not, require_tls),
    their starts and the arrival of the two peers' contact headers in all six orders; each contact
    is judged by table 1 against the header it wrote itself and its own peer's header.'''
    violations = []
    kinds = set()
    count = 0
    keys = set()

    def viol(kind, sig, detail, row):
        key = (kind, tuple(sorted(sig.items())))
        if key in kinds:
            return
        kinds.add(key)
        v = Violation(PROP, 'tls-policy', kind, sig, '%r: %s' % (row, detail)).as_dict()
        v['case'] = row
        violations.append(v)
    orders = [o for o in itertools.permutations(('start0', 'start1', 'hdr0', 'hdr1'))
              if o.index('start0') < o.index('hdr0') and o.index('start1') < o.index('hdr1')]
    settings = [(True, None), (True, True), (False, None), (False, False)]
    for (s0, s1, role0, role1, peer0, peer1) in itertools.product(settings, settings, ('active', 'passive'), ('active', 'passive'),
                                                                     (True, False), (True, False)):
        if s0[0] == s1[0]:
            continue
        for order in orders:
            count += 1
            specs = [dict(role=role0, tls_enable=s0[0], require_tls=s0[1]), dict(role=role1, tls_enable=s1[0], require_tls=s1[1])]
            peers = (peer0, peer1)
            row = dict(contacts=specs, peers_can_tls=peers, order=order)
            world = MultiTlsWorld(specs)
            for ev in order:
                i = int(ev[-1])
                if ev.startswith('start'):
                    world.start(i)
                else:
                    world.peer_write(i, T.enc_contact(1 if peers[i] else 0))
            for i in (0, 1):
                world.peer_write(i, T.enc_sess_init(0, 64, 1000, PEER_NODE))
            if world.escaped:
                viol('exception-escaped-callback', dict(exc=world.escaped[-1][0]), '%s: %s' % world.escaped[-1][:2], row)
                continue
            for i in (0, 1):
                spec = specs[i]
                (msgs, _rest) = T.parse_all(world.out[i], with_contact=True)
                kinds_i = [m['kind'] for m in msgs]
                wrote_header = bool(msgs and msgs[0]['kind'] == 'CONTACT')
                offered = bool(msgs[0]['flags'] & 1) if wrote_header else spec['tls_enable']
                if offered != spec['tls_enable']:
                    viol('contact-header-does-not-follow-configuration', dict(), 'contact %d wrote CAN_TLS=%s' % (i, offered), row)
                attempt = offered and peers[i]
                require = spec['require_tls']
                proceed = require is None or attempt == require
                wrapped = any(e.startswith('wrap') for e in world.logs[i])
                established = 'established' in world.states[i]
                closed = world.conns[i].closed[world.conns[i].ridx]
                obs = dict(contact=i, wrote=kinds_i, wrapped=wrapped, established=established, closed=closed)
                if wrapped != (attempt and proceed):
                    viol('tls-attempt-does-not-follow-the-contact-headers', dict(), 'both offer=%s: %r' % (attempt, obs), row)
                if proceed:
                    keys.add(repr((i, sorted(spec.items()), peers[i], order)))
                    if kinds_i.count('SESS_INIT') != 1 or not established:
                        viol('session-not-established-although-policy-allows', dict(), repr(obs), row)
                else:
                    if 'SESS_INIT' in kinds_i or established:
                        viol('session-proceeds-against-tls-policy', dict(require=str(require)), repr(obs), row)
                    if not closed:
                        viol('connection-left-open-after-policy-failure', dict(), repr(obs), row)
    return dict(name='two-contacts', evaluations=count, nontrivial_keys=sorted(keys), violations=violations, known=[], samples=[])


# ---------------------------------------------------------------------------
# settings that come from the configuration file

ABSENT = object()
FILE_FIELDS = {
    'tls_enable': (ABSENT, True, False),
    'require_tls': (ABSENT, True, False, None),
    'require_host_authn': (ABSENT, True, False),
    'require_node_authn': (ABSENT, True, False),
    'keepalive_time': (ABSENT, 0, 5),
    'idle_time': (ABSENT, 0, 7),
    'segment_size_mru': (ABSENT, 4096),
    'node_id': (ABSENT, '', 'dtn://file/'),
    'stop_on_close': (ABSENT, True, False),
}


def run_config_file(params, known):
    '''Config.from_file(): every combination of present / absent / "false-like" values of the
    settings the negotiation depends on.  A setting present in the file has that value afterwards
    (false, 0 and the empty string included), an absent one keeps its default; then the TLS part
    of table 1 is repeated with the endpoint configured from the file.'''
    import io
    import json
    violations = []
    kinds = set()
    count = 0
    keys = set()
    ns = _env.load_tcpcl('A')

    def viol(kind, sig, detail, row):
        key = (kind, tuple(sorted(sig.items())))
        if key in kinds:
            return
        kinds.add(key)
        v = Violation(PROP, 'config-file', kind, sig, '%r: %s' % (row, detail)).as_dict()
        v['case'] = row
        violations.append(v)
    names = sorted(FILE_FIELDS)
    defaults = ns.config.Config()
    for combo in itertools.product(*[FILE_FIELDS[n] for n in names]):
        count += 1
        content = {n: v for (n, v) in zip(names, combo) if v is not ABSENT}
        text = json.dumps({'tcpcl': content})
        cfg = ns.config.Config()
        try:
            cfg.from_file(io.StringIO(text))
        except Exception as err:
            viol('configuration-file-rejected', dict(exc=type(err).__name__), '%s: %s' % (type(err).__name__, err), dict(file=text))
            continue
        for (n, v) in zip(names, combo):
            want = getattr(defaults, n) if v is ABSENT else v
            if getattr(cfg, n) != want or type(getattr(cfg, n)) is not type(want):
                viol('setting-differs-from-file', dict(field=n, value=repr(v) if v is not ABSENT else 'absent'),
                     '%s is %r after loading, the file says %s' % (n, getattr(cfg, n), 'nothing (default %r)' % (want,) if v is ABSENT else repr(v)),
                     dict(file=text))
    # behaviour with the TLS settings taken from the file
    for (tls_enable, require, peer_can, role) in itertools.product(FILE_FIELDS['tls_enable'], FILE_FIELDS['require_tls'], (True, False), ('active', 'passive')):
        count += 1
        content = {}
        if tls_enable is not ABSENT:
            content['tls_enable'] = tls_enable
        if require is not ABSENT:
            content['require_tls'] = require
        text = json.dumps({'tcpcl': content})
        row = dict(file=text, peer_can_tls=peer_can, role=role)
        world = TlsWorld(role, None, None, False, False, False, True, make_cert(()), config_text=text)
        obs = run_exchange(world, peer_can)
        eff_enable = True if tls_enable is ABSENT else tls_enable
        eff_require = None if require is ABSENT else require
        attempt = eff_enable and peer_can
        proceed = not (eff_require is not None and attempt != eff_require)
        keys.add(repr(sorted(row.items())))
        if world.escaped:
            viol('exception-escaped-callback', dict(exc=world.escaped[-1][0]), '%s: %s' % world.escaped[-1][:2], row)
        elif proceed and (obs['sess_init'] != 1 or not obs['established'] or obs['wrapped'] != attempt):
            viol('file-settings-not-followed', dict(), 'policy allows a %s session: %r' % ('secured' if attempt else 'clear', obs), row)
        elif not proceed and (obs['sess_init'] or obs['established']):
            viol('session-proceeds-against-tls-policy', dict(require=str(eff_require)), repr(obs), row)
    return dict(name=params['name'], evaluations=count, nontrivial_keys=sorted(keys), violations=violations, known=[], samples=[])


# ---------------------------------------------------------------------------
# table 2

_KEY = None
_CERTS = {}

SAN_BITS = ['ip-match', 'ip-other', 'dns-match', 'dns-other', 'uri-match', 'uri-other']


def make_cert(sans):
    global _KEY
    from cryptography import x509
    from cryptography.x509.oid import NameOID
    from cryptography.hazmat.primitives import hashes, serialization
    from cryptography.hazmat.primitives.asymmetric import ec
    key = tuple(sorted(sans))
    if key in _CERTS:
        return _CERTS[key]
    if _KEY is None:
        _KEY = ec.derive_private_key(0xC15001, ec.SECP256R1())     # fixed: every run works on the same key
    names = []
    for san in key:
        if san == 'ip-match':
            names.append(x509.IPAddress(ipaddress.ip_address(PEER_IP)))
        elif san == 'ip-other':
            names.append(x509.IPAddress(ipaddress.ip_address('192.0.2.99')))
        elif san == 'dns-match':
            names.append(x509.DNSName(PEER_NAME))
        elif san == 'dns-other':
            names.append(x509.DNSName('other.example.net'))
        elif san == 'uri-match':
            names.append(x509.UniformResourceIdentifier(PEER_NODE))
        elif san == 'uri-other':
            names.append(x509.UniformResourceIdentifier('dtn://intruder/'))
    now = datetime.datetime(2024, 1, 1, tzinfo=datetime.timezone.utc)
    name = x509.Name([x509.NameAttribute(NameOID.COMMON_NAME, 'peer')])
    builder = (x509.CertificateBuilder().subject_name(name).issuer_name(name).public_key(_KEY.public_key())
               .serial_number(7).not_valid_before(now).not_valid_after(now + datetime.timedelta(days=3650)))
    if names:
        builder = builder.add_extension(x509.SubjectAlternativeName(names), critical=False)
    cert = builder.sign(_KEY, hashes.SHA256())
    _CERTS[key] = cert.public_bytes(serialization.Encoding.DER)
    return _CERTS[key]


# what the peer's SESS_INIT announces: its node ID, nothing, or texts that are *not* its node ID
# (white space around it, one more character): no URI name of the certificate equals those
ANNOUNCED = {'own': None, 'empty': b'', 'own+newline': PEER_NODE.encode() + b'\n', 'space+own': b' ' + PEER_NODE.encode(),
             'own+x': PEER_NODE.encode() + b'x'}


def policy(sans, role, by_name, require_host, require_node, announced='own'):
    '''Independent statement: returns True when the session may be established.
    announced='empty': the peer announces a zero-length node ID, which no URI name equals.'''
    ip_ids = [s for s in sans if s.startswith('ip-')]
    dns_ids = [s for s in sans if s.startswith('dns-')]
    uri_ids = [s for s in sans if s.startswith('uri-')]
    dns_ref = (role == 'active' and by_name)
    # an identifier type that is presented must not contradict what is known of the peer
    ip_ok = 'ip-match' in ip_ids
    if ip_ids and not ip_ok:
        return False
    dns_ok = False
    if dns_ref:
        dns_ok = 'dns-match' in dns_ids
        if dns_ids and not dns_ok:
            return False
    node_ok = 'uri-match' in uri_ids and announced == 'own'
    if uri_ids and not node_ok:
        return False
    if require_host and not (ip_ok or dns_ok):
        return False
    if require_node and not node_ok:
        return False
    return True


def run_table2(params, known):
    violations = []
    kinds = set()
    count = 0
    keys = set()
    samples = []
    (part, parts) = (params['part'], params['parts'])

    def viol(kind, sig, detail, row):
        key = (kind, tuple(sorted(sig.items())))
        if key in kinds:
            return
        kinds.add(key)
        v = Violation(PROP, 'authn-policy', kind, sig, '%r: %s' % (row, detail)).as_dict()
        v['case'] = row
        violations.append(v)
    idx = -1
    for bits in list(range(64)) + [None]:
        # None: the peer presents no certificate at all (certificates are optional for a TLS client,
        # so only the passive role can meet this): nothing is authenticated
        sans = tuple(SAN_BITS[i] for i in range(6) if bits >> i & 1) if bits is not None else ()
        for (by_name, require_host, require_node, role, announced) in itertools.product((False, True), (False, True), (False, True),
                                                                                       ('active', 'passive'), ANNOUNCED):
            if announced not in ('own', 'empty') and 'uri-match' not in sans:
                continue
            if bits is None and role != 'passive':
                continue
            idx += 1
            if idx % parts != part:
                continue
            count += 1
            row = dict(sans=list(sans), by_name=by_name, require_host=require_host, require_node=require_node, role=role, announced=announced)
            if bits is None:
                row['certificate'] = 'none presented'
            world = TlsWorld(role, True, True, require_host, require_node, by_name, True, make_cert(sans) if bits is not None else None)
            obs = run_exchange(world, True, node_id=ANNOUNCED[announced])
            if world.escaped:
                viol('exception-escaped-callback', dict(exc=world.escaped[-1][0]), '%s: %s' % world.escaped[-1][:2], row)
                continue
            allowed = policy(sans, role, by_name, require_host, require_node, announced)
            if allowed:
                if not obs['established']:
                    viol('session-refused-although-identifiers-are-acceptable', dict(), repr(obs), row)
                else:
                    view = world.params_view() or {}
                    if 'uri-match' in sans and str(view.get('authn_nodeid')) != PEER_NODE:
                        viol('authenticated-node-id-not-reported', dict(), repr(view), row)
                    if 'ip-match' in sans and str(view.get('authn_ipaddrid')) != PEER_IP:
                        viol('authenticated-address-not-reported', dict(), repr(view), row)
            else:
                keys.add(repr(sorted(row.items())))
                if obs['established']:
                    viol('session-established-against-authentication-policy', dict(require_host=require_host, require_node=require_node),
                         'certificate SANs %r' % (list(sans),), row)
                elif obs['term_reason'] != 4 and not obs['closed']:
                    viol('no-contact-failure-termination', dict(), repr(obs), row)
                elif obs['term_reason'] is not None and obs['term_reason'] != 4:
                    viol('termination-reason-not-contact-failure', dict(), repr(obs), row)
                if not obs['closed'] and not obs['established']:
                    # the refused peer goes on regardless and sends a bundle: no session exists, nothing of it is taken
                    world.peer_write(T.enc_segment(3, 1, b'intruder', [T.ext_total_length(8)]))
                    world.quiesce()
                    (msgs, _rest) = T.parse_all(world.out, with_contact=True)
                    if any(m['kind'] == 'XFER_ACK' for m in msgs) or world.received():
                        viol('transfer-accepted-from-a-refused-peer', dict(), 'after the refusal a segment was acknowledged: %r, receive queue %r'
                             % ([m['kind'] for m in msgs], world.received()), row)
                    elif world.escaped:
                        viol('exception-escaped-callback', dict(exc=world.escaped[-1][0]), '%s: %s' % world.escaped[-1][:2], row)
            if len(samples) < 1 and sans:
                samples.append(dict(row=row, observed=obs, allowed=allowed))
    return dict(name=params['name'], evaluations=count, nontrivial_keys=sorted(keys), violations=violations, known=[], samples=samples)


def run_agent_level(params, known):
    """The same policy for contacts made through a `tcpcl.agent.Agent` (connect and accept), which hands its one
    configuration object to all of them: an agent without TLS of its own (`tls_enable: false`) under each value of
    `require_tls`, against peers that do not offer TLS either.  With TLS required nothing but the contact header is
    written and the connection is closed; otherwise the session is established."""
    import itertools
    from ..agent_world import AgentWorld
    violations = []
    kinds = set()
    keys = set()
    count = 0

    def viol(kind, detail, row):
        if kind in kinds:
            return
        kinds.add(kind)
        v = Violation(PROP, 'tls-policy', kind, dict(), '%r: %s' % (row, detail)).as_dict()
        v['case'] = row
        violations.append(v)
    for (require, contacts, order) in itertools.product((None, False, True), (['out'], ['in'], ['out', 'in']), ('X-first', 'peers-first')):
        count += 1
        row = dict(agent_tls_enable=False, require_tls=require, contacts=contacts, order=order)
        w = AgentWorld(dict(contacts=contacts, x_config=dict(tls_enable=False, require_tls=require)))

        class WireLog(Monitor):
            name = 'wire-log'

            def __init__(self):
                self.octets = {}

            def on_wire(self, world, conn, side, data):
                self.octets[(conn.name, side)] = self.octets.get((conn.name, side), b'') + bytes(data)
                return ()
        wire = WireLog()
        w.monitors.append(wire)
        names = ['X'] + ['P%d' % i for i in range(len(contacts))]
        w.run_policy(names if order == 'X-first' else names[1:] + names[:1])
        keys.add('%r/%s/%s' % (require, '+'.join(contacts), order))
        if w.sig.escaped:
            viol('exception-escaped-callback', '%s: %s' % (w.sig.escaped[-1][1], w.sig.escaped[-1][2]), row)
            continue
        for (i, kind) in enumerate(contacts):
            conn = w.conns[i]
            xside = 0 if kind == 'out' else 1
            octets = wire.octets.get((conn.name, xside), b'')
            (msgs, _rest) = T.parse_all(octets, with_contact=True)
            sent = [m['kind'] for m in msgs]
            established = any(p == 'X' and m == 'session_state_changed' and a and a[-1] == 'established' for (p, _pa, m, a) in w.sig.log) \
                or 'SESS_INIT' in sent
            if require is True:
                if 'SESS_INIT' in sent:
                    viol('session-proceeds-against-tls-policy', 'contact %d (%s): the agent requires TLS, has none, and wrote %r in the clear' % (i, kind, sent), row)
                elif not conn.closed[xside]:
                    viol('connection-left-open-after-policy-failure', 'contact %d (%s): wrote %r' % (i, kind, sent), row)
            elif sent.count('SESS_INIT') != 1:
                viol('session-not-established-although-policy-allows', 'contact %d (%s): wrote %r' % (i, kind, sent), row)
    return dict(name=params['name'], evaluations=count, nontrivial_keys=sorted(keys), violations=violations, known=[], samples=[])


def scenarios(tier):
    out = [dict(name='table1', kind='enum', runner='run_table1', params=dict(name='table1'), weight=5),
           dict(name='config-file', kind='enum', runner='run_config_file', params=dict(name='config-file'), weight=5),
           dict(name='two-contacts', kind='enum', runner='run_two_contacts', params=dict(name='two-contacts'), weight=5),
           dict(name='agent-level', kind='enum', runner='run_agent_level', params=dict(name='agent-level'), weight=5)]
    for part in range(8):
        name = 'table2-%d/8' % (part + 1)
        out.append(dict(name=name, kind='enum', runner='run_table2', params=dict(name=name, part=part, parts=8), weight=10))
    return out


ASSUMPTIONS = [
    'the TLS handshake is scripted (succeeds or raises SSLError); only the policy decisions around it are decided',
    'a TLS context that cannot be made (unreadable files, 8 rows): only "no session in the clear when TLS is required" is judged, the error itself is the operator\'s',
    'certificates are real X.509 (EC P-256, self-signed) carrying the chosen subject alternative names',
    'an identifier type "contradicts" when the certificate presents names of that type and none equals the reference; with no reference (peer DNS name unknown) a DNS name cannot contradict and cannot authenticate the host',
    'configuration file: read by the JSON-subset stand-in for PyYAML; every combination of absent / true / false / null / 0 / empty values of nine settings, and the TLS rows of table 1 with the settings taken from the file',
    'two contacts of one process whose settings differ in tls_enable (8 pairs of settings x roles x peers offering TLS or not), started and answered in all 6 orders',
    'a correct scripted peer: contact header (flags octet 0x00, 0x01, 0x03, 0x81, 0xFE or 0xFF: reserved bits are ignored), then SESS_INIT announcing its node ID, a zero-length node ID, or its node ID with white space / one more character around it (which no URI name of a certificate equals)',
    'a TLS client that presents no certificate at all (the context asks for one but does not require it): 16 more rows of table 2, passive role',
]

RULE = ('complete decision tables (872 + 3600 rows; table 1 also with the contact header of the peer arriving in two reads, cut after 1 or 5 octets) executed on a fresh real endpoint each; non-trivial = rows in which the '
        'policy forbids the session (table 2) or allows it (table 1)')


def evidence(tier, seed, scens, results, wall_s):
    return enum_evidence(PROP, 'exploration', tier, seed, scens, results, wall_s, ASSUMPTIONS, RULE)


def replay_case(body, verbose=False):
    print('row %r: %s: %s' % (body.get('case'), body['violation']['kind'], body['violation']['detail'][:500]))
    return 1
