'''C12 - a bundle with an unverifiable security block is never delivered.

Fault enumeration over a menu of structural and content malformations of
integrity (BIB) and confidentiality (BCB) blocks x key-store contents x
accept-after-verify on/off x deletion report requested or not.  Valid
integrity blocks come from the independent HMAC producer, valid
confidentiality blocks from the real transmit chain; malformations are applied
to the independently decoded structure and re-encoded.  A probe application
registered after the security steps must not see the bundle, and the bundle
must end deleted with a security reason; valid or unprotected bundles must be
delivered unchanged apart from accepted blocks being removed.'''
from ..bp_world import BpWorld
from ..world import Violation
from ..oracle import bpv7 as B
from ..oracle import cbor_min as C
from ..oracle import cose_aad as A
from ..evidence import enum_evidence
from .c03 import sym_key, KEY, WRONG_KEY, KID, SRC, NODE, SEC_REASONS
from . import c03, c16

import itertools

from .c03 import run_wrong_cert  # noqa: F401,E402

PROP = 'C12'


def copy_bundle(b):
    out = dict(primary=dict(b['primary']), blocks=[dict(x) for x in b['blocks']])
    for x in [out['primary']] + out['blocks']:
        for k in ('span', 'crc', 'crc_ok'):
            x.pop(k, None)
    return out


def base_bib(report):
    bundle = c03.plain_bundle()
    if not report:
        bundle['primary']['flags'] = 0
        bundle['primary']['report_to'] = 'dtn:none'
    return A.add_bib(bundle, [1], KEY, KID, SRC, scope={0: 1, -1: 1}, num=4)


def base_bcb(report):
    data = c16.source_encrypt('enc0', 16, False)
    bundle = copy_bundle(B.decode(data))
    if not report:
        # flags and report-to are covered by the AAD: only the reporting-free variant of the
        # *valid* bundle can be built by the source, so keep it and just not look for a report
        pass
    return bundle


def sec_index(bundle, typ):
    return [i for (i, b) in enumerate(bundle['blocks']) if b['type'] == typ][0]


def edit_asb(bundle, typ, fn):
    idx = sec_index(bundle, typ)
    asb = B.dec_asb(bundle['blocks'][idx]['data'])
    fn(asb)
    bundle['blocks'][idx]['data'] = B.enc_asb(asb)


def edit_msg(bundle, typ, fn):
    def inner(asb):
        (rt, rv) = asb['results'][0][0]
        msg = C.loads(rv)
        res = fn(msg)
        if isinstance(res, bytes):
            asb['results'][0][0] = (rt, res)
        else:
            asb['results'][0][0] = (rt, C.dumps(msg))
    edit_asb(bundle, typ, inner)


def malformations(typ):
    '''(name, function editing a bundle copy in place)'''
    out = []

    def add(name, fn):
        out.append((name, fn))
    # the security block's own block-number item is not a number (null, an array) and the target is altered:
    # a block the agent cannot even name must not make the alteration go unnoticed
    def odd_number(value):
        def fn(b):
            b['blocks'][sec_index(b, typ)]['num'] = value
            tgt = [x for x in b['blocks'] if x['num'] == 1][0]
            tgt['data'] = bytes(tgt['data'][:-1]) + bytes([(tgt['data'][-1] if tgt['data'] else 0) ^ 0x55]) if tgt['data'] else b'\x55'
        return fn
    add('security-block-number-null+target-altered', odd_number(None))
    add('security-block-number-array+target-altered', odd_number([]))
    add('security-block-number-text+target-altered', odd_number('4'))
    add('unknown-context', lambda b: edit_asb(b, typ, lambda a: a.update(context=99)))
    add('target-absent', lambda b: edit_asb(b, typ, lambda a: a.update(targets=[9])))
    add('extra-target-without-result', lambda b: edit_asb(b, typ, lambda a: a.update(targets=a['targets'] + [3])))
    # entries of the target list that are no block numbers at all (null, an empty array, a map), each with a result of its own
    for (tname, tval) in (('null', None), ('empty-array', []), ('map', {})):
        add('extra-target-%s-with-a-result' % tname,
            lambda b, tval=tval: edit_asb(b, typ, lambda a: (a.update(targets=a['targets'] + [tval]), a['results'].append(list(a['results'][0])))))
    add('only-target-null', lambda b: edit_asb(b, typ, lambda a: a.update(targets=[None])))
    add('extra-result-without-target', lambda b: edit_asb(b, typ, lambda a: a['results'].append(list(a['results'][0]))))
    add('duplicate-parameter-ids', lambda b: edit_asb(b, typ, lambda a: (a['params'].append(a['params'][0]), a.update(flags=a['flags'] | 1))))
    add('duplicate-result-ids', lambda b: edit_asb(b, typ, lambda a: a['results'][0].append(a['results'][0][0])))

    def dup_apart(order):
        # the same parameter id twice with another id in between (4 = additional unprotected
        # headers, empty map: nothing authenticated changes)
        def fn(a):
            first = a['params'][0]
            other = (4, C.dumps({}))
            a['params'] = [first, other, first] if order == 'aba' else [other, first, other]
            a['flags'] |= 1
        return fn
    add('duplicate-parameter-ids-not-adjacent', lambda b: edit_asb(b, typ, dup_apart('aba')))
    add('duplicate-other-parameter-ids-not-adjacent', lambda b: edit_asb(b, typ, dup_apart('bab')))
    add('empty-result-list', lambda b: edit_asb(b, typ, lambda a: a['results'].__setitem__(0, [])))
    add('two-different-results', lambda b: edit_asb(b, typ, lambda a: a['results'][0].append((a['results'][0][0][0] + 1, a['results'][0][0][1]))))
    add('no-results-at-all', lambda b: edit_asb(b, typ, lambda a: a.update(results=[])))

    def truncate_btsd(b):
        idx = sec_index(b, typ)
        b['blocks'][idx]['data'] = b['blocks'][idx]['data'][:-3]
    add('security-block-data-truncated', truncate_btsd)

    def garbage_btsd(b):
        idx = sec_index(b, typ)
        b['blocks'][idx]['data'] = b'\x01\x02\x03'
    add('security-block-data-garbage', garbage_btsd)
    add('cose-not-cbor', lambda b: edit_msg(b, typ, lambda m: b'\xff\xff\xff'))
    add('cose-not-an-array', lambda b: edit_msg(b, typ, lambda m: C.dumps({1: 2})))
    add('cose-too-few-items', lambda b: edit_msg(b, typ, lambda m: C.dumps(m[:2])))
    add('cose-too-many-items', lambda b: edit_msg(b, typ, lambda m: C.dumps(m + [b'x', b'y'])))
    add('cose-payload-not-detached', lambda b: edit_msg(b, typ, lambda m: m.__setitem__(2, b'attached')))
    if typ == B.T_BIB:
        # multi-signer / multi-recipient messages that name nobody: nothing vouches for the content
        add('cose-sign-without-signers', lambda b: edit_asb(b, typ, lambda a: a['results'][0].__setitem__(0, (98, C.dumps([C.dumps({1: -7}), {}, None, []])))))
        add('cose-mac-without-recipients', lambda b: edit_asb(b, typ, lambda a: a['results'][0].__setitem__(0, (97, C.dumps([C.dumps({1: 5}), {}, None, b'\x00' * 32, []])))))
    add('result-type-unknown', lambda b: edit_asb(b, typ, lambda a: a['results'][0].__setitem__(0, (999, a['results'][0][0][1]))))
    other = 18 if typ == B.T_BIB else 96
    add('result-type-other-cose-message', lambda b: edit_asb(b, typ, lambda a: a['results'][0].__setitem__(0, (other, a['results'][0][0][1]))))
    add('algorithm-in-both-buckets', lambda b: edit_msg(b, typ, lambda m: m[1].update({1: 5})))
    add('protected-bucket-not-a-map', lambda b: edit_msg(b, typ, lambda m: m.__setitem__(0, C.dumps([1, 2]))))
    add('unprotected-not-a-map', lambda b: edit_msg(b, typ, lambda m: m.__setitem__(1, [1])))
    add('kid-of-unknown-key', lambda b: edit_msg(b, typ, lambda m: m[1].update({4: b'nobody'})))
    add('kid-removed', lambda b: edit_msg(b, typ, lambda m: m[1].pop(4, None)))
    add('scope-names-absent-block', lambda b: edit_asb(b, typ, lambda a: (a.update(params=[p for p in a['params'] if p[0] != 5] + [(5, {0: 1, -1: 1, 42: 1})], flags=a['flags'] | 1))))
    add('scope-not-a-map', lambda b: edit_asb(b, typ, lambda a: a.update(params=[p for p in a['params'] if p[0] != 5] + [(5, [0, 1])])))
    add('additional-headers-duplicated', lambda b: edit_asb(b, typ, lambda a: a.update(params=a['params'] + [(3, C.dumps({1: 5})), (4, C.dumps({1: 5}))])))
    add('target-content-altered', lambda b: b['blocks'][-1].update(data=b['blocks'][-1]['data'][:-1] + b'\x00'))

    def altered_with_old_content_attached(b):
        # what a key-less node on the path can do: move the protected content into the payload
        # slot of the COSE message and put other octets into the target block
        old = bytes(b['blocks'][-1]['data'])
        edit_msg(b, typ, lambda m: m.__setitem__(2, old))
        b['blocks'][-1].update(data=old[:-1] + bytes([old[-1] ^ 0x20]) if old else b'x')
    add('target-altered-old-content-attached', altered_with_old_content_attached)
    add('security-source-altered', lambda b: edit_asb(b, typ, lambda a: a.update(source='dtn://evil/')))
    if typ == B.T_BIB:
        add('tag-truncated', lambda b: edit_msg(b, typ, lambda m: m.__setitem__(3, m[3][:-1])))
        add('tag-zeroed', lambda b: edit_msg(b, typ, lambda m: m.__setitem__(3, bytes(len(m[3])))))

        def crit(b):
            # a *valid* MAC over a protected bucket that declares an unknown critical header
            plain = copy_bundle(b)
            idx = sec_index(plain, typ)
            asb = B.dec_asb(plain['blocks'][idx]['data'])
            protected = C.dumps({1: 5, 2: [99], 99: 1})
            aad = A.external_aad(plain, plain['blocks'][idx], asb, 1)
            asb['results'][0][0] = (A.COSE_MAC0, A.mac0_result(KEY, KID, aad, plain['blocks'][-1]['data'], protected=protected))
            b['blocks'][idx]['data'] = B.enc_asb(asb)
        add('unknown-critical-header-with-valid-mac', crit)

        def second_bad_bib(b):
            extra = A.add_bib(dict(primary=b['primary'], blocks=[x for x in b['blocks'] if x['type'] != typ]),
                              [3], WRONG_KEY, KID, SRC, scope={0: 1, -1: 1}, num=7)
            b['blocks'].insert(0, extra['blocks'][0])
        add('second-block-fails-first-verifies', second_bad_bib)

        def later_bad_bib(b):
            # the failing block comes *after* the verifying one in block order
            extra = A.add_bib(dict(primary=b['primary'], blocks=[x for x in b['blocks'] if x['type'] != typ]),
                              [3], WRONG_KEY, KID, SRC, scope={0: 1, -1: 1}, num=7)
            idx = sec_index(b, typ)
            b['blocks'].insert(idx + 1, extra['blocks'][0])
        add('later-block-fails-earlier-verifies', later_bad_bib)

        def two_targets_first_bad(b):
            # one block, two targets; the first target's content is altered afterwards
            plain = dict(primary=b['primary'], blocks=[x for x in b['blocks'] if x['type'] != typ])
            both = A.add_bib(plain, [3, 1], KEY, KID, SRC, scope={0: 1, -1: 1}, num=4)
            for x in both['blocks']:
                if x['num'] == 3:
                    x['data'] = x['data'] + b'!'
            b['blocks'] = both['blocks']
        add('first-of-two-targets-altered', two_targets_first_bad)

        def two_targets_last_bad(b):
            plain = dict(primary=b['primary'], blocks=[x for x in b['blocks'] if x['type'] != typ])
            both = A.add_bib(plain, [3, 1], KEY, KID, SRC, scope={0: 1, -1: 1}, num=4)
            both['blocks'][-1]['data'] = both['blocks'][-1]['data'] + b'!'
            b['blocks'] = both['blocks']
        add('last-of-two-targets-altered', two_targets_last_bad)
    else:
        add('iv-removed', lambda b: edit_msg(b, typ, lambda m: m[1].pop(5, None)))
        add('ciphertext-truncated', lambda b: b['blocks'][-1].update(data=b['blocks'][-1]['data'][:-1]))
    return out


# Structural oddities that leave every target verified against its real content: the
# property only forbids delivery when a target does not verify, so these are not judged.
LENIENT = ('extra-result-without-target', 'cose-too-many-items', 'cose-payload-not-detached')


def judge_case(label, data, keymode, accept, expect, report, plain_payload, extra_keys=None):
    (world, delivered, reasons) = c16.receive(data, keymode, accept) if label['block'] == 'bcb' else _recv_bib(data, keymode, accept, extra_keys)
    out = []

    def bad(kind, sig, detail):
        v = Violation(PROP, 'delivery-gate', kind, sig, '%r: %s' % (label, detail)).as_dict()
        v['case'] = dict(label=label, octets=data.hex(), keymode=keymode, accept=accept)
        out.append(v)
    if world.escaped:
        esc = world.escaped[-1]
        bad('exception-escaped-idle-callback', dict(exc=esc[0]), '%s: %s' % (esc[0], esc[2]))
    if expect == 'either':
        pass
    elif expect == 'reject':
        if delivered:
            bad('unverifiable-bundle-delivered', dict(malformation=label['malformation']),
                'application saw %r' % (delivered[0]['blocks'],))
        elif world.api_errors:
            err = world.api_errors[-1]
            if 'decod' not in err[1].lower() and 'CBOR' not in err[0]:
                bad('security-failure-raises-instead-of-deleting', dict(exc=err[0], malformation=label['malformation']),
                    '%s: %s' % (err[0], err[1]))
        elif report and not any(r in SEC_REASONS for r in reasons):
            bad('not-marked-deleted-with-security-reason', dict(malformation=label['malformation']),
                'deletion report reasons %r' % (reasons,))
    else:
        if len(delivered) != 1:
            bad('verifiable-bundle-not-delivered', dict(variant=label['malformation']), 'reasons %r errors %r' % (reasons, world.api_errors[:1]))
        else:
            blocks = delivered[0]['blocks']
            pay = [bytes.fromhex(b[2]) for b in blocks if b[0] == 1]
            want_sec = [] if (accept and label['block'] != 'none') else ([11] if label['block'] == 'bib' else [12] if label['block'] == 'bcb' else [])
            got_sec = sorted(b[0] for b in blocks if b[0] in (11, 12))
            if got_sec != want_sec:
                bad('security-blocks-after-verification', dict(accept=accept), 'blocks %r, expected security blocks %r' % (blocks, want_sec))
            if label['block'] == 'bcb' and not accept:
                pass   # still ciphertext
            elif pay != [plain_payload]:
                bad('delivered-payload-differs', dict(), '%r vs %r' % (pay, plain_payload))
            other = [b for b in blocks if b[0] == 193]
            if [bytes.fromhex(b[2]) for b in other] != [bytes.fromhex(label.get('other_block', b'other-block'.hex()))]:
                bad('other-block-changed', dict(), repr(other))
    return out, bool(delivered)


def _recv_bib(data, keymode, accept, extra_keys=None):
    world = BpWorld(dict(node_id=NODE, rx_routes=[('^dtn://node/.*', 'deliver')], tx_routes=[('.*', 'dtn://next/', None)],
                         accept_after_verify=accept))
    cose = world.cose()
    for (kid, key) in (extra_keys or {}).items():
        key.kid = kid
        cose.sym_key_store[kid] = key
    if keymode == 'right':
        cose.sym_key_store[KID] = sym_key(KEY, ['MacCreateOp', 'MacVerifyOp'], 'HMAC256')
    elif keymode == 'wrong':
        cose.sym_key_store[KID] = sym_key(WRONG_KEY, ['MacCreateOp', 'MacVerifyOp'], 'HMAC256')
    world.receive(data)
    world.quiesce()
    reasons = []
    for octets in world.sent():
        try:
            dec = B.decode(octets)
            if dec['primary']['flags'] & B.FLAG_ADMIN:
                rep = B.dec_status_report(B.payload(dec))
                if rep['status'][3][0]:
                    reasons.append(rep['reason'])
        except Exception:
            pass
    return world, list(world.probe.seen), reasons


def run_block(params, known):
    from .. import env as _env
    _env.load_bp()
    block = params['block']
    violations = []
    kinds = set()
    keys = set()
    count = 0
    samples = []

    def take(found):
        for v in found:
            key = (v['kind'], tuple(sorted(v['signature'].items())))
            if key not in kinds:
                kinds.add(key)
                violations.append(v)
    for report in (True, False):
        if block == 'none':
            base = c03.plain_bundle()
            if not report:
                base['primary'].update(flags=0, report_to='dtn:none')
            plain = base['blocks'][-1]['data']
        elif block == 'bib':
            base = base_bib(report)
            plain = base['blocks'][-1]['data']
        else:
            base = base_bcb(report)
            plain = c16.plaintext(16)
        typ = B.T_BIB if block == 'bib' else B.T_BCB
        for accept in (False, True):
            # valid bundle, right key
            label = dict(block=block, malformation='none', report=report)
            (found, dlv) = judge_case(label, B.encode(base), 'right', accept, 'deliver', report, plain)
            take(found)
            count += 1
            if block == 'none':
                continue
            for keymode in ('wrong', 'none'):
                label = dict(block=block, malformation='key-' + keymode, report=report)
                (found, dlv) = judge_case(label, B.encode(base), keymode, accept, 'reject', report and block == 'bib' or report, plain)
                take(found)
                count += 1
                keys.add('%s/key-%s/%s/%s' % (block, keymode, accept, report))
            for (mname, fn) in malformations(typ):
                bundle = copy_bundle(base)
                try:
                    fn(bundle)
                    data = B.encode(bundle)
                except Exception as err:
                    raise RuntimeError('malformation %s cannot be built: %s' % (mname, err))
                label = dict(block=block, malformation=mname, report=report)
                expect = 'either' if mname in LENIENT else 'reject'
                (found, dlv) = judge_case(label, data, 'right', accept, expect, report, plain)
                take(found)
                count += 1
                keys.add('%s/%s/%s/%s' % (block, mname, accept, report))
                if len(samples) < 2 and mname in ('duplicate-result-ids', 'cose-too-few-items'):
                    samples.append(dict(label=label, octets=data.hex()))
    if block == 'bib':
        # a valid integrity block whose AAD scope names more than the default: block 3 by its metadata,
        # its content or both; the target / the security block with both flags.  Intact: delivered.
        # Content of block 3 replaced on the way: rejected exactly when the scope covers that content.
        for scope in ({0: 1, -1: 1, 3: 1}, {0: 1, -1: 1, 3: 2}, {0: 1, -1: 1, 3: 3}, {3: 3}, {0: 1, -1: 3}, {0: 1, -1: 1, -2: 1}, {-1: 2, 3: 2}):
            plainb = c03.plain_bundle()
            good = A.add_bib(plainb, [1], KEY, KID, SRC, scope=scope, num=4)
            forged = copy_bundle(good)
            for b in forged['blocks']:
                if b['num'] == 3:
                    b['data'] = b'OTHER-block'
            for accept in (False, True):
                sname = ','.join('%d:%d' % kv for kv in sorted(scope.items()))
                label = dict(block=block, malformation='none', report=True, scope=sname)
                (found, dlv) = judge_case(label, B.encode(good), 'right', accept, 'deliver', True, plainb['blocks'][-1]['data'])
                take(found)
                covered = bool(scope.get(3, 0) & 2)
                label = dict(block=block, malformation='covered-block-content-replaced' if covered else 'uncovered-block-content-replaced',
                             report=True, scope=sname, other_block=b'OTHER-block'.hex())
                (found, dlv) = judge_case(label, B.encode(forged), 'right', accept, 'reject' if covered else 'deliver', True,
                                          plainb['blocks'][-1]['data'])
                take(found)
                count += 2
                keys.add('bib/scope-%s/%s' % (sname, accept))
    if block == 'bib':
        # additional protected headers (parameter 3) are bound as the octets that were sent: a block whose
        # parameter 3 is encoded in another way than a sorting / shortest-form encoder would choose verifies,
        # and re-encoding that parameter on the way (same map, other octets) breaks it
        forms = {'shortest': b'\xa1\x03\x00', 'indefinite-map': b'\xbf\x03\x00\xff', 'long-head': b'\xa1\x18\x03\x00', 'empty-map': b'\xa0'}
        for (fname, octets) in forms.items():
            plainb = c03.plain_bundle()
            good = A.add_bib(plainb, [1], KEY, KID, SRC, scope={0: 1, -1: 1}, num=4, protected_params=octets)
            for accept in (False, True):
                label = dict(block=block, malformation='none', report=True, additional_protected=fname)
                (found, dlv) = judge_case(label, B.encode(good), 'right', accept, 'deliver', True, plainb['blocks'][-1]['data'])
                take(found)
                count += 1
                keys.add('bib/param3-%s/%s' % (fname, accept))
                for (oname, other) in forms.items():
                    if other == octets or (fname == 'empty-map') != (oname == 'empty-map'):
                        continue
                    swapped = copy_bundle(good)
                    edit_asb(swapped, B.T_BIB, lambda a: a.update(params=[(pid, (other if pid == 3 else val)) for (pid, val) in a['params']]))
                    label = dict(block=block, malformation='additional-protected-reencoded-%s-to-%s' % (fname, oname), report=True)
                    (found, dlv) = judge_case(label, B.encode(swapped), 'right', accept, 'reject', True, plainb['blocks'][-1]['data'])
                    take(found)
                    count += 1
    if block == 'bib':
        # one integrity block, two targets, each result made with a key of its own: verifies when the receiver holds
        # both keys; a result that names one key and was made with the other, or names a key the receiver lacks, fails
        KEY2 = bytes(range(200, 232))
        KID2 = b'second-key'
        plainb = c03.plain_bundle()
        other = [b['num'] for b in plainb['blocks'] if b['type'] == 193][0]
        for (vname, per, have_second, expect) in (
                ('two-keys', [(KEY, KID), (KEY2, KID2)], True, 'deliver'),
                ('two-keys-swapped', [(KEY2, KID2), (KEY, KID)], True, 'deliver'),
                ('second-result-names-a-key-it-was-not-made-with', [(KEY, KID), (KEY, KID2)], True, 'reject'),
                ('first-result-names-a-key-it-was-not-made-with', [(KEY2, KID), (KEY2, KID2)], True, 'reject'),
                ('second-key-unknown-to-the-receiver', [(KEY, KID), (KEY2, KID2)], False, 'reject')):
            bundle = A.add_bib(plainb, [1, other], KEY, KID, SRC, scope={0: 1, -1: 1}, num=4, per_target=per)
            for accept in (False, True):
                label = dict(block=block, malformation=('none' if expect == 'deliver' else vname), report=True, keys=vname)
                extra = {KID2: sym_key(KEY2, ['MacCreateOp', 'MacVerifyOp'], 'HMAC256')} if have_second else {}
                (found, dlv) = judge_case(label, B.encode(bundle), 'right', accept, expect, True, plainb['blocks'][-1]['data'], extra_keys=extra)
                take(found)
                count += 1
                keys.add('bib/%s/%s' % (vname, accept))
        # the payload is an administrative record written in another way than a shortest-form encoder would (an
        # indefinite-length array): the integrity block covers those octets; delivered unchanged, and a re-encoding on
        # the way (same record, other octets) breaks it
        record = B.enc_status_report([(True, None), (False, None), (False, None), (False, None)], 0, 'dtn://elsewhere/app', (700000000001, 3))
        loose = b'\x9f' + record[1:] + b'\xff'
        for (pname, sent, altered) in (('shortest-form', record, loose), ('indefinite-array', loose, record)):
            plainb = c03.plain_bundle()
            plainb['primary']['flags'] |= B.FLAG_ADMIN
            plainb['blocks'][-1]['data'] = sent
            good = A.add_bib(plainb, [1], KEY, KID, SRC, scope={0: 1, -1: 1}, num=4)
            swapped = copy_bundle(good)
            swapped['blocks'][-1]['data'] = altered
            for accept in (False, True):
                label = dict(block=block, malformation='none', report=True, record=pname)
                (found, dlv) = judge_case(label, B.encode(good), 'right', accept, 'deliver', True, sent)
                take(found)
                label = dict(block=block, malformation='administrative-record-reencoded-on-the-way', report=True, record=pname)
                (found, dlv) = judge_case(label, B.encode(swapped), 'right', accept, 'reject', True, sent)
                take(found)
                count += 2
                keys.add('bib/admin-record-%s/%s' % (pname, accept))
    if block == 'bcb':
        # a bundle whose security blocks all verify is delivered: confidentiality blocks over empty
        # and one-octet contents, one and two targets
        for (length, with_ext) in itertools.product((0, 1), (False, True)):
            for accept in (False, True):
                data = c16.source_encrypt('enc0', length, with_ext)
                label = dict(block=block, malformation='none', report=True, plaintext_length=length, two_targets=with_ext)
                (found, dlv) = judge_case(label, data, 'right', accept, 'deliver', True, c16.plaintext(length))
                take(found)
                count += 1
                keys.add('bcb/valid-len%d-ext%s/%s' % (length, with_ext, accept))
    kn, out_v = [], []
    for v in violations:
        ent = known.match(v) if known is not None else None
        (kn if ent else out_v).append(dict(v, entry=ent) if ent else v)
    return dict(name=params['name'], evaluations=count, nontrivial_keys=sorted(keys), violations=out_v, known=kn, samples=samples)


def run_pairs(params, known):
    '''Two malformations applied one after the other to the same security block (every ordered
    pair), with the right key, and every single malformation with a wrong key and with no key.'''
    from .. import env as _env
    _env.load_bp()
    block = params['block']
    (part, parts) = (params['part'], params['parts'])
    typ = B.T_BIB if block == 'bib' else B.T_BCB
    violations = []
    kinds = set()
    keys = set()
    count = 0
    skipped = 0

    def take(found):
        for v in found:
            key = (v['kind'], tuple(sorted(v['signature'].items())))
            if key not in kinds:
                kinds.add(key)
                violations.append(v)
    menu = malformations(typ)
    for report in (True, False):
        base = base_bib(report) if block == 'bib' else base_bcb(report)
        plain = base['blocks'][-1]['data'] if block == 'bib' else c16.plaintext(16)
        for accept in (False, True):
            for (i, (n1, f1)) in enumerate(menu):
                if i % parts != part:
                    continue
                for keymode in ('wrong', 'none'):
                    bundle = copy_bundle(base)
                    f1(bundle)
                    label = dict(block=block, malformation='%s+key-%s' % (n1, keymode), report=report)
                    (found, _d) = judge_case(label, B.encode(bundle), keymode, accept, 'reject', report, plain)
                    take(found)
                    count += 1
                only1 = copy_bundle(base)
                f1(only1)
                only1 = B.encode(only1)
                for (n2, f2) in menu:
                    if n2 == n1:
                        continue
                    # Only pairs whose two edits are both still visible in the result whatever the
                    # order (they commute and the result differs from either edit alone): an edit
                    # that rewrites what the other one damaged could repair it.
                    try:
                        (b12, b21, b2) = (copy_bundle(base), copy_bundle(base), copy_bundle(base))
                        f1(b12)
                        f2(b12)
                        f2(b21)
                        f1(b21)
                        f2(b2)
                        data = B.encode(b12)
                        if data != B.encode(b21) or data in (only1, B.encode(b2), B.encode(base)):
                            skipped += 1
                            continue
                        nums = [x['num'] for x in b12['blocks']]
                        if len(set(nums)) != len(nums):
                            skipped += 1     # not a security malformation any more: duplicate block numbers
                            continue
                    except Exception:
                        skipped += 1     # the second edit has nothing left to work on
                        continue
                    label = dict(block=block, malformation='%s+%s' % (n1, n2), report=report)
                    expect = 'either' if (n1 in LENIENT or n2 in LENIENT) else 'reject'
                    (found, _d) = judge_case(label, data, 'right', accept, expect, report, plain)
                    take(found)
                    count += 1
                    keys.add('%s/%s+%s/%s/%s' % (block, n1, n2, accept, report))
    kn, out_v = [], []
    for v in violations:
        ent = known.match(v) if known is not None else None
        (kn if ent else out_v).append(dict(v, entry=ent) if ent else v)
    return dict(name=params['name'], evaluations=count, nontrivial_keys=sorted(keys), violations=out_v, known=kn,
                samples=[dict(pairs_not_judged_because_edits_interfere=skipped)])


def scenarios(tier):
    out = [dict(name='block-%s' % b, kind='enum', runner='run_block', params=dict(name='block-%s' % b, block=b), weight=1)
           for b in ('bib', 'bcb', 'none')]
    # asymmetric keys: valid signatures by holders of certificates that do not bind the key to the security source
    out.append(dict(name='sign1-wrong-certificate', kind='enum', runner='run_wrong_cert',
                    params=dict(name='sign1-wrong-certificate', pems=c03.make_pems(), prop=PROP), weight=1))
    if tier == 'thorough':
        parts = 8
        for b in ('bib', 'bcb'):
            for part in range(parts):
                nm = 'pairs-%s-%d/%d' % (b, part + 1, parts)
                out.append(dict(name=nm, kind='enum', runner='run_pairs', params=dict(name=nm, block=b, part=part, parts=parts), weight=5))
    return out


ASSUMPTIONS = [
    'trusted base: pycose and cryptography primitives',
    'wrong key, asymmetric case (shared with C03): COSE_Sign1 by x5chain under four certificates that do not bind the key to the security source (other NODE-ID, no SAN, DNS SAN only, issuer not trusted)',
    'valid integrity blocks are produced by the independent HMAC/AAD producer, valid confidentiality blocks by the real transmit chain (COSE_Encrypt0)',
    'thorough tier: every pair of different malformations on the same block whose edits commute and both remain visible (an edit that rewrites what the other damaged could repair it; such pairs are skipped), and every malformation with a wrong key and with no key',
    '37 (BIB) / 32 (BCB) malformations applied to the independently decoded structure; x right/wrong/no key x accept on/off x deletion report requested or not',
    'three structural oddities that still leave every target verified against its real content (an extra result, extra COSE array items, an attached payload that is ignored) are executed but not judged',
    'a bundle the agent cannot decode at all counts as not delivered',
]

RULE = ('finite menu of security-block malformations x key stores x acceptance flag x report request enumerated; the probe '
        'application after the security steps must not see a malformed bundle and the deletion report must carry a '
        'security reason; non-trivial = malformed or wrong-key case; distinct by (block kind, malformation, flags)')


def evidence(tier, seed, scens, results, wall_s):
    return enum_evidence(PROP, 'fault_enumeration', tier, seed, scens, results, wall_s, ASSUMPTIONS, RULE)


def replay_case(body, verbose=False):
    case = body['case']
    label = case['label']
    data = bytes.fromhex(case['octets'])
    (world, delivered, reasons) = (c16.receive if label['block'] == 'bcb' else _recv_bib)(data, case['keymode'], case['accept'])
    print('%r: delivered=%d deletion reasons=%r errors=%r' % (label, len(delivered), reasons, [e[:2] for e in world.api_errors]))
    print('recorded: %s' % body['violation']['kind'])
    return 1
