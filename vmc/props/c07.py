'''C07 - TCPCL message framing is independent of how TCP chunks the stream.

Part 1 (state graph per stream): for a stream S of n octets the graph has one
node per number of octets delivered.  S_k is built by delivering one octet at
a time; then *every* edge "from S_k deliver the next j octets" (all k, all
j >= 1) is executed on the real endpoint and must land on exactly S_{k+j}
(same canonical state, same octets written, same signals).  Every one of the
2^(n-1) chunkings is a path of that graph, so all are covered.  On S_k the
independent framer says which messages are complete: observations may change
only at message ends, must change at the end of every message that has a
reaction, and the receive buffer must hold exactly the octets of the partial
tail.

Part 2 (codec differential): every message the implementation encodes decodes
to the same fields by the independent decoder and vice versa.'''
import itertools

from ..peer_world import PeerWorld, PATH, IFACE
from ..world import Violation, HarnessError
from ..oracle import tcpclv4 as T
from ..evidence import graph_evidence
from .. import env as _env
from .c17 import run_same_read  # noqa: F401  (adversarial message pairs in one read vs. two, judged here for equality)

PROP = 'C07'


def build(params):
    return PeerWorld(params)


# ---------------------------------------------------------------------------
# message menu (peer -> R), each entry: (label, octets, reactive?)

def menu():
    tl = T.ext_total_length
    unk_ext = (0, 0x7777, b'\x01\x02')
    items = [
        ('seg-SE-0', T.enc_segment(3, 1, b'', [tl(0)]), True),
        ('seg-SE-1', T.enc_segment(3, 1, b'\x11', [tl(1)]), True),
        ('seg-SE-3-ext2', T.enc_segment(3, 2, b'\x21\x22\x23', [tl(3), unk_ext]), True),
        ('seg-S-2', T.enc_segment(2, 3, b'\x31\x32', [tl(3)]), True),
        ('seg-E-1', T.enc_segment(1, 3, b'\x33'), True),
        ('seg-SE-noext', T.enc_segment(3, 4, b'\x41'), True),
        # reserved bits of the flags octet are set (a later protocol revision may use them): they are ignored
        ('seg-S-2-reserved-bits', T.enc_segment(0x82, 6, b'\x51\x52', [tl(3)]), True),
        ('seg-E-1-reserved-bits', T.enc_segment(0x41, 6, b'\x53'), True),
        # the extension list is exactly one item of a type nobody knows, not critical, with a value
        ('seg-SE-one-unknown-ext', T.enc_segment(3, 7, b'\x61', [unk_ext]), True),
        ('ack-unknown', T.enc_ack(1, 9, 5), True),
        ('refuse-unknown', T.enc_refuse(2, 9), True),
        ('keepalive', T.enc_keepalive(), False),
        ('sess-term', T.enc_sess_term(0, 1), True),
        ('reject', T.enc_reject(4, 3), False),
    ]
    return items


def sess_inits():
    return [
        ('init-n9', T.enc_sess_init(0, 4, 100, b'dtn://p/x')),
        ('init-n0', T.enc_sess_init(3, 2 ** 64 - 1, 2 ** 64 - 1, b'')),
        ('init-n1-ext', T.enc_sess_init(0, 4, 100, b'z', [(0, 0x7777, b'\xaa'), (0, 0x7778, b'')])),
        ('init-one-unknown-ext', T.enc_sess_init(0, 4, 100, b'y', [(0, 0x7777, b'\xaa')])),
    ]


def streams(tier):
    '''(name, role, octets, reactive flags per message incl. header)'''
    out = []
    mn = menu()
    inits = sess_inits()
    ch = T.enc_contact(0)
    depth = 2
    seqs = []
    for n in range(0, depth + 1):
        for combo in itertools.product(range(len(mn)), repeat=n):
            seqs.append(combo)
    if tier != 'thorough':
        # quick: all single messages, and pairs in which the first is a segment or a terminator
        keep = []
        for combo in seqs:
            if len(combo) <= 1:
                keep.append(combo)
            elif mn[combo[0]][0] in ('seg-S-2', 'seg-SE-1', 'sess-term', 'keepalive') and combo[1] % 2 == 0:
                keep.append(combo)
        seqs = keep
    for (k, combo) in enumerate(seqs):
        (iname, ibytes) = inits[k % len(inits)] if tier != 'thorough' else inits[0]
        data = ch + ibytes + b''.join(mn[i][1] for i in combo)
        name = 'passive/%s/%s' % (iname, '+'.join(mn[i][0] for i in combo) or 'none')
        out.append(dict(name=name, role='passive', stream=data.hex()))
    if tier == 'thorough':
        for (iname, ibytes) in inits[1:]:
            for idx in range(len(mn)):
                data = ch + ibytes + mn[idx][1]
                out.append(dict(name='passive/%s/%s' % (iname, mn[idx][0]), role='passive', stream=data.hex()))
    # field values no enumeration of the repository names: SESS_TERM reason codes outside the registered ones,
    # MSG_REJECT with an unregistered reason, each followed by further complete messages
    for (nm, first) in (('sess-term-reason-0x40', T.enc_sess_term(0, 0x40)), ('sess-term-reason-0xff-reply', T.enc_sess_term(1, 0xFF)),
                        ('msg-reject-of-type-0x40', T.enc_reject(0x40, 3)), ('msg-reject-reason-0x40', T.enc_reject(3, 0x40))):
        for follow in (T.enc_keepalive(), T.enc_segment(3, 5, b'ab', [T.ext_total_length(2)]) + T.enc_keepalive()):
            data = ch + inits[0][1] + first + follow
            out.append(dict(name='passive/%s/%s+%d-octets' % (inits[0][0], nm, len(follow)), role='passive', stream=data.hex()))
    # a transfer whose END segment carries no data, followed by nothing / by a further message
    tl = T.ext_total_length
    for (nm, tail) in (('empty-end-segment', b''), ('empty-end-segment+keepalive', T.enc_keepalive()),
                       ('empty-end-segment+next-transfer', T.enc_segment(3, 8, b'', [tl(0)]))):
        data = ch + inits[0][1] + T.enc_segment(2, 7, b'ab', [tl(2)]) + T.enc_segment(1, 7, b'') + tail
        out.append(dict(name='passive/%s/%s' % (inits[0][0], nm), role='passive', stream=data.hex()))
    # the endpoint offers TLS (its default), the peer does not: the session goes on in the clear and whatever follows
    # the peer's contact header - in the same read or not - is the first message
    for role in ('passive', 'active'):
        for combo in ((), (1,), (3, 4)):
            data = ch + inits[0][1] + b''.join(mn[i][1] for i in combo)
            out.append(dict(name='%s/tls-offered-not-taken/%s' % (role, '+'.join(mn[i][0] for i in combo) or 'none'),
                            role=role, stream=data.hex(), tls_enable=True))
    # the active role: R has sent its header first and waits for the peer's
    for (iname, ibytes) in inits:
        for combo in [(), (1,), (3, 4), (9,)]:
            data = ch + ibytes + b''.join(mn[i][1] for i in combo)
            out.append(dict(name='active/%s/%s' % (iname, '+'.join(mn[i][0] for i in combo) or 'none'),
                            role='active', stream=data.hex()))
    # R has its own transfer outstanding: ACK / REFUSE of a known transfer
    for tail in (T.enc_ack(3, 1, 2), T.enc_refuse(1, 1), T.enc_ack(3, 1, 2) + T.enc_sess_term(0, 0)):
        # the peer can only acknowledge / refuse after R has sent its segment: the
        # negotiation part is delivered first (whole), the tail is chunked in every way
        out.append(dict(name='passive/queued/%s' % tail.hex()[:12], role='passive', stream=tail.hex(),
                        pre=(ch + inits[0][1]).hex(), queued=['7172']))
    return out


REACTIVE = {'SESS_INIT', 'XFER_SEGMENT', 'XFER_ACK', 'XFER_REFUSE', 'SESS_TERM', 'CONTACT'}


ENDING = ('session_state_changed', 'ending')


def obs(world):
    return (world.out_octets, tuple(world.signals), world.r_closed(), len(world.escaped))


def run_stream(params, known):
    '''Scenario runner for one stream (kind "enum" in the driver, but the work
    is a complete state graph over delivered-octet counts).'''
    stream = bytes.fromhex(params['stream'])
    n = len(stream)
    wparams = dict(role=params['role'], queued=tuple(params.get('queued', ())), seg_mru=64, tx_init=64, tls_enable=params.get('tls_enable', False))
    # the independent framer
    sp = T.StreamParser()
    if params.get('pre'):
        sp.feed(bytes.fromhex(params['pre']))
    ends = []
    kinds = []
    pos = 0
    for k in range(n):
        for msg in sp.feed(stream[k:k + 1]):
            ends.append(k + 1)
            kinds.append(msg['kind'])
    if sp.buf:
        raise HarnessError('menu stream does not end on a message boundary')
    violations = []

    def viol(kind, sig, detail, case):
        v = Violation(PROP, 'framing', kind, sig, detail).as_dict()
        v['case'] = case
        violations.append(v)

    # reference chain: one octet at a time
    w = PeerWorld(wparams)
    if params.get('pre'):
        w.peer_write(bytes.fromhex(params['pre']))
        w.quiesce()
        sp0 = T.StreamParser()
        sp0.feed(bytes.fromhex(params['pre']))
    chain = [w]
    digests = [w.digest()]
    observations = [obs(w)]
    bufused = [w.recv_buffer_used()]
    transitions = 0
    for k in range(n):
        nw = chain[-1].snapshot()
        nw.peer_write(stream[k:k + 1])
        nw.quiesce()
        transitions += 1
        chain.append(nw)
        digests.append(nw.digest())
        observations.append(obs(nw))
        bufused.append(nw.recv_buffer_used() if not nw.r_closed() else None)
    # oracle on the chain
    last_end = 0
    closed_at = None
    for k in range(1, n + 1):
        if observations[k][2] and closed_at is None:
            closed_at = k
        if observations[k][3] > observations[k - 1][3]:
            esc = chain[k].escaped[-1]
            viol('exception-escaped-receive-path', dict(exc=esc[0]),
                 'after octet %d of %s: %s: %s\n%s' % (k, params['name'], esc[0], esc[2], esc[3]),
                 dict(stream=params['stream'], role=params['role'], pre=params.get('pre'), queued=params.get('queued', []), cuts=list(range(1, k + 1))))
            break
        if k in ends:
            idx = ends.index(k)
            if kinds[idx] in REACTIVE and observations[k] == observations[k - 1] and closed_at is None:
                viol('complete-message-not-acted-on', dict(msg=kinds[idx]),
                     '%s complete at octet %d of %s but nothing observable happened' % (kinds[idx], k, params['name']),
                     dict(stream=params['stream'], role=params['role'], pre=params.get('pre'), queued=params.get('queued', []), cuts=list(range(1, k + 1))))
            last_end = k
        else:
            if observations[k] != observations[k - 1]:
                viol('acted-on-incomplete-message', dict(),
                     'observable change at octet %d of %s which is inside a message (previous boundary %d)'
                     % (k, params['name'], last_end),
                     dict(stream=params['stream'], role=params['role'], pre=params.get('pre'), queued=params.get('queued', []), cuts=list(range(1, k + 1))))
        if closed_at is None and bufused[k] is not None and bufused[k] != k - last_end:
            viol('receive-buffer-occupancy', dict(),
                 'after %d octets of %s the receive buffer holds %d octets, the partial tail is %d'
                 % (k, params['name'], bufused[k], k - last_end),
                 dict(stream=params['stream'], role=params['role'], pre=params.get('pre'), queued=params.get('queued', []), cuts=list(range(1, k + 1))))
        if closed_at is not None:
            break
    # confluence edges: from S_k deliver j >= 2 octets at once
    horizon = n if closed_at is None else closed_at
    closing_time_differs = 0
    if not violations:
        for k in range(0, horizon):
            for j in range(2, horizon - k + 1):
                nw = chain[k].snapshot()
                nw.peer_write(stream[k:k + j])
                nw.quiesce()
                transitions += 1
                if nw.digest() != digests[k + j] or obs(nw) != observations[k + j]:
                    (got, ref) = (obs(nw), observations[k + j])
                    if ENDING in got[1] and ENDING in ref[1] and (got[0], got[1], got[3]) == (ref[0], ref[1], ref[3]):
                        # Once the endpoint is terminating, the moment it closes depends on whether its
                        # own SESS_TERM has left the transmit buffer when the next message is handled
                        # (transmit progress, not framing): the same messages were acted on with the
                        # same output and signals, which is all this property speaks about.
                        closing_time_differs += 1
                        continue
                    what = 'state' if obs(nw) == observations[k + j] else 'observable behaviour'
                    viol('chunking-changes-behaviour', dict(),
                         '%s after delivering octets [%d,%d) of %s in one read differs from octet-by-octet delivery'
                         % (what, k, k + j, params['name']),
                         dict(stream=params['stream'], role=params['role'], pre=params.get('pre'), queued=params.get('queued', []), cuts=list(range(1, k + 1)) + [k + j]))
                    break
            if violations:
                break
    kn = []
    out_v = []
    for v in violations:
        ent = known.match(v) if known is not None else None
        if ent is not None:
            kn.append(dict(v, entry=ent))
        else:
            out_v.append(v)
    return dict(name=params['name'], states=horizon + 1, transitions=transitions, stream_octets=n,
                messages=len(ends), violations=out_v, known=kn, closing_time_differs=closing_time_differs,
                sample=dict(stream=params['stream'], role=params['role'], boundaries=ends, kinds=kinds))


# ---------------------------------------------------------------------------
# codec differential

def run_codec(params, known):
    ns = _env.load_tcpcl('A')
    M = ns.messages
    C = ns.contact
    E = ns.extend
    violations = []
    count = 0
    samples = []

    def viol(kind, detail, case):
        v = Violation(PROP, 'codec', kind, dict(), detail).as_dict()
        v['case'] = case
        violations.append(v)

    u8 = [0, 1, 255]
    u16 = [0, 1, 255, 256, 65535]
    u64 = [0, 1, 255, 256, 65535, 65536, 2 ** 32 - 1, 2 ** 32, 2 ** 64 - 1]
    datas = [b'', b'\x00', b'abcde', bytes(range(256)), b'\xff' * 300]
    nodeids = ['', 'x', 'dtn://n/', 'dtn://' + 'n' * 300 + '/', 'dtn://n\u00f6de/', '\u20ac' * 100]

    def impl_ext(items, cls):
        out = []
        for (flags, typ, value) in items:
            if typ == 1 and cls is M.TransferExtendHeader:
                out.append(cls(flags=flags) / E.TransferTotalLength(total_length=int.from_bytes(value, 'big')))
            else:
                from scapy.packet import Raw
                out.append(cls(flags=flags, type=typ) / Raw(value))
        return out

    def check(label, impl_pkt, oracle_bytes, fields):
        '''impl encode == oracle encode; oracle decodes impl bytes to `fields`;
        impl decodes oracle bytes and re-encodes identically.'''
        nonlocal count
        count += 1
        enc = bytes(impl_pkt)
        case = dict(label=label, impl=enc.hex(), oracle=oracle_bytes.hex())
        if enc != oracle_bytes:
            viol('encoding-differs-from-rfc9174', '%s: implementation wrote %s, independent encoder %s'
                 % (label, enc.hex()[:120], oracle_bytes.hex()[:120]), case)
            return
        try:
            (msgs, rest) = T.parse_all(enc, with_contact=(label.startswith('contact')))
        except Exception as err:
            viol('independent-decoder-rejects', '%s: %s' % (label, err), case)
            return
        if rest or len(msgs) != 1:
            viol('independent-decoder-framing', '%s: %d messages, %d octets left' % (label, len(msgs), len(rest)), case)
            return
        got = {k: v for (k, v) in msgs[0].items() if k not in ('raw',)}
        if got != fields:
            viol('fields-differ', '%s: independent decoder reads %r, expected %r' % (label, got, fields), case)
            return
        # and back: implementation decodes the independent encoding
        try:
            if label.startswith('contact'):
                back = C.Head(oracle_bytes)
            else:
                back = M.MessageHead(oracle_bytes)
            again = bytes(back)
        except Exception as err:
            viol('implementation-rejects-valid-encoding', '%s: %s: %s' % (label, type(err).__name__, err), case)
            return
        if again != oracle_bytes:
            viol('decode-reencode-differs', '%s: %s -> %s' % (label, oracle_bytes.hex()[:120], again.hex()[:120]), case)
        if len(samples) < 6 and count % 97 == 1:
            samples.append(case)

    for flags in (0, 1):
        check('contact-f%d' % flags, C.Head() / C.ContactV4(flags=flags), T.enc_contact(flags),
              dict(kind='CONTACT', magic=b'dtn!', version=4, flags=flags))
    exts_t = [[], [(0, 1, (5).to_bytes(8, 'big'))], [(1, 1, (2 ** 64 - 1).to_bytes(8, 'big')), (0, 0x7777, b'\x01\x02')]]
    for flags in (0, 1, 2, 3):
        for tid in u64:
            for data in datas:
                for ext in (exts_t if flags & 2 else [[]]):
                    pkt = M.MessageHead() / M.TransferSegment(flags=flags, transfer_id=tid, data=data,
                                                               ext_items=impl_ext(ext, M.TransferExtendHeader))
                    check('segment', pkt, T.enc_segment(flags, tid, data, ext),
                          dict(kind='XFER_SEGMENT', flags=flags, transfer_id=tid, ext=[tuple(e) for e in ext], data=data))
    for flags in (0, 1, 2, 3):
        for tid in u64:
            for length in u64:
                check('ack', M.MessageHead() / M.TransferAck(flags=flags, transfer_id=tid, length=length),
                      T.enc_ack(flags, tid, length), dict(kind='XFER_ACK', flags=flags, transfer_id=tid, length=length))
    for reason in (0, 1, 2, 3, 4, 5, 200):
        for tid in u64:
            check('refuse', M.MessageHead() / M.TransferRefuse(reason=reason, transfer_id=tid),
                  T.enc_refuse(reason, tid), dict(kind='XFER_REFUSE', reason=reason, transfer_id=tid))
    check('keepalive', M.MessageHead() / M.Keepalive(), T.enc_keepalive(), dict(kind='KEEPALIVE'))
    for flags in (0, 1):
        for reason in (0, 1, 2, 3, 4, 5, 99):
            check('sess-term', M.MessageHead() / M.SessionTerm(flags=flags, reason=reason),
                  T.enc_sess_term(flags, reason), dict(kind='SESS_TERM', flags=flags, reason=reason))
    for rid in u8:
        for reason in (1, 2, 3):
            check('reject', M.MessageHead() / M.RejectMsg(rej_msg_id=rid, reason=reason),
                  T.enc_reject(rid, reason), dict(kind='MSG_REJECT', rej_msg_id=rid, reason=reason))
    exts_s = [[], [(0, 0x7777, b'')], [(1, 0x7777, b'\x01'), (0, 0x7778, b'xyz')]]
    for ka in u16:
        for smru in (0, 1, 65536, 2 ** 64 - 1):
            for tmru in (0, 2 ** 32, 2 ** 64 - 1):
                for nid in nodeids:
                    for ext in exts_s:
                        pkt = M.MessageHead() / M.SessionInit(keepalive=ka, segment_mru=smru, transfer_mru=tmru,
                                                              nodeid_data=nid, ext_items=impl_ext(ext, M.SessionExtendHeader))
                        check('sess-init', pkt, T.enc_sess_init(ka, smru, tmru, nid, ext),
                              dict(kind='SESS_INIT', keepalive=ka, segment_mru=smru, transfer_mru=tmru,
                                   node_id=nid.encode('utf-8'), ext=[tuple(e) for e in ext]))
    return dict(name='codec', evaluations=count, violations=violations, known=[], samples=samples)


def _short_write_run(role, size, seg, cap):
    body = bytes((i * 5 + 1) & 0xFF for i in range(size))
    w = PeerWorld(dict(role=role, seg_mru=64, tx_init=seg, queued=()))
    w.conns[0].capacity = cap
    w.peer_write(T.enc_contact(0) + T.enc_sess_init(0, seg, 1000, b'dtn://p/'))
    w.quiesce()
    res = w.bus_call(w.proc, PATH, 'send_bundle_data', body, iface=IFACE)
    w.quiesce()
    w.peer_write(T.enc_ack(3, 1, size))
    w.quiesce()
    w.peer_write(T.enc_sess_term(0, 3))
    w.quiesce()
    return w


def run_short_writes(params, known):
    """The octets the endpoint puts on the wire when its socket takes only `cap` octets per send() (every write is
    short; the scripted peer reads after each callback): they must be the same octets as with a socket that takes
    everything at once, and the independent decoder must frame them completely.  Roles x queued bundle sizes x
    segment sizes x cap, with the peer acknowledging and then terminating."""
    violations = []
    kinds = set()
    count = 0
    keys = set()

    def viol(kind, detail, case):
        if kind in kinds:
            return
        kinds.add(kind)
        v = Violation(PROP, 'short-writes', kind, dict(), '%r: %s' % (case, detail)).as_dict()
        v['case'] = case
        violations.append(v)


    for role in ('passive', 'active'):
        for (size, seg) in ((5, 64), (40, 64), (40, 4), (130, 64)):
            ref = _short_write_run(role, size, seg, None)
            for cap in (1, 2, 3, 7, 16, 63):
                count += 1
                case = dict(role=role, bundle=size, segment_size=seg, socket_takes=cap)
                w = _short_write_run(role, size, seg, cap)
                if w.escaped:
                    viol('exception-escaped-callback', '%s: %s' % (w.escaped[-1][0], w.escaped[-1][2]), case)
                    continue
                try:
                    (msgs, rest) = T.parse_all(w.out_octets, with_contact=True)
                except Exception as err:
                    viol('independent-decoder-rejects', '%s; wire %s' % (err, w.out_octets.hex()[:160]), case)
                    continue
                if rest:
                    viol('independent-decoder-framing', '%d octets left after %d messages' % (len(rest), len(msgs)), case)
                    continue
                if w.out_octets != ref.out_octets:
                    viol('wire-differs-under-short-writes', 'with short writes %s, with full writes %s'
                         % (w.out_octets.hex()[:200], ref.out_octets.hex()[:200]), case)
                    continue
                keys.add('%s/%d/%d/%d/%d' % (role, size, seg, cap, len(msgs)))
    return dict(name=params['name'], evaluations=count, nontrivial_keys=sorted(keys), violations=violations, known=[], samples=[])



# ---------------------------------------------------------------------------
# long streams, boundary-directed cuts

def run_long(params, known):
    '''Single large messages: cuts at every position within 3 octets of a field
    or message boundary plus CHUNK-sized pieces; the graph over that cut set is
    explored completely (every pair of cut positions is an edge).'''
    size = params['size']
    if params.get('fit'):
        # the whole XFER_SEGMENT message is exactly `fit` octets (one or two full reads of the endpoint)
        size = params['fit'] - len(T.enc_segment(3, 1, b'', [T.ext_total_length(params['fit'])]))
    body = bytes((i * 7 + 3) & 0xFF for i in range(size))
    ch = T.enc_contact(0)
    init = T.enc_sess_init(0, 2 ** 32, 2 ** 32, b'n' * params.get('nodeid', 5))
    seg = T.enc_segment(3, 1, body, [T.ext_total_length(len(body))])
    tail = T.enc_keepalive()
    stream = ch + init + seg + tail
    marks = set()
    bounds = [0, len(ch), len(ch) + len(init)]
    seg0 = len(ch) + len(init)
    hdr = len(seg) - len(body)
    bounds += [seg0 + 1, seg0 + 2, seg0 + 10, seg0 + 14, seg0 + hdr - 8, seg0 + hdr, seg0 + len(seg), len(stream)]
    for b in bounds:
        for d in range(-3, 4):
            if 0 <= b + d <= len(stream):
                marks.add(b + d)
    step = params.get('chunk', 10240)
    for pos in range(seg0, len(stream), step):
        marks.add(pos)
    marks.add(seg0 + hdr + len(body) // 2)
    marks = sorted(marks)
    wparams = dict(role='passive', seg_mru=2 ** 32, tx_init=64)
    violations = []
    chain = {}
    w = PeerWorld(wparams)
    chain[0] = w
    prev = 0
    transitions = 0
    for m in marks[1:]:
        nw = chain[prev].snapshot()
        nw.peer_write(stream[prev:m])
        nw.quiesce()
        transitions += 1
        chain[m] = nw
        prev = m
    digests = {m: chain[m].digest() for m in marks}
    obsv = {m: obs(chain[m]) for m in marks}
    sp = T.StreamParser()
    ends = []
    for k in range(len(stream)):
        for _msg in sp.feed(stream[k:k + 1]):
            ends.append(k + 1)

    def viol(kind, detail, cuts):
        v = Violation(PROP, 'framing', kind, dict(), detail).as_dict()
        v['case'] = dict(long=params, cuts=cuts)
        violations.append(v)
    last = 0
    for (a, b) in zip(marks, marks[1:]):
        has_end = any(a < e <= b for e in ends)
        if not has_end and obsv[a] != obsv[b]:
            viol('acted-on-incomplete-message', 'observable change between octet %d and %d with no message end' % (a, b), [a, b])
        if has_end and obsv[a] == obsv[b] and b != len(stream):
            viol('complete-message-not-acted-on', 'message ends in (%d,%d] but nothing observable happened' % (a, b), [a, b])
        if chain[b].escaped:
            viol('exception-escaped-receive-path', repr(chain[b].escaped[-1][:3]), [a, b])
            break
    if not violations:
        for (i, a) in enumerate(marks):
            for b in marks[i + 2:]:
                nw = chain[a].snapshot()
                nw.peer_write(stream[a:b])
                nw.quiesce()
                transitions += 1
                if nw.digest() != digests[b] or obs(nw) != obsv[b]:
                    viol('chunking-changes-behaviour', 'delivering [%d,%d) at once differs from the stepwise path' % (a, b), [a, b])
                    break
            if violations:
                break
    return dict(name=params['name'], states=len(marks), transitions=transitions, stream_octets=len(stream),
                messages=len(ends), violations=violations, known=[],
                sample=dict(long=params, cut_positions=len(marks)))


def scenarios(tier):
    out = []
    for st in streams(tier):
        out.append(dict(name=st['name'], kind='enum', runner='run_stream', params=st,
                        weight=len(st['stream']) ** 2))
    out.append(dict(name='codec', kind='enum', runner='run_codec', params={}, weight=10 ** 5))
    sizes = [255, 256, 65535, 65536, 70000] if tier == 'thorough' else [255, 256, 65535, 65536]
    for size in sizes:
        out.append(dict(name='long-%d' % size, kind='enum', runner='run_long',
                        params=dict(name='long-%d' % size, size=size, nodeid=300 if size == 256 else 5), weight=10 ** 5))
    out.append(dict(name='short-writes', kind='enum', runner='run_short_writes', params=dict(name='short-writes'), weight=10 ** 4))
    out.append(dict(name='adversarial-pairs', kind='enum', runner='run_same_read', params=dict(name='adversarial-pairs', prop=PROP), weight=10 ** 5))
    for fit in (10240, 20480):
        out.append(dict(name='long-fit-%d' % fit, kind='enum', runner='run_long',
                        params=dict(name='long-fit-%d' % fit, size=0, fit=fit, nodeid=5), weight=10 ** 5))
    return out


ASSUMPTIONS = [
    'short writes: the socket takes 1 ... 63 octets per send() and the peer reads after every callback; the octets on the wire are compared with those of a socket taking everything (same peer input), both roles, bundles of 5 ... 130 octets in segments of 4 / 64',
    'adversarial pairs: every contact-phase message followed by any message of the C17 alphabet, and every ordered pair of in-session messages of it, in one read and in two: same octets written, same signals, same closing',
    'long streams also with a segment message of exactly 10240 / 20480 octets (the size of one / two reads of the endpoint), delivered in one piece among others',
    'one real endpoint per role; the peer is scripted with octets produced by the independent encoder',
    'the endpoint runs to quiescence after each read (zero-time computation)',
    'the two body octets of MSG_REJECT are read in the order the pinned tests fix',
    'short streams: contact header, SESS_INIT and up to two further messages; long streams: boundary-directed cut sets',
    'once the endpoint has announced state "ending", the moment at which it closes the socket is not compared between chunkings (it depends on whether its own SESS_TERM has already left the transmit buffer, not on framing); output octets, signals and exceptions still are',
]

RULE = ('per stream a complete graph over delivered-octet counts: octet-by-octet reference chain plus every edge '
        '"deliver the next j octets at once" executed on the real endpoint and required to land on the reference state '
        '(covers all 2^(n-1) chunkings); observations may change only at message ends found by the independent framer; '
        'plus a codec differential over boundary field values')


def evidence(tier, seed, scens, results, wall_s):
    good = [r for r in results if r and r.get('kind') == 'enum']
    graphs = [r for r in good if 'states' in r]
    codec = [r for r in good if r.get('name') == 'codec']
    states = sum(r['states'] for r in graphs)
    transitions = sum(r['transitions'] for r in graphs)
    samples = [r['sample'] for r in graphs[:3]]
    coverage = dict(
        states=states, transitions=transitions,
        traces_validated_against_impl=transitions,
        samples=samples or [dict(note='none')],
        streams=len(graphs), stream_octets_max=max([r['stream_octets'] for r in graphs] or [0]),
        chunkings_covered='all 2^(n-1) per short stream (every edge of the delivered-octet graph executed on the implementation)',
        codec_evaluations=sum(r.get('evaluations', 0) for r in codec),
        exhaustive=len(good) == len(results),
        rule=RULE, repo=_env.repo_head(),
    )
    return dict(property_id=PROP, tier=tier, seed=seed, level='model_checking', coverage=coverage,
                assumptions=ASSUMPTIONS, wall_s=round(wall_s, 2))


def replay_case(body, verbose=False):
    case = body['case']
    if 'socket_takes' in case:
        ref = _short_write_run(case['role'], case['bundle'], case['segment_size'], None)
        w = _short_write_run(case['role'], case['bundle'], case['segment_size'], case['socket_takes'])
        print('  wire with full writes : %s' % ref.out_octets.hex())
        print('  wire with short writes: %s' % w.out_octets.hex())
        for esc in w.escaped:
            print('  ESCAPED %s: %s' % (esc[0], esc[2]))
        same = w.out_octets == ref.out_octets and not w.escaped
        print('replay: %s' % ('same octets' if same else 'violation reproduced: %s' % body['violation']['kind']))
        return 0 if same else 1
    if 'long' in case:
        print('long-stream case: rerun the check with --only %s' % case['long']['name'])
        return 1
    stream = bytes.fromhex(case['stream'])
    w = PeerWorld(dict(role=case['role'], seg_mru=64, tx_init=64, queued=tuple(case.get('queued', ()))))
    if case.get('pre'):
        w.peer_write(bytes.fromhex(case['pre']))
        w.quiesce()
    prev = 0
    for cut in case['cuts']:
        w.peer_write(stream[prev:cut])
        w.quiesce()
        if verbose:
            print('  delivered [%d,%d): out=%s signals=%r buffered=%s' % (prev, cut, w.out_octets.hex(), w.signals[-3:], w.recv_buffer_used() if not w.r_closed() else 'closed'))
        prev = cut
    for esc in w.escaped:
        print('  ESCAPED %s: %s' % (esc[0], esc[2]))
    print('replay: see narrative above; recorded violation: %s' % body['violation']['kind'])
    return 1
