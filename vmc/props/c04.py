'''C04 - TCPCL endpoints only emit RFC 9174-legal message sequences.

The C01 worlds plus terminate() requested at any moment; every octet written
to either direction is parsed by the independent incremental decoder and fed to
the sequencing automaton (WireMonitor).'''
from ..tcpcl_world import TcpclWorld
from ..monitors import EscapeMonitor, DeliveryMonitor, WireMonitor
from ..evidence import graph_evidence
from .c01 import hexn, DEVS

from .c14 import run_adaptive, run_slow_negotiation  # noqa: F401

PROP = 'C04'


def build(params):
    if params.get('scripted_peer'):
        from .c09 import TermPeerWorld
        return TermPeerWorld(dict(params, prop=PROP))
    world = TcpclWorld(params)
    world.monitors = [WireMonitor(PROP), DeliveryMonitor(PROP, expect_all=False)]
    return world


def run_narrow_path(params, known):
    from .c09 import run_narrow_path as run
    return run(params, known)


def _scen(name, scripts, dev_bound=0, weight=1, **over):
    params = dict(scripts=scripts, devs=DEVS if dev_bound else ())
    params.update(over)
    return dict(name=name, kind='graph', params=params, dev_bound=dev_bound, weight=weight, max_states=500000)


def scenarios(tier):
    s6 = ('send', hexn(6))
    s5 = ('send', hexn(5))
    s1 = ('send', hexn(1, 0xb0))
    s1b = ('send', hexn(1, 0xb8))
    s3 = ('send', hexn(3, 0xc0))
    term = ('terminate', 0)
    out = []
    out.append(_scen('A5-d1', {'A': [s5], 'B': []}, dev_bound=1, weight=10))
    # back-pressure (bounded octets in flight each way), with termination: sequencing and whole messages still hold
    out.append(dict(name='narrow-path', kind='enum', runner='run_narrow_path', params=dict(name='narrow-path', prop=PROP), weight=20))
    out.append(_scen('A9-d0', {'A': [('send', hexn(9))], 'B': []}, dev_bound=0, weight=5))
    out.append(_scen('A5+A1', {'A': [s5, s1], 'B': []}, dev_bound=0, weight=10))
    out.append(_scen('A5|B1', {'A': [s5], 'B': [s1]}, dev_bound=0, weight=30))
    out.append(_scen('A1+A1+termA', {'A': [s1, s1b, term], 'B': []}, dev_bound=0, weight=30))
    out.append(_scen('A5+termB', {'A': [s5], 'B': [term]}, dev_bound=0, weight=30))
    out.append(_scen('A5+termA', {'A': [s5, term], 'B': []}, dev_bound=0, weight=30))
    out.append(_scen('clamp-A5', {'A': [s5], 'B': []}, dev_bound=0, tx_init={'A': 64, 'B': 64},
                     seg_mru={'A': 4, 'B': 2}, weight=25))
    out.append(_scen('mru-asym-A3|B1', {'A': [s3], 'B': [s1]}, dev_bound=0, tx_init={'A': 3, 'B': 8},
                     seg_mru={'A': 2, 'B': 4}, weight=40))
    # a scripted conforming peer that refuses a transfer it has received completely while the endpoint is in the
    # middle of its next, multi-segment transfer (every callback of the endpoint is a step): the transfer that was
    # not refused goes out as contiguous segments ending with END, intact
    for role in ('passive', 'active'):
        for chunk in (10240, 9):
            nm = 'refusal-of-a-completed-transfer/%s/chunk%d' % (role, chunk)
            out.append(dict(name=nm, kind='graph', dev_bound=0, max_states=500000, liveness=False, weight=20,
                            params=dict(scripted_peer=True, role=role, bundles=[hexn(3), hexn(33), hexn(2)], chunk=chunk,
                                        refuse='completed', user_term=False, peer_term=False)))
    # node IDs outside ASCII (an IRI; two and three octets per character) and a long one (255 / 256 octets)
    out.append(_scen('node-ids-not-ascii/A1|B1', {'A': [s1], 'B': [s1]}, dev_bound=0, weight=10,
                     node_ids={'A': 'dtn://n\u0153ud-\u00e9/', 'B': 'dtn://\u8282\u70b9/'}))
    out.append(_scen('node-ids-long/A1', {'A': [s1], 'B': []}, dev_bound=0, weight=5,
                     node_ids={'A': 'dtn://' + 'a' * 248 + '/', 'B': 'dtn://' + 'b' * 249 + '/'}))
    out.append(_scen('len0+len1', {'A': [('send', ''), s1], 'B': []}, dev_bound=0, weight=5))
    out.append(_scen('termA|termB-d1', {'A': [term], 'B': [term]}, dev_bound=1, weight=10))
    # adaptive segment sizing (shared with C14): every assignment of fast/slow acknowledgement
    # delays, peer MRUs above and below the controller's floor; all wire rules of this property apply
    out.append(dict(name='slow-negotiation', kind='enum', runner='run_slow_negotiation',
                    params=dict(name='slow-negotiation', prop=PROP), weight=10))
    out.append(dict(name='adaptive-sizing', kind='enum', runner='run_adaptive',
                    params=dict(name='adaptive-sizing', prop=PROP, thorough=(tier == 'thorough')), weight=20))
    if tier == 'thorough':
        out.append(_scen('A5+A1+termA-d1', {'A': [s5, s1, term], 'B': []}, dev_bound=1, weight=90))
        out.append(_scen('A6|B3+termB', {'A': [s6], 'B': [s3, term]}, dev_bound=0, weight=100))
        out.append(_scen('termA+A5|termB', {'A': [s5, term], 'B': [term]}, dev_bound=0, weight=60))
        out.append(_scen('A5|B1-d1', {'A': [s5], 'B': [s1]}, dev_bound=1, weight=80))
        out.append(_scen('A3+termA|B1', {'A': [s3, term], 'B': [s1]}, dev_bound=0, weight=80))
        out.append(_scen('A1+termA|B1', {'A': [s1, term], 'B': [s1b]}, dev_bound=0, weight=80))
        out.append(_scen('clamp-A5-d1', {'A': [s5], 'B': []}, dev_bound=1, tx_init={'A': 64, 'B': 64},
                         seg_mru={'A': 4, 'B': 2}, weight=25))
        out.append(_scen('mru-asym-A5|B3', {'A': [s5], 'B': [s3]}, dev_bound=0, tx_init={'A': 3, 'B': 8},
                         seg_mru={'A': 2, 'B': 4}, weight=60))
    return out


ASSUMPTIONS = [
    'TCP modelled as a reliable FIFO byte pipe with short reads/writes and EAGAIN; no resets',
    'the two body octets of MSG_REJECT are read in the order the pinned tests fix',
    'after SESS_TERM an endpoint may still send ACKs and the remaining segments of a transfer already started',
    'bundles of at most 6 octets, at most two per direction (state graphs); two bundles of 48 000 octets in the adaptive-sizing enumeration',
]

RULE = ('explicit-state BFS over two real ContactHandler objects; user send/terminate calls at every '
        'between-iteration point; every octet written is parsed by an independent incremental RFC 9174 '
        'decoder feeding a sequencing automaton evaluated on every transition')


def evidence(tier, seed, scens, results, wall_s):
    graphs = [r for r in results if r and r.get('kind') == 'graph']
    enums = [r for r in results if r and r.get('kind') == 'enum']
    ev = graph_evidence(PROP, tier, seed, [sc for sc in scens if sc['kind'] == 'graph'], graphs, wall_s, ASSUMPTIONS, RULE)
    cov = ev['coverage']
    cov['evaluations'] = sum(r.get('evaluations', 0) for r in enums)
    cov['exhaustive'] = cov['exhaustive'] and len([r for r in results if r and r.get('kind') != 'error']) == len(results)
    return ev
