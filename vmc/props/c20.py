'''C20 - BTP-U messages round-trip and segmented transfers reassemble.

(a) Codec: every message set of up to three messages over {bundle PDU,
    transfer segment, transfer end, padding message} x payload lengths
    {0,1,255,256,4095} x hint lists of 0-3, 4, 5, 6, 8 and 16 hints (repeated hints included), three-way round trip with an
    independent BTP-U codec (declared lengths = actual lengths).
(b) Sizing: bundle length x MTU grid on the real send path (D-Bus call ->
    queue -> frames on a virtual packet socket).
(c) Reassembly: a real receiving agent gets every permutation of the segments
    of a 3-5 segment transfer, with a second transfer interleaved; the 1 s
    transfer timers fire only after the last segment, then in every order.'''
import itertools
import struct

from gi.repository import GLib

from .. import env as _env
from .. import vsocket
from ..world import World, Violation, HarnessError
from ..evidence import enum_evidence

PROP = 'C20'
AGENT_PATH = '/org/ietf/dtn/btpu/Agent'
IFACE = 'org.ietf.dtn.btpu.Agent'
IFNAME = 'veth0'
MAC_S = '02:00:00:00:00:01'
MAC_R = '02:00:00:00:00:02'
MAC_P2 = '02:00:00:00:00:03'
ETHERTYPE = 0x88b5

_CUR_NET = [None]
_INJECTED = False


def _inject():
    global _INJECTED
    ns = _env.load_btpu()
    if not _INJECTED:
        ns.agent.socket = vsocket.SocketModule(lambda: _CUR_NET[0], packet_factory=vsocket.VPacketSocket)
        _INJECTED = True
    return ns


# ---------------------------------------------------------------------------
# independent BTP-U codec

M_PADDING, M_BUNDLE, M_SEG, M_END, M_CANCEL = 1, 2, 3, 4, 5


def enc_message(mtype, body, hints=()):
    hdata = b''
    for (k, (htype, hval)) in enumerate(hints):
        more = 1 if k < len(hints) - 1 else 0
        hdata += bytes([(htype << 1) | more, len(hval)]) + bytes(hval)
    flags = 0x8 if hints else 0
    length = len(hdata) + len(body)
    if length >= 1 << 20:
        raise ValueError('message too long')
    return bytes([mtype]) + struct.pack('!I', (flags << 20) | length)[1:] + hdata + bytes(body)


def enc_transfer(mtype, xfer, idx, data, hints=()):
    return enc_message(mtype, struct.pack('!II', xfer, idx) + bytes(data), hints)


def dec_message_set(data):
    '''-> list of (type, hints, body); trailing zero octets are padding.'''
    out = []
    pos = 0
    data = bytes(data)
    while pos < len(data):
        if data[pos] == 0:
            if any(data[pos:]):
                raise ValueError('non-zero octets after the padding start')
            break
        if len(data) - pos < 4:
            raise ValueError('truncated message head')
        mtype = data[pos]
        word = int.from_bytes(data[pos + 1:pos + 4], 'big')
        flags = word >> 20
        length = word & 0xFFFFF
        pos += 4
        if len(data) - pos < length:
            raise ValueError('declared length %d exceeds the %d octets present' % (length, len(data) - pos))
        end = pos + length
        hints = []
        if flags & 0x8:
            while True:
                if end - pos < 2:
                    raise ValueError('truncated hint')
                htype = data[pos] >> 1
                more = data[pos] & 1
                hlen = data[pos + 1]
                pos += 2
                if end - pos < hlen:
                    raise ValueError('hint exceeds the message')
                hints.append((htype, data[pos:pos + hlen]))
                pos += hlen
                if not more:
                    break
        body = data[pos:end]
        pos = end
        out.append((mtype, hints, body))
    return out


# ---------------------------------------------------------------------------
# (a) codec

def impl_message(ns, mtype, body, hints):
    from scapy.packet import Raw
    M = ns.messages
    hint_pkts = [M.HintHead(hint_type=h[0]) / Raw(h[1]) for h in hints]
    head = M.MessageHead(hints=hint_pkts) if hint_pkts else M.MessageHead()
    if mtype == M_BUNDLE:
        return head / M.BundlePdu(body)
    if mtype == M_PADDING:
        return head / M.DefinitePadding(body)
    (xfer, idx) = struct.unpack('!II', body[:8])
    cls = M.TransferSeg if mtype == M_SEG else M.TransferEnd
    return head / cls(xfer_num=xfer, seg_idx=idx) / Raw(body[8:])


def run_codec(params, known):
    ns = _inject()
    M = ns.messages
    violations = []
    kinds = set()
    count = 0
    keys = set()
    samples = []
    lengths = [0, 1, 255, 256, 4095, 65535, 65536, 65537, 70000]     # (the length field is 20 bits wide)
    hint_lists = [(), ((0, b'\x00\x00\x01\x00'),), ((0, b'\x00\x00\x01\x00'), (5, b'')), ((3, b'x' * 255), (9, b'y')),
                  # the same hint more than once (equal first and last, equal neighbours)
                  ((7, b'ab'), (7, b'ab')), ((7, b'ab'), (8, b''), (7, b'ab')), ((8, b''), (7, b'ab'), (7, b'ab'))]
    # longer lists: 4, 5, 6, 8 and 16 hints on one message (values of 0 - 2 octets)
    hint_lists += [tuple((k + 1, bytes([65 + k]) * (k % 3)) for k in range(n)) for n in (4, 5, 6, 8, 16)]

    def viol(kind, detail, case):
        if kind in kinds:
            return
        kinds.add(kind)
        v = Violation(PROP, 'codec', kind, dict(), detail).as_dict()
        v['case'] = case
        violations.append(v)

    def payload(n, seed):
        return bytes((i * 11 + seed) & 0xFF or 1 for i in range(n))
    singles = []
    for mtype in (M_BUNDLE, M_SEG, M_END, M_PADDING):
        for n in lengths:
            for hints in hint_lists:
                body = payload(n, mtype)
                if mtype in (M_SEG, M_END):
                    body = struct.pack('!II', 7 if n < 256 else 2 ** 32 - 1, n) + body
                singles.append((mtype, body, hints))
    (part, parts) = (params['part'], params['parts'])
    combos = []
    for msg in singles:
        combos.append((msg,))
    small = [s for s in singles if len(s[1]) <= 264 and len(s[2]) <= 1]
    for pair in itertools.product(small, repeat=2):
        combos.append(pair)
    tiny = [s for s in singles if len(s[1]) <= 9 and len(s[2]) <= 1]
    for triple in itertools.product(tiny, repeat=3):
        combos.append(triple)
    for (idx, combo) in enumerate(combos):
        if idx % parts != part:
            continue
        for pad in (0, 3) if len(combo) == 1 else (0,):
            count += 1
            oracle_bytes = b''.join(enc_message(m[0], m[1], m[2]) for m in combo) + b'\x00' * pad
            case = dict(messages=[(m[0], len(m[1]), [h[0] for h in m[2]]) for m in combo], padding=pad, octets=oracle_bytes.hex()[:400])
            # implementation builds
            try:
                built = b''.join(bytes(impl_message(ns, m[0], m[1], m[2])) for m in combo) + b'\x00' * pad
            except Exception as err:
                viol('implementation-cannot-build', '%s: %s' % (type(err).__name__, err), case)
                continue
            if built != oracle_bytes:
                viol('encoding-differs-from-independent-encoder', '%s vs %s' % (built.hex()[:120], oracle_bytes.hex()[:120]), case)
                continue
            try:
                dec = dec_message_set(built)
            except ValueError as err:
                viol('independent-decoder-rejects', str(err), case)
                continue
            if [(d[0], list(d[1]), d[2]) for d in dec] != [(m[0], [(h[0], bytes(h[1])) for h in m[2]], bytes(m[1])) for m in combo]:
                viol('independent-decoder-reads-other-messages', repr(dec)[:300], case)
                continue
            # implementation decodes and re-encodes
            try:
                pkt = M.MessageSet(oracle_bytes)
                msgs = pkt.msgs
                again = b''.join(bytes(m) for m in msgs)
            except Exception as err:
                viol('implementation-cannot-decode', '%s: %s' % (type(err).__name__, err), case)
                continue
            if len(msgs) != len(combo):
                viol('decoded-message-count-differs', '%d vs %d' % (len(msgs), len(combo)), case)
                continue
            if again != oracle_bytes[:len(oracle_bytes) - pad]:
                viol('decode-reencode-differs', '%s vs %s' % (again.hex()[:120], oracle_bytes.hex()[:120]), case)
                continue
            for (msg, want) in zip(msgs, combo):
                if not isinstance(msg, M.MessageHead):
                    viol('message-not-decoded-as-a-message', '%s for message type %d with %d hints' % (type(msg).__name__, want[0], len(want[2])), case)
                    continue
                declared = msg.getfieldval('length')
                hints_len = sum(2 + len(h[1]) for h in want[2])
                if declared != hints_len + len(want[1]):
                    viol('declared-length-differs-from-actual', '%d vs %d' % (declared, hints_len + len(want[1])), case)
                # the fields the implementation read, one by one
                got_hints = [(h.getfieldval('hint_type'), bytes(h.payload)) for h in msg.getfieldval('hints')]
                if msg.getfieldval('msg_type') != want[0] or got_hints != [(h[0], bytes(h[1])) for h in want[2]]:
                    viol('decoded-header-fields-differ', 'type %r hints %r instead of type %r hints %r'
                         % (msg.getfieldval('msg_type'), got_hints, want[0], list(want[2])), case)
                elif bytes(msg.payload) != bytes(want[1]):
                    viol('decoded-body-differs', '%d octets instead of %d' % (len(bytes(msg.payload)), len(want[1])), case)
            keys.add(repr(case['messages']) + str(pad))
            if len(samples) < 1:
                samples.append(case)
    return dict(name=params['name'], evaluations=count, nontrivial_keys=sorted(keys), violations=violations, known=[], samples=samples)


# ---------------------------------------------------------------------------
# world

class BtpuWorld(World):
    def __init__(self, params):
        World.__init__(self)
        ns = _inject()
        import psutil
        psutil.set_net_if_addrs({IFNAME: MAC_S if params.get('role', 'R') == 'S' else MAC_R})
        self.params = dict(params)
        self.net = vsocket.PacketNet()
        self.signals = []
        self.sig_errors = []
        self.escaped = []
        self.got = []
        proc = self.add_proc('N')
        cfg = ns.config.Config(node_id='dtn://n/', mtu_default=params.get('mtu'),
                               init_listen=[ns.config.ListenConfig(ifname=IFNAME)] if params.get('role', 'R') == 'R' else [])
        cfg._bus_conn = proc.bus

        def make():
            return ns.agent.Agent(cfg, bus_kwargs=dict(conn=proc.bus, object_path=AGENT_PATH))
        proc.roots['agent'] = self.in_proc(proc, make)
        self.collect(('init',))

    @property
    def proc(self):
        return self.procs['N']

    def activate(self, proc=None):
        _CUR_NET[0] = self.net
        import psutil
        psutil.set_net_if_addrs({IFNAME: MAC_S if self.params.get('role', 'R') == 'S' else MAC_R})
        World.activate(self, proc)

    def collect(self, event):
        proc = self.proc
        for rec in proc.bus.drain_records():
            if rec[0] == 'signal':
                self.signals.append((rec[3],) + tuple(str(a) if not isinstance(a, dict) else 'meta' for a in rec[4]))
            elif rec[0] in ('signal-marshal-error', 'return-marshal-error'):
                self.sig_errors.append(tuple(str(x) for x in rec[1:7]))
        for esc in proc.ctx.escaped:
            self.escaped.append((esc.exc_type, esc.source_kind, esc.exc_text, esc.tb))
        proc.ctx.escaped = []
        proc.ctx.warnings = []
        return []

    def run_all(self, ticks=False):
        steps = 0
        while True:
            steps += 1
            if steps > 100000:
                raise HarnessError('BTP-U world does not become quiescent')
            if self.runnable(self.proc):
                self.apply(('run', 'N'))
                continue
            if ticks and self.next_deadline() is not None:
                self.apply(('tick',))
                continue
            return

    def call(self, member, *args):
        res = self.bus_call(self.proc, AGENT_PATH, member, *args, iface=IFACE)
        return res


def frame_for(payload, src=MAC_S, dst=MAC_R):
    def mac(text):
        return bytes(int(x, 16) for x in text.split(':'))
    return mac(dst) + mac(src) + struct.pack('!H', ETHERTYPE) + bytes(payload)


# ---------------------------------------------------------------------------
# (b) sizing

def run_sizing(params, known):
    (part, parts) = (params['part'], params['parts'])
    violations = []
    kinds = set()
    keys = set()
    count = 0
    outcomes = {}
    samples = []

    def viol(kind, sig, detail, case):
        key = (kind, tuple(sorted(sig.items())))
        if key in kinds:
            return
        kinds.add(key)
        v = Violation(PROP, 'sizing', kind, sig, '%r: %s' % (case, detail)).as_dict()
        v['case'] = case
        violations.append(v)
    lengths = list(range(0, 71)) + list(range(250, 263)) + ([4090, 4095, 4096, 65535, 65536] if params['tier'] == 'thorough' else [4095, 4096])
    pts = []
    for length in lengths:
        if length <= 70:
            mtus = list(range(20, length + 8))
        elif length <= 262:
            mtus = list(range(20, 60, 3)) + list(range(length - 2, length + 8)) + [128, 255, 256]
        else:
            mtus = [1500, 1400, 300, length, length + 3, length + 4, length + 5]
        for mtu in sorted(set(mtus)):
            pts.append((length, mtu))
    for (idx, (length, mtu)) in enumerate(pts):
        if idx % parts != part:
            continue
        count += 1
        case = dict(length=length, mtu=mtu)
        world = BtpuWorld(dict(role='S', mtu=mtu))
        data = bytes((i * 29 + 5) & 0xFF for i in range(length))
        res = world.call('send_bundle_data', data, {'address': MAC_R, 'local_if': IFNAME})
        if res[0] != 'ok':
            viol('send-call-failed', dict(), repr(res), case)
            continue
        world.run_all()
        if world.escaped:
            esc = world.escaped[-1]
            viol('exception-escaped-callback', dict(exc=esc[0]), '%s: %s\n%s' % (esc[0], esc[2], esc[3]), case)
            continue
        if world.sig_errors:
            viol('signal-does-not-fit-signature', dict(), repr(world.sig_errors[-1]), case)
        frames = [f['frame'] for f in world.net.frame_log]
        if not frames:
            viol('nothing-sent', dict(), 'no frame', case)
            continue
        pieces = []
        whole = []
        sizes = []
        bad = False
        for frame in frames:
            sdu = frame[14:]
            sizes.append(len(sdu))
            try:
                for (mtype, hints, body) in dec_message_set(sdu):
                    if mtype == M_BUNDLE:
                        whole.append(body)
                    elif mtype in (M_SEG, M_END):
                        (xfer, sidx) = struct.unpack('!II', body[:8])
                        pieces.append((xfer, sidx, mtype, body[8:]))
            except ValueError as err:
                viol('frame-undecodable', dict(), str(err), case)
                bad = True
        if bad:
            continue
        if whole:
            outcomes['whole'] = outcomes.get('whole', 0) + 1
            if whole != [data] or pieces:
                viol('unsegmented-bundle-differs', dict(), 'frames %r' % sizes, case)
            if any(s > mtu for s in sizes):
                viol('frame-exceeds-mtu', dict(segmented=False), 'MTU %d sizes %r' % (mtu, sizes), case)
            continue
        outcomes['segmented'] = outcomes.get('segmented', 0) + 1
        keys.add((length, mtu))
        if any(s > mtu for s in sizes):
            viol('frame-exceeds-mtu', dict(segmented=True), 'MTU %d sizes %r' % (mtu, sizes), case)
        pieces.sort(key=lambda p: p[1])
        idxs = [p[1] for p in pieces]
        if idxs != list(range(len(pieces))) or len(set(p[0] for p in pieces)) != 1:
            viol('segment-indices-not-contiguous', dict(), repr(idxs), case)
        elif [p[2] for p in pieces] != [M_SEG] * (len(pieces) - 1) + [M_END]:
            viol('end-marker-misplaced', dict(), repr([p[2] for p in pieces]), case)
        elif b''.join(p[3] for p in pieces) != data:
            viol('segment-data-differs', dict(), 'concatenation by index differs from the bundle', case)
        if len(samples) < 1:
            samples.append(dict(case=case, frame_sdu_sizes=sizes))
    return dict(name=params['name'], evaluations=count, nontrivial_keys=[repr(k) for k in sorted(keys)], violations=violations,
                known=[], samples=samples, outcomes=outcomes, report_keys=['outcomes'])


# ---------------------------------------------------------------------------
# (c) reassembly permutations

def run_reassembly(params, known):
    violations = []
    kinds = set()
    count = 0
    keys = set()
    samples = []

    def viol(kind, sig, detail, case):
        key = (kind, tuple(sorted(sig.items())))
        if key in kinds:
            return
        kinds.add(key)
        v = Violation(PROP, 'reassembly', kind, sig, '%r: %s' % (case, detail)).as_dict()
        v['case'] = case
        violations.append(v)
    nseg = params['segments']
    # every second octet is zero: each two-octet segment (and the bundle) ends in 0x00, which must
    # not be mistaken for link padding
    bundle = bytes(b for k in range(nseg) for b in (0x41 + k, 0))
    segs = []
    for k in range(nseg):
        mtype = M_END if k == nseg - 1 else M_SEG
        segs.append(('a%d' % k, enc_transfer(mtype, 1, k, bundle[2 * k:2 * k + 2], hints=((0, struct.pack('!I', len(bundle))),))))
    other = bytes([0x61, 0, 0x63, 0])
    if params['interleave'] == 'peer2':
        # the same transfer number as the first transfer, from another peer
        osegs = [('p2:b0', enc_transfer(M_SEG, 1, 0, other[0:2]), MAC_P2), ('p2:b1', enc_transfer(M_END, 1, 1, other[2:4]), MAC_P2)]
    else:
        osegs = [('b0', enc_transfer(M_SEG, 2, 0, other[0:2]), MAC_S), ('b1', enc_transfer(M_END, 2, 1, other[2:4]), MAC_S)]
    segs = [(label, sdu, MAC_S) for (label, sdu) in segs]
    (part, parts) = (params['part'], params['parts'])
    orders = list(itertools.permutations(range(nseg)))
    idx = -1
    for order in orders:
        # positions at which the two frames of the second transfer are slipped in
        for (p0, p1) in itertools.combinations_with_replacement(range(nseg + 1), 2) if params['interleave'] else [(None, None)]:
            for oswap in ((False, True) if params['interleave'] else (False,)):
                idx += 1
                if idx % parts != part:
                    continue
                seq = [segs[i] for i in order]
                if params['interleave']:
                    (o0, o1) = (osegs[1], osegs[0]) if oswap else (osegs[0], osegs[1])
                    seq.insert(p1, o1)
                    seq.insert(p0, o0)
                count += 1
                case = dict(order=[s[0] for s in seq])
                world = BtpuWorld(dict(role='R'))
                for (_label, sdu, src_mac) in seq:
                    world.activate(None)
                    world.net.inject(IFNAME, frame_for(sdu, src=src_mac))
                    world.run_all()
                got = []
                for sig in [s for s in world.signals if s[0] == 'recv_bundle_finished']:
                    res = world.call('recv_bundle_pop_data', sig[1])
                    got.append(bytes(res[1]) if res[0] == 'ok' else None)
                want = [bundle] + ([other] if params['interleave'] else [])
                if sorted(got, key=repr) != sorted(want, key=repr):
                    viol('queued-bundles-differ', dict(), 'queued %r, expected %r' % (got, want), case)
                if world.escaped:
                    esc = world.escaped[-1]
                    viol('exception-escaped-callback', dict(exc=esc[0]), '%s: %s' % (esc[0], esc[2]), case)
                if world.sig_errors:
                    viol('signal-does-not-fit-signature', dict(), repr(world.sig_errors[-1]), case)
                # afterwards the per-segment timers expire: nothing more may be queued
                before = len([s for s in world.signals if s[0] == 'recv_bundle_finished'])
                world.escaped = []
                world.run_all(ticks=True)
                after = len([s for s in world.signals if s[0] == 'recv_bundle_finished'])
                if after != before:
                    viol('bundle-queued-by-timer', dict(), '%d -> %d' % (before, after), case)
                q = world.call('recv_bundle_get_queue')
                if q[0] != 'ok' or list(q[1]):
                    viol('receive-queue-differs', dict(), repr(q), case)
                # (the per-segment timers of a finished transfer raise KeyError in their callback, which
                # GLib logs and drops: no effect on the queue, not judged by this property)
                world.escaped = []
                if not params['interleave'] and order == orders[0]:
                    # the sender restarts (or its 32-bit counter wraps): the same transfer number
                    # again, with other data, after the first one is complete and its timers are over
                    again = bytes(b for k in range(nseg) for b in (0x71 + k, 0x30))
                    for k in range(nseg):
                        mtype = M_END if k == nseg - 1 else M_SEG
                        world.activate(None)
                        world.net.inject(IFNAME, frame_for(enc_transfer(mtype, 1, k, again[2 * k:2 * k + 2]), src=MAC_S))
                        world.run_all()
                    sigs = [s for s in world.signals if s[0] == 'recv_bundle_finished']
                    res = world.call('recv_bundle_pop_data', sigs[-1][1]) if len(sigs) > before else ('none',)
                    if len(sigs) != before + 1 or res[0] != 'ok' or bytes(res[1]) != again:
                        viol('transfer-number-cannot-be-reused', dict(), 'second transfer with number 1: signals %r, pop %r' % (sigs[before:], res), case)
                    if world.escaped:
                        esc = world.escaped[-1]
                        viol('exception-escaped-callback', dict(exc=esc[0]), '%s: %s' % (esc[0], esc[2]), case)
                keys.add(','.join(case['order']))
                if len(samples) < 1:
                    samples.append(case)
    return dict(name=params['name'], evaluations=count, nontrivial_keys=sorted(keys), violations=violations, known=[], samples=samples)


def run_many_in_progress(params, known):
    """N transfers of two segments each in progress at one receiver at the same time, for N = 2 ... 12 (and 16, 33):
    all first segments arrive, then all second segments, in the same / the reverse / a rotated order; the
    transfers come from one peer (N transfer numbers) or from N peers (one number each).  Every bundle is queued
    once and pops as sent."""
    violations = []
    kinds = set()
    count = 0
    keys = set()

    def viol(kind, detail, case):
        if kind in kinds:
            return
        kinds.add(kind)
        v = Violation(PROP, 'reassembly', kind, dict(), '%r: %s' % (case, detail)).as_dict()
        v['case'] = case
        violations.append(v)
    for n in list(range(2, 13)) + [16, 33]:
        for (peers, second) in itertools.product(('one-peer', 'many-peers'), ('same-order', 'reverse-order', 'rotated')):
            count += 1
            case = dict(transfers_in_progress=n, peers=peers, second_segments=second)
            world = BtpuWorld(dict(role='R'))
            bundles = [bytes([0x41 + (k % 26), k & 0xFF, 0x30 + (k % 10), 0]) for k in range(n)]

            def mac(k):
                return MAC_S if peers == 'one-peer' else '02:00:00:00:%02x:%02x' % (k >> 8, k + 16)

            def num(k):
                return 100 + k if peers == 'one-peer' else 7
            for k in range(n):
                world.activate(None)
                world.net.inject(IFNAME, frame_for(enc_transfer(M_SEG, num(k), 0, bundles[k][0:2], hints=((0, struct.pack('!I', 4)),)), src=mac(k)))
                world.run_all()
            order = list(range(n))
            if second == 'reverse-order':
                order.reverse()
            elif second == 'rotated':
                order = order[n // 2:] + order[:n // 2]
            for k in order:
                world.activate(None)
                world.net.inject(IFNAME, frame_for(enc_transfer(M_END, num(k), 1, bundles[k][2:4]), src=mac(k)))
                world.run_all()
            got = []
            for sig in [s for s in world.signals if s[0] == 'recv_bundle_finished']:
                res = world.call('recv_bundle_pop_data', sig[1])
                got.append(bytes(res[1]) if res[0] == 'ok' else None)
            keys.add('%d/%s/%s' % (n, peers, second))
            if world.escaped:
                esc = world.escaped[-1]
                viol('exception-escaped-callback', '%s: %s' % (esc[0], esc[2]), case)
            elif sorted(got, key=repr) != sorted(bundles, key=repr):
                viol('queued-bundles-differ', '%d of %d bundles queued (missing: %r)' % (len(got), n, [b for b in bundles if b not in got][:3]), case)
            if world.sig_errors:
                viol('signal-does-not-fit-signature', repr(world.sig_errors[-1]), case)
    return dict(name=params['name'], evaluations=count, nontrivial_keys=sorted(keys), violations=violations, known=[], samples=[])


def run_send_receive(params, known):
    '''Real sender to real receiver.  (1) Bundles of 65535 / 65536 / 65537 / 70000 octets with no MTU
    (one bundle message), an MTU above the bundle and an Ethernet-size MTU; (2) two and three bundles
    handed to the sender back to back, before its loop has run (lengths below and above the MTU), the
    frames then reaching the receiver in order, alternating and reversed.  Every frame is decoded
    independently; transfers in flight at the same time carry different transfer numbers; the
    receiver announces and returns exactly the bundles sent.'''
    violations = []
    kinds = set()
    count = 0
    keys = set()

    def viol(kind, detail, case):
        if kind in kinds:
            return
        kinds.add(kind)
        v = Violation(PROP, 'end-to-end', kind, dict(), '%r: %s' % (case, detail)).as_dict()
        v['case'] = case
        violations.append(v)

    def bundle(n, seed):
        return bytes((i * 13 + seed * 7 + (i >> 8)) & 0xFF for i in range(n))
    jobs = []
    for length in (65535, 65536, 65537, 70000):
        for mtu in (None, 100000, 1500):
            jobs.append(([length], mtu))
    for lens in ((30, 45), (200, 450), (450, 200), (450, 30), (120, 450, 300)):
        for mtu in (100, 1500):
            jobs.append((list(lens), mtu))
    for (lens, mtu) in jobs:
        for order in (('in-order',) if len(lens) == 1 else ('in-order', 'alternating', 'reversed')):
            count += 1
            case = dict(lengths=lens, mtu=mtu, arrival=order)
            snd = BtpuWorld(dict(role='S', mtu=mtu))
            datas = [bundle(n, k + 1) for (k, n) in enumerate(lens)]
            ok = True
            for d in datas:
                res = snd.call('send_bundle_data', d, {'address': MAC_R, 'local_if': IFNAME})
                if res[0] != 'ok':
                    viol('send-call-failed', repr(res), case)
                    ok = False
            if not ok:
                continue
            snd.run_all()
            if snd.escaped:
                viol('exception-escaped-callback', '%s: %s' % (snd.escaped[-1][0], snd.escaped[-1][2]), case)
                continue
            frames = [f['frame'] for f in snd.net.frame_log]
            per_xfer = {}
            wholes = []
            try:
                for (fi, frame) in enumerate(frames):
                    if mtu is not None and len(frame) - 14 > mtu:
                        viol('frame-exceeds-mtu', 'MTU %d, frame SDU %d' % (mtu, len(frame) - 14), case)
                    for (mtype, hints, body) in dec_message_set(frame[14:]):
                        if mtype == M_BUNDLE:
                            wholes.append(body)
                        elif mtype in (M_SEG, M_END):
                            (xfer, sidx) = struct.unpack('!II', body[:8])
                            per_xfer.setdefault(xfer, []).append((sidx, mtype, body[8:], fi))
            except ValueError as err:
                viol('frame-undecodable', str(err), case)
                continue
            rebuilt = list(wholes)
            for (xfer, segs) in per_xfer.items():
                idxs = sorted(x[0] for x in segs)
                if idxs != list(range(len(segs))):
                    viol('two-transfers-share-a-transfer-number', 'transfer %d carries segment indices %r' % (xfer, idxs), case)
                rebuilt.append(b''.join(x[2] for x in sorted(segs)))
            if sorted(rebuilt) != sorted(datas):
                viol('frames-do-not-carry-the-bundles', 'bundles of %r octets sent, frames carry %r' % (lens, sorted(len(r) for r in rebuilt)), case)
                continue
            if max(len(f) for f in frames) > 65535:
                # larger than the receiver ever reads from its socket (and than any Ethernet frame): only the sender side is judged
                keys.add('%r/%s/sender-only' % (lens, mtu))
                continue
            # delivery to a real receiver
            seq = list(frames)
            if order == 'reversed':
                seq.reverse()
            elif order == 'alternating':
                groups = {}
                for (fi, frame) in enumerate(frames):
                    owner = next((x for (x, segs) in per_xfer.items() if any(sg[3] == fi for sg in segs)), -1 - fi)
                    groups.setdefault(owner, []).append(frame)
                seq = []
                lists = list(groups.values())
                while any(lists):
                    for lst in lists:
                        if lst:
                            seq.append(lst.pop(0))
            rcv = BtpuWorld(dict(role='R'))
            for frame in seq:
                rcv.activate(None)
                rcv.net.inject(IFNAME, frame)
                rcv.run_all()
            rcv.run_all(ticks=False)
            if rcv.escaped:
                viol('exception-escaped-callback', 'receiver: %s: %s' % (rcv.escaped[-1][0], rcv.escaped[-1][2]), case)
                continue
            fins = [sg for sg in rcv.signals if sg[0] == 'recv_bundle_finished']
            got = []
            for sg in fins:
                res = rcv.call('recv_bundle_pop_data', sg[1])
                got.append(bytes(res[1]) if res[0] == 'ok' else None)
            if sorted(g or b'' for g in got) != sorted(datas):
                viol('queued-bundles-differ', 'sent %r octets, receiver returned %r' % (lens, [len(g) if g is not None else None for g in got]), case)
            keys.add('%r/%s/%s' % (lens, mtu, order))
    return dict(name=params['name'], evaluations=count, nontrivial_keys=sorted(keys), violations=violations, known=[], samples=[])


def run_unusable_between(params, known):
    '''A frame the receiver cannot use arrives before, between or after the two segments of a
    transfer (a message cut short, a declared length beyond the frame, an unknown message type,
    a segment message too short for its fields, a cancel of another transfer): the
    transfer still completes with exactly the bundle.'''
    violations = []
    kinds = set()
    count = 0
    keys = set()

    def viol(kind, detail, case):
        if kind in kinds:
            return
        kinds.add(kind)
        v = Violation(PROP, 'reassembly', kind, dict(), '%r: %s' % (case, detail)).as_dict()
        v['case'] = case
        violations.append(v)
    data = b'WXYZ'
    segs = [enc_transfer(M_SEG, 40, 0, data[0:2], hints=((0, struct.pack('!I', len(data))),)), enc_transfer(M_END, 40, 1, data[2:4])]
    good = enc_message(M_BUNDLE, b'\x9f\xff')
    unusable = [('cut-short', good[:3]), ('length-beyond-frame', good[:1] + struct.pack('!I', 500)[1:] + b'ab'),
                ('unknown-type-9', enc_message(9, b'abc')), ('unknown-type-255', enc_message(255, b'')),
                ('segment-too-short', enc_message(M_SEG, b'\x00\x00\x00')), ('end-too-short', enc_message(M_END, b'')),
                ('cancel-other', enc_message(M_CANCEL, struct.pack('!I', 77))), ('cancel-too-short', enc_message(M_CANCEL, b'\x01')),
                ('one-octet', b'\x03'), ('hint-flag-without-hints', bytes([M_SEG]) + struct.pack('!I', (0x8 << 20) | 0)[1:]),
                ('hint-length-beyond-message', bytes([M_BUNDLE]) + struct.pack('!I', (0x8 << 20) | 3)[1:] + bytes([0, 200, 1]))]
    for (uname, octets) in unusable:
        for pos in (0, 1, 2):
            count += 1
            case = dict(unusable=uname, position=pos)
            world = BtpuWorld(dict(role='R'))
            seq = list(segs)
            seq.insert(pos, octets)
            for sdu in seq:
                world.activate(None)
                world.net.inject(IFNAME, frame_for(sdu))
                world.run_all()
            keys.add('%s/%d' % (uname, pos))
            if world.escaped:
                viol('exception-escaped-callback', '%s: %s' % (world.escaped[-1][0], world.escaped[-1][2]), case)
            fins = [sg for sg in world.signals if sg[0] == 'recv_bundle_finished']
            got = []
            for sg in fins:
                res = world.call('recv_bundle_pop_data', sg[1])
                got.append(bytes(res[1]) if res[0] == 'ok' else None)
            # (a bundle message that declares more octets than the frame holds is queued with what is there:
            # junk for the layer above, not a copy of the transfer)
            if got.count(data) != 1 or (len(got) != 1 and uname != 'length-beyond-frame'):
                viol('queued-bundles-differ', 'queued %r, the bundle is %r' % (got, data), case)
    return dict(name=params['name'], evaluations=count, nontrivial_keys=sorted(keys), violations=violations, known=[], samples=[])


def run_failed_request_then_good(params, known):
    """A send request that cannot be carried out (unknown interface, an address that is no MAC address)
    among ordinary ones - handed over before the loop runs, or one after the other: every ordinary
    request still leaves the node completely."""
    violations = []
    kinds = set()
    count = 0
    keys = set()

    def viol(kind, detail, case):
        if kind in kinds:
            return
        kinds.add(kind)
        v = Violation(PROP, 'end-to-end', kind, dict(), '%r: %s' % (case, detail)).as_dict()
        v['case'] = case
        violations.append(v)
    bad_params = [('unknown-interface', {'address': MAC_R, 'local_if': 'nope9'}), ('address-not-a-mac', {'address': 'zz:zz', 'local_if': IFNAME}),
                  ('no-address', {'local_if': IFNAME})]
    for (bname, bprm) in bad_params:
        for pattern in ('bad,good', 'good,bad,good', 'bad,bad,good', 'good,bad,good,good'):
            for spacing in ('back-to-back', 'one-after-the-other'):
                for mtu in (None, 100):
                    count += 1
                    case = dict(failing_request=bname, requests=pattern, spacing=spacing, mtu=mtu)
                    world = BtpuWorld(dict(role='S', mtu=mtu))
                    goods = []
                    for (k, what) in enumerate(pattern.split(',')):
                        if what == 'good':
                            data = bytes((i * 3 + k * 11 + 1) & 0xFF for i in range(150 + k))
                            goods.append(data)
                            world.call('send_bundle_data', data, {'address': MAC_R, 'local_if': IFNAME})
                        else:
                            world.call('send_bundle_data', b'\x9f\xff', dict(bprm))
                        if spacing == 'one-after-the-other':
                            world.run_all()
                    world.run_all()
                    keys.add('%s/%s/%s/%s' % (bname, pattern, spacing, mtu))
                    got = []
                    per = {}
                    try:
                        for f in world.net.frame_log:
                            for (mtype, hints, body) in dec_message_set(f['frame'][14:]):
                                if mtype == M_BUNDLE:
                                    got.append(body)
                                elif mtype in (M_SEG, M_END):
                                    (xfer, sidx) = struct.unpack('!II', body[:8])
                                    per.setdefault(xfer, []).append((sidx, body[8:]))
                    except ValueError as err:
                        viol('frame-undecodable', str(err), case)
                        continue
                    for segs in per.values():
                        got.append(b''.join(c for (_i, c) in sorted(segs)))
                    missing = [len(g) for g in goods if g not in got]
                    if missing:
                        viol('ordinary-request-not-emitted-after-a-failed-one', 'bundles of %r octets never left the node (emitted: %r)'
                             % (missing, [len(g) for g in got]), case)
    return dict(name=params['name'], evaluations=count, nontrivial_keys=sorted(keys), violations=violations, known=[], samples=[])


def run_pop_histories(params, known):
    '''Receive / pop histories: three bundles (each in two segments, in order or reversed) arrive
    one after the other; the user pops any announced and not yet popped bundle at any point.
    Every interleaving of the three completions with the three pops: each announcement carries a
    fresh id, the queue listing is exactly announced minus popped, and popping an id returns the
    bundle that was announced under it.'''
    violations = []
    kinds = set()
    count = 0
    keys = set()

    def viol(kind, sig, detail, case):
        key = (kind, tuple(sorted(sig.items())))
        if key in kinds:
            return
        kinds.add(key)
        v = Violation(PROP, 'receive-queue', kind, sig, '%r: %s' % (case, detail)).as_dict()
        v['case'] = case
        violations.append(v)
    bundles = [bytes(range(0x41 + 8 * k, 0x45 + 8 * k)) for k in range(3)]

    def histories(done, popped, trail):
        # done: number of bundles completed; popped: tuple of popped indices
        if done == 3 and len(popped) == 3:
            yield list(trail)
            return
        if done < 3:
            yield from histories(done + 1, popped, trail + [('rx', done)])
        for k in range(done):
            if k not in popped:
                yield from histories(done, popped + (k,), trail + [('pop', k)])
    for reverse in (False, True):
        for hist in histories(0, (), []):
            count += 1
            case = dict(history=['%s%d' % h for h in hist], segments_reversed=reverse)
            world = BtpuWorld(dict(role='R'))
            ids = {}
            seen_sigs = 0
            ok = True
            for (op, k) in hist:
                if op == 'rx':
                    data = bundles[k]
                    frames = [enc_transfer(M_SEG, 10 + k, 0, data[0:2], hints=((0, struct.pack('!I', len(data))),)),
                              enc_transfer(M_END, 10 + k, 1, data[2:4])]
                    for sdu in (reversed(frames) if reverse else frames):
                        world.activate(None)
                        world.net.inject(IFNAME, frame_for(sdu))
                        world.run_all()
                    sigs = [s for s in world.signals if s[0] == 'recv_bundle_finished']
                    if len(sigs) != seen_sigs + 1:
                        viol('completion-not-announced-once', dict(), 'signals %r' % (sigs[seen_sigs:],), case)
                        ok = False
                        break
                    seen_sigs = len(sigs)
                    bid = sigs[-1][1]
                    if bid in ids.values():
                        viol('announced-id-reused', dict(), 'id %r announced for bundle %d is still held by another bundle' % (bid, k), case)
                        ok = False
                        break
                    ids[k] = bid
                else:
                    res = world.call('recv_bundle_pop_data', ids[k])
                    if res[0] != 'ok' or bytes(res[1]) != bundles[k]:
                        viol('pop-returns-other-data', dict(), 'pop of id %r (bundle %d) -> %r' % (ids[k], k, res), case)
                        ok = False
                        break
                q = world.call('recv_bundle_get_queue')
                want = sorted(str(ids[j]) for j in ids if ('pop', j) not in hist[:hist.index((op, k)) + 1])
                if q[0] != 'ok' or sorted(str(x) for x in q[1]) != want:
                    viol('receive-queue-differs', dict(), 'queue %r, announced and not popped %r' % (q, want), case)
                    ok = False
                    break
            if ok and world.escaped:
                viol('exception-escaped-callback', dict(exc=world.escaped[-1][0]), '%s: %s' % (world.escaped[-1][0], world.escaped[-1][2]), case)
            keys.add(','.join(case['history']) + ('r' if reverse else ''))
    return dict(name=params['name'], evaluations=count, nontrivial_keys=sorted(keys), violations=violations, known=[], samples=[])


def scenarios(tier):
    out = []
    out.append(dict(name='pop-histories', kind='enum', runner='run_pop_histories', params=dict(name='pop-histories'), weight=10))
    out.append(dict(name='failed-request-then-good', kind='enum', runner='run_failed_request_then_good', params=dict(name='failed-request-then-good'), weight=10))
    out.append(dict(name='unusable-between', kind='enum', runner='run_unusable_between', params=dict(name='unusable-between'), weight=10))
    out.append(dict(name='send-receive', kind='enum', runner='run_send_receive', params=dict(name='send-receive'), weight=30))
    out.append(dict(name='many-in-progress', kind='enum', runner='run_many_in_progress', params=dict(name='many-in-progress'), weight=10))
    for part in range(6):
        name = 'codec-%d/6' % (part + 1)
        out.append(dict(name=name, kind='enum', runner='run_codec', params=dict(name=name, part=part, parts=6), weight=30))
    for part in range(6):
        name = 'sizing-%d/6' % (part + 1)
        out.append(dict(name=name, kind='enum', runner='run_sizing', params=dict(name=name, part=part, parts=6, tier=tier), weight=20))
    for nseg in (1, 2, 3, 4, 5):
        name = 'reassembly-%dseg' % nseg
        out.append(dict(name=name, kind='enum', runner='run_reassembly',
                        params=dict(name=name, segments=nseg, interleave=False, part=0, parts=1), weight=5))
    for nseg in (3, 4) + ((5,) if tier == 'thorough' else ()):
        parts = 1 if nseg == 3 else 4
        for part in range(parts):
            name = 'reassembly-%dseg-interleaved-%d/%d' % (nseg, part + 1, parts)
            out.append(dict(name=name, kind='enum', runner='run_reassembly',
                            params=dict(name=name, segments=nseg, interleave=True, part=part, parts=parts), weight=20))
    for nseg in (3,) + ((4,) if tier == 'thorough' else ()):
        parts = 1 if nseg == 3 else 4
        for part in range(parts):
            name = 'reassembly-%dseg-two-peers-%d/%d' % (nseg, part + 1, parts)
            out.append(dict(name=name, kind='enum', runner='run_reassembly',
                            params=dict(name=name, segments=nseg, interleave='peer2', part=part, parts=parts), weight=20))
    return out


ASSUMPTIONS = [
    'Ethernet frames on a virtual AF_PACKET socket; the MTU bounds the message set carried in one frame',
    'the 1 s transfer timers fire only after the last segment of a delivery (then all of them, in deadline order)',
    'eleven kinds of unusable frames (an Ethernet frame without payload octets does not occur: frames are padded) before / between / after the two segments of a transfer',
    'a send request that cannot be carried out (unknown interface, malformed or missing address) among ordinary ones, back to back and one after the other',
    'send/receive: bundles of 65535-70000 octets with no MTU / an MTU above / Ethernet size, and two or three bundles handed over back to back, frames arriving in order, alternating and reversed',
    'reassembly: 3-5 segments of two octets each, all permutations; a second two-segment transfer slipped in at every pair of positions, in both orders',
]

RULE = ('(a) finite product of message kinds x payload lengths x hint lists, message sets of 1-3 messages, three-way round '
        'trip with an independent codec; (b) (length, MTU) grid on the real send path with independent frame decoding; '
        '(c) every arrival permutation executed on a fresh real receiving agent; distinct by message-set shape / (length, '
        'MTU) / arrival order')


def evidence(tier, seed, scens, results, wall_s):
    return enum_evidence(PROP, 'exploration', tier, seed, scens, results, wall_s, ASSUMPTIONS, RULE)


def replay_case(body, verbose=False):
    print('case %r: %s: %s' % (body.get('case'), body['violation']['kind'], body['violation']['detail'][:600]))
    return 1
